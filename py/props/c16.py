"""C16 — queries, transformations and simulations are pure and repeatable.

Correspondence: histories of public calls on shared objects (one CircuitSimulator with its circuit, caller-owned
cbits lists and states; one processor with a user-held compiler) are executed on the real code with deep
snapshots of every argument before and after every call and compared with the heap/world model
(lean/QipVerif/Model/Sim.lean, driver drv_sim).  Oracle (independent of the model): argument snapshots unchanged,
repeat-equality, fresh-object equivalence, no aliasing between results."""
import contextlib, io, itertools, json, math, time, copy
import numpy as np

from vlib.core import PropertyCheck, load_findings
from vlib import paths
from props import _simlib as S


from props._c16_snap import snap, close
from props._c16_fresh import fresh, assert_same_tree, TreeChanged
from props import _c16_pulses as PN
from props import _c16_args as AR


# ------------------------------------------------------------------------------------------
# public queries / transformations on a circuit (model: no attribute of any object is written)

def q_compute_unitary(qc):
    return qc.compute_unitary()


def q_propagators(qc):
    return qc.propagators(ignore_measurement=True)


def q_propagators_compact(qc):
    return qc.propagators(expand=False, ignore_measurement=True)


def q_resolve(qc):
    return qc.resolve_gates()


def q_resolve_iswap(qc):
    return qc.resolve_gates(["ISWAP", "RX", "RZ"])


def q_adjacent(qc):
    return qc.adjacent_gates()


def q_chain(qc):
    from qutip_qip.transpiler.chain import to_chain_structure
    return to_chain_structure(qc)


def q_reverse(qc):
    return qc.reverse_circuit()


def q_schedule_asap(qc):
    from qutip_qip.compiler import Scheduler
    return Scheduler("ASAP").schedule(qc)


def q_schedule_alap(qc):
    from qutip_qip.compiler import Scheduler
    return Scheduler("ALAP").schedule(qc)


def q_qasm(qc):
    from qutip_qip.qasm import circuit_to_qasm_str
    return circuit_to_qasm_str(qc)


def q_draw(qc):
    buf = io.StringIO()
    with contextlib.redirect_stdout(buf):
        qc.draw("text")
    return buf.getvalue()


def q_latex(qc):
    from qutip_qip.circuit.texrenderer import TeXRenderer
    return TeXRenderer(qc).latex_code()


def q_qasm_import(qc):
    """export, then read the text back: the importer's tables (gate signatures, user-gate definitions, registers)
    are used on every call"""
    import warnings
    from qutip_qip.qasm import circuit_to_qasm_str, read_qasm
    text = circuit_to_qasm_str(qc)
    with warnings.catch_warnings():
        warnings.simplefilter("ignore")
        r = read_qasm(text, strmode=True)
    return (text, gates_view(r), r.N, r.num_cbits)


class PurityViolation(Exception):
    pass


def q_schedule_instructions(qc):
    """one Scheduler object used twice on one list of Instruction objects: the instructions and the scheduler keep
    their attributes, the second answer equals the first and equals a fresh scheduler's on fresh instructions"""
    from qutip_qip.compiler import Scheduler, Instruction
    from qutip_qip.operations import Gate
    mk = lambda: [Instruction(g, duration=1 + (i % 3)) for i, g in enumerate(qc.gates) if isinstance(g, Gate)]
    insts = mk()
    sched = Scheduler("ASAP")
    b_i, b_s = snap(insts), snap(vars(sched))
    r1 = sched.schedule(insts)
    if snap(insts) != b_i:
        raise PurityViolation("Scheduler.schedule changed the Instruction objects passed in")
    if snap(vars(sched)) != b_s:
        raise PurityViolation("Scheduler.schedule changed the Scheduler object")
    r2 = sched.schedule(insts)
    r3 = Scheduler("ASAP").schedule(mk())
    if not (close(snap(r1), snap(r2)) and close(snap(r1), snap(r3))):
        raise PurityViolation("a used Scheduler answers differently from the first call / a fresh one")
    return r1


QUERIES = {
    "schedule_instructions": q_schedule_instructions,
    "compute_unitary": q_compute_unitary, "propagators": q_propagators, "propagators_compact": q_propagators_compact,
    "resolve_gates": q_resolve, "resolve_iswap": q_resolve_iswap, "adjacent_gates": q_adjacent,
    "to_chain_structure": q_chain, "reverse_circuit": q_reverse, "schedule_asap": q_schedule_asap,
    "schedule_alap": q_schedule_alap, "qasm": q_qasm, "draw_text": q_draw, "latex_code": q_latex,
    "qasm_import": q_qasm_import,
}


SHARING = {}     # query name -> number of times its result shared Gate objects with the argument (observation)


def run_query(name, qc):
    """-> ("ok", snapshot of the result) | ("exc", class name)"""
    from qutip_qip.operations import Measurement
    if name == "compute_unitary" and any(isinstance(g, Measurement) for g in qc.gates):
        # would draw measurement outcomes at random (np.random): not a deterministic query
        return ("na", "compute_unitary of a circuit with measurements")
    try:
        r = QUERIES[name](qc)
        if hasattr(r, "gates") and r is not qc:
            ids = {id(g) for g in qc.gates}
            if any(id(g) in ids for g in r.gates):
                SHARING[name] = SHARING.get(name, 0) + 1
        return ("ok", snap(r))
    except PurityViolation as e:
        return ("impure", str(e))
    except Exception as e:
        return ("exc", type(e).__name__)


# ------------------------------------------------------------------------------------------
# query purity on the FULL gate library (oracle level; the model only says: queries write nothing)

LIB_1Q = ["X", "Y", "Z", "SNOT", "S", "T", "SQRTNOT"]
LIB_1Q_ARG = ["RX", "RY", "RZ", "PHASEGATE"]
LIB_2Q_FREE = ["SWAP", "ISWAP", "SQRTSWAP", "SQRTISWAP", "BERKELEY"]       # two targets, no control
LIB_2Q_FREE_ARG = ["SWAPalpha", "MS", "RZX"]
LIB_2Q_CTRL = ["CNOT", "CSIGN", "CZ", "CY", "CX", "CS", "CT"]
LIB_2Q_CTRL_ARG = ["CPHASE", "CRX", "CRY", "CRZ"]


def _user_crot():
    import qutip
    m = np.array([[1, 0, 0, 0], [0, 1, 0, 0], [0, 0, 0, -1j], [0, 0, -1j, 0]], dtype=complex)
    return qutip.Qobj(m, dims=[[2, 2], [2, 2]])


def _user_rot(arg):
    import qutip
    return qutip.Qobj([[np.cos(arg), -np.sin(arg)], [np.sin(arg), np.cos(arg)]])


def rand_lib_circuit(rng, n=None):
    """gates: {"name","targets","controls","arg","cc","ccv"} | {"M": target, "store": bit}"""
    n = n or rng.randint(2, 4)
    # `plain` circuits (library gates only, no measurement / user gate / classical control) so that the
    # decomposition, routing and export passes get inputs they accept
    plain = rng.random() < 0.45
    ncb = 0 if plain else rng.randint(0, 2)
    gates = []
    for _ in range(rng.randint(1, 7)):
        r = rng.random()
        g = {"controls": None, "arg": None, "cc": None, "ccv": None}
        if plain:
            r = max(r, 0.081)
        if r < 0.08:
            gates.append({"M": rng.randrange(n), "store": (rng.randrange(ncb) if ncb else None)})
            continue
        elif r < 0.25:
            nm = rng.choice(LIB_1Q + LIB_1Q_ARG + ([] if plain else ["UROT", "GLOBALPHASE"]))
            g.update(name=nm, targets=[rng.randrange(n)])
            if nm in LIB_1Q_ARG or nm in ("UROT", "GLOBALPHASE"):
                g["arg"] = rng.choice([0.25, 0.5, -0.75, 1.0]) * math.pi
            if nm == "GLOBALPHASE":
                g["targets"] = None
        elif r < 0.65:
            # control-less multi-target gates, ascending AND descending target order, user-defined ones included
            nm = rng.choice(LIB_2Q_FREE + (["SWAPalpha"] if plain else LIB_2Q_FREE_ARG + ["UCROT", "UCROT"]))
            a, b = rng.sample(range(n), 2)
            g.update(name=nm, targets=[a, b])
            if nm in ("SWAPalpha", "RZX"):
                g["arg"] = rng.choice([0.25, 0.5, 1.5])
            if nm == "MS":
                g["arg"] = [rng.choice([0.5, 1.0]) * math.pi, rng.choice([0.0, 0.5]) * math.pi]
        elif r < 0.9 or n < 3:
            nm = rng.choice(LIB_2Q_CTRL + LIB_2Q_CTRL_ARG)
            a, b = rng.sample(range(n), 2)
            g.update(name=nm, targets=[b], controls=[a])
            if nm in LIB_2Q_CTRL_ARG:
                g["arg"] = rng.choice([0.25, 0.5, -0.75]) * math.pi
        else:
            a, b, c_ = rng.sample(range(n), 3)
            if rng.random() < 0.5:
                g.update(name="TOFFOLI", targets=[c_], controls=[a, b])
            else:
                g.update(name="FREDKIN", targets=[b, c_], controls=[a])
        if ncb and rng.random() < 0.15:
            cc = rng.sample(range(ncb), rng.randint(1, ncb))
            g["cc"], g["ccv"] = cc, rng.randrange(2 ** len(cc))
        gates.append(g)
    return {"kind": "qpure", "n": n, "ncb": ncb, "gates": gates}


def sibling_circuit(rng, w):
    """the same gate names in the same order on other qubits / with other angles; witness with `after` = [w]"""
    n = w["n"]
    perm = list(range(n))
    if n > 1:
        while perm == list(range(n)):
            rng.shuffle(perm)
    gates = []
    for g in w["gates"]:
        if "M" in g:
            gates.append({"M": perm[g["M"]], "store": g.get("store")})
            continue
        h = dict(g)
        h["targets"] = None if g["targets"] is None else [perm[t] for t in g["targets"]]
        h["controls"] = None if not g.get("controls") else [perm[t] for t in g["controls"]]
        if isinstance(g.get("arg"), (int, float)):
            h["arg"] = g["arg"] * 0.5
        gates.append(h)
    return {"kind": "qpure", "n": n, "ncb": w["ncb"], "gates": gates,
            "after": [{k: w[k] for k in ("n", "ncb", "gates")}]}


def build_lib_circuit(w):
    from qutip_qip.circuit import QubitCircuit
    qc = QubitCircuit(w["n"], num_cbits=w["ncb"])
    qc.user_gates = {"UCROT": _user_crot, "UROT": _user_rot}
    for g in w["gates"]:
        if "M" in g:
            qc.add_measurement("M", targets=[g["M"]], classical_store=g.get("store"))
            continue
        kw = {}
        if g.get("cc") is not None:
            kw = {"classical_controls": list(g["cc"]), "classical_control_value": g["ccv"]}
        qc.add_gate(g["name"], targets=(None if g["targets"] is None else list(g["targets"])),
                    controls=(list(g["controls"]) if g.get("controls") else None),
                    arg_value=(list(g["arg"]) if isinstance(g.get("arg"), list) else g.get("arg")), **kw)
    return qc


def gates_view(qc):
    """what a user sees of the gate objects (beyond vars(): order of targets/controls as stored)"""
    out = []
    for g in qc.gates:
        out.append((type(g).__name__, g.name, None if g.targets is None else list(g.targets),
                    None if getattr(g, "controls", None) is None else list(g.controls),
                    repr(getattr(g, "arg_value", None)),
                    None if getattr(g, "classical_controls", None) is None else list(g.classical_controls),
                    getattr(g, "classical_control_value", None), getattr(g, "classical_store", None)))
    return out


def oracle_qpure(w, queries=None, fresh_ref=True):
    """Every query / transformation / export / drawing leaves the circuit and each of its gate objects exactly as
    they were (deep snapshot, vars()-level), and asked again returns an equal result."""
    try:
        qc = build_lib_circuit(w)
    except Exception as e:
        return False, "not constructible: " + type(e).__name__
    names = queries or w.get("queries") or sorted(QUERIES)
    refs = None
    # history of this process: the same queries asked before on OTHER circuits (e.g. the same gate names on other
    # qubits) — a result must not depend on it
    for prev in w.get("after") or []:
        try:
            pqc = build_lib_circuit(prev)
        except Exception:
            continue
        for name in names:
            run_query(name, pqc)
    for name in names:
        before, view = snap(qc), gates_view(qc)
        first = run_query(name, qc)
        after, view2 = snap(qc), gates_view(qc)
        if view != view2:
            j = next(i for i, (a, b) in enumerate(zip(view, view2)) if a != b)
            return True, f"query {name} changed gate {j} of the circuit passed in: {view[j]} -> {view2[j]}"
        if before != after:
            return True, f"query {name} changed the circuit passed in"
        if first[0] == "impure":
            return True, f"query {name}: {first[1]}"
        if first[0] == "na":
            continue
        again = run_query(name, qc)
        if not close(first, again):
            return True, f"query {name} asked twice returns different results"
        if snap(qc) != before:
            return True, f"query {name} (second call) changed the circuit passed in"
        if fresh_ref:
            # module-level state is not reset by constructing new objects: the reference is a NEW PROCESS
            if refs is None:
                # one new process per circuit; there the queries are asked in the opposite order, each on a circuit
                # object of its own
                refs = fresh().call("queries", {"names": list(names), "w": {k: w[k] for k in ("n", "ncb", "gates")}})
                refs = refs[1] if refs[0] == "ok" else {}
            ref = ("ok", refs[name]) if name in refs else ("none",)
            if ref[0] == "ok" and not close(first, ref[1]):
                assert_same_tree()
                return True, (f"query {name}: the result differs from the same query on an equal circuit in a new process "
                              f"in which nothing was called before (earlier calls of this process left state behind)"
                              + _first_diff(first, ref[1]))
    return False, f"{len(names)} queries left the circuit unchanged" + (", results equal to a new process's" if fresh_ref else "")


def _first_diff(a, b):
    """for text results: the first line present in one and not in the other"""
    try:
        if a[0] == "ok" and b[0] == "ok" and isinstance(a[1], str) and isinstance(b[1], str):
            la, lb = a[1].splitlines(), b[1].splitlines()
            miss = [x for x in lb if x not in la][:2]
            extra = [x for x in la if x not in lb][:2]
            return f"; lines only in the new process's result: {miss}; only here: {extra}"
    except Exception:
        pass
    return ""


def fresh_query(a):
    return run_query(a["name"], build_lib_circuit(a["w"]))


def fresh_queries(a):
    return {name: run_query(name, build_lib_circuit(a["w"])) for name in reversed(a["names"])}


def fresh_program_req(a):
    dev = a["dev"]
    return fresh_program(dev, a["circ"], [tuple(t) for t in a["tokens"]], {})


FRESH_FUNCS = {"query": fresh_query, "queries": fresh_queries, "program": fresh_program_req}


# gates without a native QASM name: the exporter emits a `gate …{}` definition and records the name in ITS table
W_QASM = {"kind": "qpure", "n": 2, "ncb": 0, "queries": ["qasm"],
          "gates": [{"name": "SNOT", "targets": [0], "controls": None, "arg": None, "cc": None, "ccv": None},
                    {"name": "CS", "targets": [1], "controls": [0], "arg": None, "cc": None, "ccv": None},
                    {"name": "SQRTNOT", "targets": [1], "controls": None, "arg": None, "cc": None, "ccv": None}]}
W_DRAW = {"kind": "qpure", "n": 2, "ncb": 0, "queries": ["draw_text"],
          "gates": [{"name": "ISWAP", "targets": [1, 0], "controls": None, "arg": None, "cc": None, "ccv": None}]}


# ------------------------------------------------------------------------------------------
# results of transformations: what they share with the argument (model: Model/SimObj.lean)

def t_reverse(qc):
    return qc.reverse_circuit()


def t_chain_lin(qc):
    from qutip_qip.transpiler.chain import to_chain_structure
    return to_chain_structure(qc, "linear")


def t_chain_circ(qc):
    from qutip_qip.transpiler.chain import to_chain_structure
    return to_chain_structure(qc, "circular")


def t_resolve(qc):
    return qc.resolve_gates()


def t_resolve_iswap(qc):
    return qc.resolve_gates(["ISWAP", "RX", "RZ"])


def t_adjacent(qc):
    return qc.adjacent_gates()


TRANSFORMS = {"reverse_circuit": t_reverse, "to_chain_structure_linear": t_chain_lin,
              "to_chain_structure_circular": t_chain_circ, "resolve_gates": t_resolve,
              "resolve_gates_iswap": t_resolve_iswap, "adjacent_gates": t_adjacent}
SWAP_LIKE = ["SWAP", "ISWAP", "SQRTISWAP", "SQRTSWAP", "BERKELEY", "SWAPalpha"]


def sharing_signature(arg, res):
    """per gate of the result: `o<i>` it IS gate i of the argument, `t<i>` another object holding the targets (or
    controls) list of gate i, `n` nothing shared"""
    gid = {id(g): i for i, g in enumerate(arg.gates)}
    lid = {}
    for i, g in enumerate(arg.gates):
        for l in (getattr(g, "targets", None), getattr(g, "controls", None)):
            if isinstance(l, list):
                lid[id(l)] = i
    out = []
    for g in res.gates:
        if id(g) in gid:
            out.append("o%d" % gid[id(g)])
            continue
        hit = [lid[id(l)] for l in (getattr(g, "targets", None), getattr(g, "controls", None))
               if isinstance(l, list) and id(l) in lid]
        out.append("t%d" % hit[0] if hit else "n")
    return out


def chain_plan(w, setup):
    """what `to_chain_structure` emits for each gate of the argument, as far as sharing goes: gates that are neither
    CNOT/CSIGN nor swap-like are appended as they are (`k<i>`); a CNOT/CSIGN spanning the whole circular chain is
    re-emitted from its own targets/controls lists (`l<i>`); everything else is built from new lists"""
    n = w["n"]
    plan = []
    for i, g in enumerate(w["gates"]):
        if "M" in g:
            plan.append("k%d" % i)
        elif g["name"] in ("CNOT", "CSIGN"):
            a, b = g["targets"][0], g["controls"][0]
            start, end = min(a, b), max(a, b)
            if not (setup == "linear" or (end - start) <= n // 2) and (end - start) == n - 1:
                plan.append("l%d" % i)
        elif g["name"] not in SWAP_LIKE:
            plan.append("k%d" % i)
    return plan


_PENDING = None


def pending():
    """repairs proposed by this check that are not (yet) in the tree under test (recognised by the exact unrepaired
    statement in the source, see _c16_args.pending): their random streams start with the repair; the fixed witnesses are
    replayed from known_findings.json regardless"""
    global _PENDING
    if _PENDING is None:
        try:
            _PENDING = AR.pending(paths.REPO)
        except Exception:
            _PENDING = set()
    return _PENDING


def mutate_result(res, states=False):
    """change, in place, everything a user can reach through the result's gates (and, with `states`, through its
    input_states / output_states lists)"""
    if states:
        for attr in ("input_states", "output_states"):
            l = getattr(res, attr, None)
            if isinstance(l, list) and l:
                l[0] = "MUTATED"
    for g in res.gates:
        for attr in ("targets", "controls", "classical_controls"):
            l = getattr(g, attr, None)
            if isinstance(l, list):
                l.append(99)
                l[0] = 98
        if hasattr(g, "arg_value"):
            g.arg_value = -123.0
        g.name = "MUTATED"


def oracle_share(w):
    """changing the result of a transformation in place never changes the circuit it was computed from"""
    try:
        qc = build_lib_circuit(w)
    except Exception as e:
        return False, "not constructible: " + type(e).__name__
    for name in (w.get("transforms") or sorted(TRANSFORMS)):
        before, view = snap(qc), gates_view(qc)
        try:
            res = TRANSFORMS[name](qc)
        except Exception:
            continue
        sig = sharing_signature(qc, res)
        states = bool(w.get("states", "C16-7" not in pending()))
        st_before = (list(qc.input_states), list(qc.output_states))
        mutate_result(res, states=states)
        if (list(qc.input_states), list(qc.output_states)) != st_before:
            return True, (f"{name}: changing input_states / output_states of the returned circuit in place changed the "
                          f"argument's: {st_before[0]} -> {qc.input_states} (the result holds the argument's list objects)")
        if gates_view(qc) != view or snap(qc) != before:
            shared = sorted({x for x in sig if x != "n"})
            j = next((i for i, (a, b) in enumerate(zip(view, gates_view(qc))) if a != b), None)
            return True, (f"{name}: changing the returned circuit's gates in place changed gate {j} of the argument "
                          f"(the result shares {shared} with it)")
    return False, "results of the transformations share nothing mutable with the argument"


W_SHARE_REV = {"kind": "share", "n": 2, "ncb": 0, "transforms": ["reverse_circuit"],
               "gates": [{"name": "CNOT", "targets": [1], "controls": [0], "arg": None, "cc": None, "ccv": None}]}
W_SHARE_STATES = dict(W_SHARE_REV, states=True)
W_SHARE_CHAIN = {"kind": "share", "n": 3, "ncb": 0, "transforms": ["to_chain_structure_circular"],
                 "gates": [{"name": "RX", "targets": [1], "controls": None, "arg": 0.5, "cc": None, "ccv": None},
                           {"name": "CNOT", "targets": [2], "controls": [0], "arg": None, "cc": None, "ccv": None}]}


# ------------------------------------------------------------------------------------------
# noise objects (model: Model/SimObj.lean relaxUse / decoUse)

def enc_tval(v):
    if v is None:
        return "N"
    if isinstance(v, list):
        return "l" + (",".join("N" if x is None else str(int(x)) for x in v) if v else "e")
    return "s%d" % int(v)


def read_tval(v):
    if v is None:
        return None
    if isinstance(v, (list, tuple)):
        return [None if x is None else int(x) for x in v]
    return int(v)


def run_relax(t1, t2, uses):
    """direct uses of one RelaxationNoise object: per use the verdict and the object's attributes afterwards"""
    from qutip_qip.noise import RelaxationNoise
    import copy as _copy
    n = RelaxationNoise(t1=_copy.deepcopy(t1), t2=_copy.deepcopy(t2))
    out = []
    for N in uses:
        try:
            n.get_noisy_pulses(dims=[2] * N, pulses=[])
            verdict = "ok"
        except ValueError:
            verdict = "err value"
        except Exception as e:
            verdict = "err other:" + type(e).__name__
        out.append((verdict, read_tval(n.t1), read_tval(n.t2)))
    return out


def rand_relax(rng):
    def tv(N):
        r = rng.random()
        if r < 0.2:
            return None
        if r < 0.6:
            return rng.choice([1, 2, 4, 0, -1])
        L = rng.choice([N, N, rng.randint(1, 3)])
        return [rng.choice([1, 2, 4, None]) for _ in range(L)]
    uses = [rng.randint(1, 3) for _ in range(rng.randint(1, 4))]
    t1 = tv(uses[0])
    t2 = tv(uses[0])
    # keep 2*t1 >= t2 so that the later physical check does not interfere: make t2 = t1 entrywise when both given
    if isinstance(t1, list) and isinstance(t2, list) and len(t1) == len(t2):
        t2 = [a if b is not None else None for a, b in zip(t1, t2)]
    elif not isinstance(t1, list) and not isinstance(t2, list) and t1 is not None and t2 is not None:
        t2 = t1
    elif t1 is not None and t2 is not None:
        t2 = None
    return {"kind": "noise", "t1": t1, "t2": t2, "uses": uses}


def oracle_noise(w):
    """a noise object that has been used answers like one freshly constructed with the same arguments, and keeps the
    attributes it was given"""
    rec = run_relax(w["t1"], w["t2"], w["uses"])
    for j, (N, (verdict, a1, a2)) in enumerate(zip(w["uses"], rec)):
        fresh = run_relax(w["t1"], w["t2"], [N])[0][0]
        if verdict != fresh:
            return True, (f"RelaxationNoise(t1={w['t1']}, t2={w['t2']}) after uses on {w['uses'][:j]} qubits: use on "
                          f"{N} qubits -> {verdict}, a fresh object -> {fresh}")
        if (a1, a2) != (read_tval(w["t1"]), read_tval(w["t2"])):
            return True, (f"RelaxationNoise(t1={w['t1']}, t2={w['t2']}): after a use on {N} qubits the object holds "
                          f"t1={a1}, t2={a2}")
    # through a processor: the caller's noise object is handed to process_noise
    from qutip_qip.noise import RelaxationNoise
    from qutip_qip.device import LinearSpinChain
    pos = lambda v: v is None or (not isinstance(v, list) and v > 0)
    if pos(w["t1"]) and pos(w["t2"]):
        nz = RelaxationNoise(t1=w["t1"], t2=w["t2"])
        p = LinearSpinChain(2)
        p.add_noise(nz)
        p.get_noisy_pulses(device_noise=True)
        if (read_tval(nz.t1), read_tval(nz.t2)) != (read_tval(w["t1"]), read_tval(w["t2"])):
            return True, (f"processor.get_noisy_pulses(device_noise=True) changed the caller's RelaxationNoise object: "
                          f"t1={nz.t1}, t2={nz.t2}")
    return False, "the used noise object equals a fresh one"


W_NOISE = {"kind": "noise", "t1": 1, "t2": 1, "uses": [2, 3]}


# ------------------------------------------------------------------------------------------
# the public pulse-shape generator against the documented waveform (independent reference: scipy's window)

def oracle_shape(w):
    """GateCompiler.generate_pulse_shape(shape, n, maximum, area), called `repeat` times: every call returns the
    documented waveform  sign(area)*|maximum| * window  on  linspace(0, t_max, n) * |area|/|maximum|."""
    from scipy import signal
    from qutip_qip.compiler import GateCompiler
    from qutip_qip.compiler import gatecompiler as gcm
    shape, n, mx, area = w["shape"], w["n"], w["maximum"], w["area"]
    t_max = gcm._default_window_t_max[shape]
    t0 = np.linspace(0, t_max, n)
    if shape == "hann":
        win = 0.5 - 0.5 * np.cos(np.pi * t0)
    elif shape == "hamming":
        win = 0.54 - 0.46 * np.cos(np.pi * t0 * 2 * 0.54)
    else:
        win = np.array(signal.windows.get_window(shape, n), dtype=float)
    exp_c = win * abs(mx) * np.sign(area)
    exp_t = t0 * abs(area) / abs(mx)
    for k in range(w.get("repeat", 3)):
        c, t = GateCompiler.generate_pulse_shape(shape, n, maximum=mx, area=area)
        c, t = np.array(c, dtype=float), np.array(t, dtype=float)
        if c.shape != exp_c.shape or not np.allclose(c, exp_c, atol=1e-12, rtol=1e-12):
            peak = float(np.max(np.abs(c))) if c.size else None
            return True, (f"generate_pulse_shape({shape!r}, {n}, maximum={mx}, area={area}), call {k + 1}: "
                          f"peak {peak!r}, the documented waveform has peak {float(np.max(np.abs(exp_c)))!r}")
        if not np.allclose(t, exp_t, atol=1e-12, rtol=1e-12):
            return True, f"generate_pulse_shape({shape!r}, …), call {k + 1}: time grid differs from the documented one"
    return False, "every call returns the documented waveform"


W_SHAPE = {"kind": "shape", "shape": "blackman", "n": 11, "maximum": 0.25, "area": -0.5, "repeat": 3}


# ------------------------------------------------------------------------------------------
# device side

PHASE_UNIT = 1e-12
# tokens 3.. are sampled through scipy.signal.windows.get_window (not the analytic hann/hamming formulas)
SHAPES = {0: "rectangular", 1: "hann", 2: "hamming", 3: "blackman", 4: "triang", 5: "cosine", 6: "parzen"}


def make_processor(kind, n):
    from qutip_qip.device import LinearSpinChain, CircularSpinChain, DispersiveCavityQED
    if kind == "linear":
        return LinearSpinChain(n)
    if kind == "circular":
        return CircularSpinChain(n)
    if kind == "scq":
        from qutip_qip.device import SCQubits
        return SCQubits(n)
    return DispersiveCavityQED(n, num_levels=2)


def make_compiler(kind, proc, n):
    from qutip_qip.compiler import SpinChainCompiler, CavityQEDCompiler
    if kind == "cqed":
        return CavityQEDCompiler(n, proc.params)
    if kind == "scq":
        from qutip_qip.compiler import SCQubitsCompiler
        return SCQubitsCompiler(n, proc.params)
    return SpinChainCompiler(n, proc.params, setup=kind)


def build_gate_circuit(n, gates):
    from qutip_qip.circuit import QubitCircuit
    qc = QubitCircuit(n)
    for g in gates:
        qc.add_gate(g["name"], targets=g["targets"], controls=g.get("controls"), arg_value=g.get("arg"))
    return qc


def args_dict(tokens):
    """model tokens (key 0 = shape, key 1 = num_samples) -> the dict passed to compile(args=…)"""
    d = {}
    for k, v in tokens:
        if k == 0:
            d["shape"] = SHAPES[v]
        else:
            d["num_samples"] = v
    return d


def args_tokens_of(compiler):
    """the compiler's persistent configuration as model tokens (defaults omitted)"""
    out = []
    inv = {v: k for k, v in SHAPES.items()}
    scq = type(compiler).__name__ == "SCQubitsCompiler"       # its defaults: shape hann, 101 samples
    if compiler.args.get("shape") != ("hann" if scq else "rectangular"):
        out.append((0, inv[compiler.args["shape"]]))
    if compiler.args.get("num_samples") != (101 if scq else None):
        out.append((1, int(compiler.args["num_samples"])))
    return sorted(out)


def parse_tok(tok):
    """`circ:k:v,k:v` -> (circ, sorted tokens without the default shape)"""
    c, _, a = tok.partition(":")
    kv = sorted(t for t in (tuple(int(x) for x in p.split(":")) for p in a.split(",") if p) if t != (0, 0))
    return int(c), kv


def pulses_snap(proc):
    """the pulses a processor holds, as functions of time: a step-function pulse with N grid points is given by its
    first N-1 coefficients (some accessors append the value 0 at the last grid point to the stored array, which is
    the same function of time on the pulse's interval)"""
    out = []
    for p in proc.pulses:
        coeff, tlist = p.coeff, p.tlist
        if (p.spline_kind == "step_func" and isinstance(coeff, np.ndarray) and tlist is not None
                and len(coeff) == len(tlist)):
            if coeff[-1] != 0:
                out.append(("nonzero-last-step-coefficient", p.label))
            coeff = coeff[:-1]
        out.append((p.label, p.targets, None if coeff is None else np.array(coeff, dtype=float), tlist, p.spline_kind))
    return snap(out)


ENTRIES = ["run", "run_analytically", "run_state"]


def call_entry(proc, via, qc, n):
    """the public entry points that take a circuit and load it: Processor.run(qc), run_analytically(qc=…),
    run_state(init, qc=…, analytical=True); -> the propagators / states returned, as dense matrices"""
    import qutip
    if via == "run":
        out = proc.run(qc)
    elif via == "run_analytically":
        out = proc.run_analytically(qc=qc)
    else:
        init = qutip.basis(list(proc.dims), [0] * len(proc.dims))
        out = proc.run_state(init, qc=qc, analytical=True)
    return [np.asarray(u.full()) for u in out]


def fresh_entry(dev, circ, via, cache):
    key = ("entry", circ, via)
    if key not in cache:
        proc = make_processor(dev["kind"], dev["n"])
        try:
            cache[key] = snap(call_entry(proc, via, build_gate_circuit(dev["n"], dev["circuits"][circ]), dev["n"]))
        except Exception as e:
            cache[key] = ("exc", type(e).__name__)
    return cache[key]


def res_close(a, b):
    """returned programs; a circuit loaded through another entry point returns no program (`via`)"""
    return (isinstance(a, str) and a == "via") or (isinstance(b, str) and b == "via") or close(a, b)


def analytic_U(proc):
    """the propagators run_analytically() returns (the last one is the global phase), as dense matrices"""
    try:
        us = proc.run_analytically()
    except Exception as e:
        return ("exc", type(e).__name__)
    return [np.asarray(u.full()) for u in us]


def phase_on_empty(repo, kind):
    """does load_circuit overwrite global_phase also when the compiled circuit needs no pulse (early return of
    ModelProcessor.load_circuit)?  Source reading cross-checked by behaviour."""
    import ast as _ast
    from vlib.core import TranslatorError
    if kind == "scq":
        return True              # SCQubits never stores a phase (global_phase stays 0): the flag is immaterial

    def assigns_phase(node):
        return isinstance(node, _ast.Assign) and any(
            isinstance(t, _ast.Attribute) and t.attr == "global_phase" and isinstance(t.value, _ast.Name)
            and t.value.id == "self" for t in node.targets)

    def method(rel, cls, name):
        tree = _ast.parse(open(paths.REPO + "/" + rel).read()) if repo is None else _ast.parse(open(repo + "/" + rel).read())
        for node in _ast.walk(tree):
            if isinstance(node, _ast.ClassDef) and node.name == cls:
                for f in node.body:
                    if isinstance(f, _ast.FunctionDef) and f.name == name:
                        return f
        raise TranslatorError(f"{cls}.{name} not found")

    rel, cls = {"linear": ("src/qutip_qip/device/spinchain.py", "SpinChain"),
                "circular": ("src/qutip_qip/device/spinchain.py", "SpinChain"),
                "cqed": ("src/qutip_qip/device/cavityqed.py", "DispersiveCavityQED")}[kind]
    sub = method(rel, cls, "load_circuit")
    in_sub = any(assigns_phase(st) for st in sub.body)                  # top level: after super().load_circuit(...)
    base = method("src/qutip_qip/device/modelprocessor.py", "ModelProcessor", "load_circuit")
    in_base = False
    for st in base.body:
        if assigns_phase(st):
            in_base = True
            break
        if isinstance(st, _ast.If) and any(isinstance(x, _ast.Return) for x in _ast.walk(st)):
            # the early return: is the phase stored inside it?
            if any(assigns_phase(x) for x in _ast.walk(st)):
                in_base = True
            break
    a = in_sub or in_base
    proc = make_processor(kind, 2)
    proc.load_circuit(build_gate_circuit(2, [{"name": "SNOT", "targets": [0], "controls": None, "arg": None}]))
    p1 = float(proc.global_phase)
    proc.load_circuit(build_gate_circuit(2, []))
    b = abs(float(proc.global_phase)) < 1e-12 or abs(p1) < 1e-12
    if a != b:
        raise TranslatorError(f"global_phase on the pulse-free path of load_circuit ({kind}): source reading ({a}) and "
                              f"behaviour ({b}) differ")
    return a


def fresh_program(dev, circ, tokens, cache):
    """what a freshly constructed processor + compiler (configured with `tokens`) hold after loading `circ`"""
    key = (circ, tuple(tokens))
    if key not in cache:
        proc = make_processor(dev["kind"], dev["n"])
        comp = make_compiler(dev["kind"], proc, dev["n"])
        comp.args.update(args_dict(tokens))
        qc = build_gate_circuit(dev["n"], dev["circuits"][circ])
        r = proc.load_circuit(qc, compiler=comp)
        cache[key] = {"result": snap(r), "pulses": pulses_snap(proc), "phase": float(proc.global_phase),
                      "U": snap(analytic_U(proc)), "pulse_free": r[1] is None}
    return cache[key]


def run_device(dev):
    """Execute the history on one shared processor + user compiler.  Returns per-call records."""
    n = dev["n"]
    proc = make_processor(dev["kind"], n)
    comp = make_compiler(dev["kind"], proc, n)
    circuits = [build_gate_circuit(n, g) for g in dev["circuits"]]
    circ_snaps = [snap(c) for c in circuits]
    recs = []
    for c in dev["calls"]:
        rec = {"call": c}
        try:
            if c[0] == "load" and len(c) > 3 and c[3]:
                # the circuit handed to another public entry point that loads it (default compiler)
                rec["entry"] = snap(call_entry(proc, c[3], circuits[c[1]], n))
                rec["result"] = "via"
            elif c[0] == "load":
                r = proc.load_circuit(circuits[c[1]], compiler=(comp if c[2] else None))
                rec["result"] = snap(r)
            elif c[0] == "compile":
                qt = proc.transpile(circuits[c[1]])
                r = comp.compile(qt, schedule_mode="ASAP", args=(None if c[2] is None else args_dict(c[2])))
                rec["result"] = snap(r)
            elif c[0] == "pquery":
                r = PQUERIES[c[1]](proc, n)
                rec["result"] = snap(r)
        except Exception as e:
            rec["exc"] = type(e).__name__ + ": " + str(e)[:120]
        rec["circuits_unchanged"] = [snap(x) == s for x, s in zip(circuits, circ_snaps)]
        rec["comp"] = {"args": args_tokens_of(comp), "phase": float(comp.global_phase)}
        rec["proc"] = {"pulses": pulses_snap(proc), "phase": float(proc.global_phase)}
        if c[0] == "load" and "exc" not in rec:
            rec["U"] = snap(analytic_U(proc))
        if c[0] == "pquery" and "exc" in rec:
            rec["pq_exc"] = rec.pop("exc")          # compared with a fresh processor holding the same program
        recs.append(rec)
    return recs


def pq_noisy(proc, n):
    return [(p.label, p.coeff, p.tlist) for p in proc.get_noisy_pulses()]


def pq_qobjevo(proc, n):
    q, c = proc.get_qobjevo()
    return (q(0.0), len(c))


def pq_tlist(proc, n):
    return proc.get_full_tlist()


def pq_coeffs(proc, n):
    return proc.get_full_coeffs()


def pq_analytic(proc, n):
    return proc.run_analytically()


def pq_plot_free(proc, n):
    return [proc.get_control_labels(), proc.get_operators_labels() if hasattr(proc, "get_operators_labels") else None]


def pq_run_state(proc, n):
    """numerical solver on |0…0⟩ (raises AttributeError on trees where run_state still evaluates qutip.Options)"""
    import qutip
    init = proc.generate_init_processor_state() if hasattr(proc, "generate_init_processor_state") else \
        qutip.basis([2] * n, [0] * n)
    try:
        r = proc.run_state(init)
    except AttributeError as e:
        if "Options" in str(e):
            return "not usable with this QuTiP (qutip.Options)"
        raise
    except Exception as e:
        # the ODE solver giving up (default nsteps) is runtime numerics, not a purity question: the call is
        # still exercised as a query that must leave pulses, phases and arguments unchanged
        if type(e).__name__ == "IntegratorException":
            return "solver step limit (IntegratorException)"
        raise
    return r.states[-1]


PQUERIES = {"run_state": pq_run_state, "get_noisy_pulses": pq_noisy, "get_qobjevo": pq_qobjevo, "get_full_tlist": pq_tlist,
            "get_full_coeffs": pq_coeffs, "run_analytically": pq_analytic, "labels": pq_plot_free}


DEVICE_GATES_1Q = ["SNOT", "X", "RX", "RZ", "RY", "Z"]


def rand_pulse_free(rng, n, kind):
    """a circuit that needs no control pulse: empty, GLOBALPHASE gates only, rotations by the angle 0, IDLE only"""
    r = rng.random()
    if r < 0.3:
        return []
    if r < 0.6:
        return [{"name": "GLOBALPHASE", "targets": None, "controls": None, "arg": rng.choice([0.3, -0.5, 1.0])}
                for _ in range(rng.randint(1, 2))]
    if r < 0.85:
        return [{"name": rng.choice(["RX", "RY"] if kind == "scq" else ["RX", "RZ", "RY"]),
                 "targets": [rng.randrange(n)], "controls": None, "arg": 0.0} for _ in range(rng.randint(1, 2))]
    return [{"name": "IDLE", "targets": [rng.randrange(n)], "controls": None, "arg": rng.choice([0.5, 1.0])}]


def rand_device(rng, max_calls=8):
    kind = rng.choice(["linear", "linear", "circular", "circular", "cqed", "cqed", "scq"])
    n = rng.randint(1, 3) if kind not in ("circular", "scq") else rng.randint(2, 3)
    circuits = []
    for _ in range(rng.randint(1, 3)):
        gs = []
        for _ in range(rng.randint(1, 4)):
            if kind == "scq":
                if rng.random() < 0.3:
                    a = rng.randrange(n - 1)
                    gs.append({"name": "CNOT", "targets": [a + 1], "controls": [a]})
                else:
                    nm = rng.choice(["RX", "RY", "X"])
                    gs.append({"name": nm, "targets": [rng.randrange(n)], "controls": None,
                               "arg": (rng.choice([0.25, 0.5, 1.0, -0.75]) * math.pi if nm != "X" else None)})
            elif n >= 2 and rng.random() < 0.3:
                a, b = rng.sample(range(n), 2)
                nm = rng.choice(["CNOT", "ISWAP"])
                gs.append({"name": "CNOT", "targets": [b], "controls": [a]} if nm == "CNOT"
                          else {"name": "ISWAP", "targets": [a, b], "controls": None})
            else:
                nm = rng.choice(DEVICE_GATES_1Q)
                gs.append({"name": nm, "targets": [rng.randrange(n)], "controls": None,
                           "arg": (rng.choice([0.25, 0.5, 1.0, -0.75]) * math.pi if nm in ("RX", "RY", "RZ") else None)})
        circuits.append(gs)
    # circuits that need no control pulse, loaded at any position of the history (load_circuit takes its early return:
    # everything held for the previous circuit — pulses AND global phase — must go)
    free = []
    if rng.random() < 0.6:
        for _ in range(rng.randint(1, 2)):
            circuits.insert(rng.randrange(len(circuits) + 1), "FREE")
        circuits = [rand_pulse_free(rng, n, kind) if c == "FREE" else c for c in circuits]
    calls = [("load", rng.randrange(len(circuits)), rng.random() < 0.7)]
    shaped = False
    for _ in range(rng.randint(1, max_calls - 1)):
        if len(calls) >= max_calls:
            break
        k = rng.random()
        ci = rng.randrange(len(circuits))
        if k < 0.5:
            if rng.random() < 0.3:
                # the circuit handed to another public entry point that loads it (scq: analytical propagators of a
                # transmon register are slow, only `run`)
                ents = [e for e in ENTRIES if not (e == "run_analytically" and "C16-9" in pending())]
                calls.append(("load", ci, False, rng.choice(ents if kind != "scq" else ["run"])))
            else:
                calls.append(("load", ci, rng.random() < 0.7))
        elif k < 0.7:
            a = None
            if rng.random() < 0.5:
                # a non-rectangular shape needs num_samples (otherwise the real compile raises TypeError)
                # (continuous shapes are not supported by every CavityQEDCompiler routine: spin chains only)
                a = [(1, rng.choice([5, 8, 9]))] + ([(0, rng.choice(sorted(SHAPES)))]
                                                    if rng.random() < 0.8 and kind not in ("cqed", "scq") else [])
                if kind == "scq":
                    a = [(1, rng.choice([51, 81]))]
            calls.append(("compile", ci, a))
            if a and rng.random() < 0.7:
                # the same program again, through the processor and through the compiler
                calls.append(("load", ci, True))
                if rng.random() < 0.5:
                    calls.append(("load", ci, True))
        else:
            # (the numerical solver on a transmon register takes seconds: not in these histories)
            calls.append(("pquery", rng.choice([q for q in sorted(PQUERIES)
                                                if kind != "scq" or q not in ("run_state", "get_qobjevo")])))
    return {"kind": kind, "n": n, "circuits": circuits, "calls": calls}


def device_empties(dev):
    """which circuits take the early return of ModelProcessor.load_circuit (compiler returns coeffs = None), measured on
    fresh objects"""
    out = []
    for gs in dev["circuits"]:
        proc = make_processor(dev["kind"], dev["n"])
        r = proc.load_circuit(build_gate_circuit(dev["n"], gs))
        out.append(r[1] is None)
    return out


def device_phases(dev):
    """global phase (units of 1e-12 rad) that compiling each circuit contributes, measured on fresh objects"""
    out = []
    for gs in dev["circuits"]:
        proc = make_processor(dev["kind"], dev["n"])
        proc.load_circuit(build_gate_circuit(dev["n"], gs))
        out.append(int(round(float(proc.global_phase) / PHASE_UNIT)))
    return out


def encode_device(dev, cfg, ncalls, phases, empties=None, poe=True):
    calls = []
    for c in dev["calls"][:ncalls]:
        if c[0] == "pquery":
            calls.append(("query",))
        else:
            calls.append(c)
    case = {"n": 1, "ncb": 0, "mode": "sv", "ops": [], "lists": [], "inits": [], "calls": calls}
    line = S.encode(case, cfg, (), phases)
    if empties is not None:
        line += " empties=" + ",".join("1" if e else "0" for e in empties) + " poe=" + ("1" if poe else "0")
    return line


# ------------------------------------------------------------------------------------------
# the oracle (independent of the model): purity, repeatability, fresh equivalence, no aliasing

def result_canon(res):
    """CircuitResult -> comparable value"""
    return (snap(res.final_states), snap([float(p) for p in res.probabilities]),
            snap([None if x is None else [int(v) for v in x] for x in res.cbits]) if hasattr(res, "cbits") else "absent")


def oracle_sim(w):
    """History on a shared simulator.  w: the _simlib case + optional `queries` interleaved as ("query", name)."""
    from qutip_qip.circuit import CircuitSimulator
    try:
        qc = S.build_circuit(w)
    except ValueError as e:
        return False, "circuit refused at construction: " + str(e)[:80]
    mode = {"sv": "state_vector_simulator", "dm": "density_matrix_simulator"}[w["mode"]]
    sim = CircuitSimulator(qc, mode=mode)
    lists = [list(l) for l in w["lists"]]
    inits = [S.init_qobj(s, w["n"], w["mode"]) for s in w["inits"]]
    m = S.num_meas(w)
    results = []          # (call index, CircuitResult)
    versions = S.versions_of(w)
    cur_ops = w["ops"]
    for j, c in enumerate(w["calls"]):
        c = tuple(c)
        if c[0] == "edit":
            # the user edits the simulator's circuit in place (number of operations unchanged); from now on a fresh
            # simulator is one constructed for the circuit as it is now
            b2 = (snap(inits), snap(lists))
            S.apply_edit(qc, cur_ops, versions[c[1]], c[2] if len(c) > 2 else "replace")
            cur_ops = versions[c[1]]
            if (snap(inits), snap(lists)) != b2:
                return True, f"call {j} edit changed a state or list argument"
            continue
        before = (snap(qc), snap(inits), snap(lists))
        lists_before = [list(l) for l in lists]
        deterministic = True
        out = None
        np.random.seed(1234 + j)
        try:
            if c[0] == "run":
                deterministic = not (sum(1 for o in cur_ops if "m" in o) > 0 and not c[3])
                out = sim.run(inits[c[1]], cbits=None if c[2] is None else lists[c[2]],
                              measure_results=None if c[3] is None else tuple(c[3]))
            elif c[0] == "stat":
                out = sim.run_statistics(inits[c[1]], cbits=None if c[2] is None else lists[c[2]])
            elif c[0] == "init":
                sim.initialize(inits[c[1]], cbits=None if c[2] is None else lists[c[2]],
                               measure_results=None if c[3] is None else tuple(c[3]))
            elif c[0] == "step":
                sim.step()
            elif c[0] == "state":
                out = sim.state
            elif c[0] == "query":
                out = run_query(c[1], qc)
        except Exception as e:
            out = ("exc", type(e).__name__)
        after = (snap(qc), snap(inits), snap(lists))
        what = ["the circuit", "the initial states", "the caller's cbits lists"]
        for a, b, nm in zip(before, after, what):
            if a != b:
                extra = f" {lists_before} -> {lists}" if nm.startswith("the caller") else ""
                return True, f"call {j} {c[0]} changed {nm}{extra}"
        if c[0] in ("run", "stat") and not isinstance(out, tuple):
            # no aliasing between results and with the caller's lists
            if hasattr(out, "cbits"):
                ids = [id(x) for x in out.cbits if x is not None]
                if len(set(ids)) != len(ids):
                    return True, f"call {j} {c[0]}: records of one result share a cbits list"
                if any(id(x) in {id(l) for l in lists} for x in out.cbits if x is not None):
                    return True, f"call {j} {c[0]}: a returned cbits list is the caller's list"
                for j0, r0 in results:
                    if hasattr(r0, "cbits") and {id(x) for x in r0.cbits if x is not None} & set(ids):
                        return True, f"calls {j0} and {j}: results share a cbits list"
            results.append((j, out))
            canon = result_canon(out)
            # fresh equivalence: the same call on a freshly constructed simulator, same argument values
            fresh = CircuitSimulator(qc, mode=mode)
            np.random.seed(1234 + j)
            cb = None if c[2] is None else list(lists[c[2]])
            try:
                if c[0] == "run":
                    r2 = fresh.run(inits[c[1]], cbits=cb, measure_results=None if c[3] is None else tuple(c[3]))
                else:
                    r2 = fresh.run_statistics(inits[c[1]], cbits=cb)
                canon2 = result_canon(r2)
            except Exception as e:
                canon2 = ("exc", type(e).__name__)
            if not close(canon, canon2):
                return True, (f"call {j} {c[0]} on the used simulator differs from the same call on a fresh one"
                              + (" constructed for the circuit as edited (operations now: " + json.dumps(cur_ops) + ")"
                                 if cur_ops is not w["ops"] else ""))
            # repeat: the same call again on the same objects
            if deterministic:
                np.random.seed(1234 + j)
                try:
                    if c[0] == "run":
                        r3 = sim.run(inits[c[1]], cbits=None if c[2] is None else lists[c[2]],
                                     measure_results=None if c[3] is None else tuple(c[3]))
                    else:
                        r3 = sim.run_statistics(inits[c[1]], cbits=None if c[2] is None else lists[c[2]])
                    canon3 = result_canon(r3)
                except Exception as e:
                    canon3 = ("exc", type(e).__name__)
                if not close(canon, canon3):
                    return True, f"call {j} {c[0]} repeated on the same objects returns a different result"
                if [list(l) for l in lists] != lists_before:
                    return True, f"call {j} {c[0]} (repeated) changed the caller's cbits lists {lists_before} -> {lists}"
        if c[0] == "query":
            again = run_query(c[1], qc)
            if not close(out, again):
                return True, f"query {c[1]} repeated returns a different result"
            fresh_qc = S.build_circuit(dict(w, ops=cur_ops))
            if not close(out, run_query(c[1], fresh_qc)):
                return True, f"query {c[1]} on the used circuit differs from a freshly built circuit"
        if c[0] == "state" and mode == "state_vector_simulator":
            # reading the state must not change what the next step does: compare with an unread twin
            pass
    return False, f"{len(w['calls'])} calls: arguments unchanged, repeats equal, used = fresh, no shared lists"


def oracle_getter(w):
    """Reading the public `state` property between steps must not change the evolution: two simulators run the
    same circuit step by step, one of them reads `.state` after every step."""
    from qutip_qip.circuit import CircuitSimulator
    qc = S.build_circuit(w)
    init = S.init_qobj(w["inits"][0], w["n"], "sv")
    mr = tuple(w.get("mr") or ())
    a, b = CircuitSimulator(qc), CircuitSimulator(qc)
    a.initialize(init, measure_results=mr or None)
    b.initialize(init, measure_results=mr or None)
    for k in range(len(qc.gates)):
        ea = eb = None
        try:
            a.step()
        except Exception as e:
            ea = type(e).__name__
        try:
            b.step()
            if b._state is not None:
                b.state
        except Exception as e:
            eb = type(e).__name__
        if ea != eb:
            return True, f"step {k}: without reading .state -> {ea or 'ok'}, after reading .state -> {eb or 'ok'}"
        if ea:
            break
        if a._state is None or b._state is None:
            if (a._state is None) != (b._state is None):
                return True, f"step {k}: one simulator pruned the branch, the other did not"
            break
    try:
        sa, sb = a.state, b.state
    except Exception as e:
        return True, "reading .state raised " + type(e).__name__
    if (sa is None) != (sb is None) or (sa is not None and not np.allclose(sa.full(), sb.full(), atol=1e-10)):
        return True, "final states differ between the simulator that was read and the one that was not"
    return False, "reading .state between steps does not change the evolution"


NOT_EVALUABLE = ("IntegratorException", "LinAlgError", "FloatingPointError", "MemoryError")


# ------------------------------------------------------------------------------------------
# one simulator, its circuit edited in place between runs (full gate library: also `gate.arg_value = new`)

def rand_simedit(rng):
    w = rand_lib_circuit(rng)
    gpos = [i for i, g in enumerate(w["gates"]) if "M" not in g]
    edits = []
    n = w["n"]
    for _ in range(rng.randint(1, 3)):
        if not gpos:
            break
        i = rng.choice(gpos)
        g = w["gates"][i]
        r = rng.random()
        if isinstance(g.get("arg"), (int, float)) and r < 0.5:
            edits.append({"i": i, "how": "arg", "arg": g["arg"] + rng.choice([0.3, 0.9, -1.1])})
        elif r < 0.75 and g.get("targets"):
            perm = list(range(n))
            rng.shuffle(perm)
            edits.append({"i": i, "how": "targets", "targets": [perm[t] for t in g["targets"]],
                          "controls": None if not g.get("controls") else [perm[t] for t in g["controls"]]})
        else:
            new = next((h for h in rand_lib_circuit(rng, n)["gates"] if "M" not in h and h.get("cc") is None
                        and h["name"] not in ("UROT", "UCROT")), None)
            if new is not None:
                edits.append({"i": i, "how": "replace", "gate": new})
    # edits that change the NUMBER of operations / measurements (positions refer to the circuit at that time)
    length = len(w["gates"])
    nmeas = sum(1 for g in w["gates"] if "M" in g)
    extra = []
    for _ in range(rng.randint(1, 3)):
        r = rng.random()
        if r < 0.45 and nmeas < 3:
            extra.append({"how": "addM", "M": rng.randrange(n), "store": (rng.randrange(w["ncb"]) if w["ncb"] else None),
                          "index": rng.choice([None, rng.randint(0, length)])})
            length += 1
            nmeas += 1
        elif r < 0.6:
            new = next((h for h in rand_lib_circuit(rng, n)["gates"] if "M" not in h and h.get("cc") is None
                        and h["name"] not in ("UROT", "UCROT")), None)
            if new is not None:
                extra.append({"how": "addG", "gate": new, "index": rng.choice([None, rng.randint(0, length)])})
                length += 1
        elif r < 0.85 and length > 1:
            extra.append({"how": "remove", "i": rng.randrange(length), "prefer_measurement": rng.random() < 0.6})
            length -= 1
        elif w["ncb"]:
            extra.append({"how": "store", "store": rng.choice([None] + list(range(w["ncb"])))})
    if rng.random() < 0.7:
        # gate-level edits keep their positions only while nothing was added or removed: they come first
        edits = edits + extra if rng.random() < 0.5 else extra
    return {"kind": "simedit", "n": n, "ncb": w["ncb"], "gates": w["gates"], "edits": edits,
            "mode": "sv" if rng.random() < 0.8 else "dm", "init": rng.randrange(2 ** n), "step": rng.random() < 0.5}


def apply_lib_edit(qc, e):
    from qutip_qip.operations import Measurement
    if e["how"] == "addM":
        kw = {} if e.get("index") is None else {"index": [min(e["index"], len(qc.gates))]}
        qc.add_measurement("M", targets=[e["M"]], classical_store=e.get("store"), **kw)
        return
    if e["how"] == "addG":
        h = e["gate"]
        kw = {} if e.get("index") is None else {"index": [min(e["index"], len(qc.gates))]}
        qc.add_gate(h["name"], targets=(None if h["targets"] is None else list(h["targets"])),
                    controls=(list(h["controls"]) if h.get("controls") else None),
                    arg_value=(list(h["arg"]) if isinstance(h.get("arg"), list) else h.get("arg")), **kw)
        return
    if e["how"] == "remove":
        i = min(e["i"], len(qc.gates) - 1)
        mpos = [k for k, g in enumerate(qc.gates) if isinstance(g, Measurement)]
        if e.get("prefer_measurement") and mpos:
            i = mpos[i % len(mpos)]
        qc.remove_gate_or_measurement(index=i)
        return
    if e["how"] == "store":
        mpos = [k for k, g in enumerate(qc.gates) if isinstance(g, Measurement)]
        if not mpos:
            raise IndexError("no measurement to re-assign")
        qc.gates[mpos[0]].classical_store = e["store"]
        return
    g = qc.gates[e["i"]]
    if e["how"] == "arg":
        g.arg_value = e["arg"]
    elif e["how"] == "targets":
        g.targets = list(e["targets"])
        if e.get("controls") is not None:
            g.controls = list(e["controls"])
    else:
        h = e["gate"]
        qc.remove_gate_or_measurement(index=e["i"])
        qc.add_gate(h["name"], targets=(None if h["targets"] is None else list(h["targets"])),
                    controls=(list(h["controls"]) if h.get("controls") else None),
                    arg_value=(list(h["arg"]) if isinstance(h.get("arg"), list) else h.get("arg")), index=[e["i"]])


def oracle_simedit(w):
    """One CircuitSimulator; between runs the user edits its circuit in place with the number of operations unchanged
    (gate.arg_value re-assigned, targets / controls re-assigned, gate i replaced through remove + add at index i).
    After every edit, run_statistics (and run, when there is no measurement) on the used simulator must equal the same
    call on a freshly constructed simulator of the circuit as it is now, and QubitCircuit.run_statistics."""
    import qutip
    from qutip_qip.circuit import CircuitSimulator
    from qutip_qip.operations import Measurement
    try:
        qc = build_lib_circuit(w)
    except Exception as e:
        return False, "not constructible: " + type(e).__name__
    mode = {"sv": "state_vector_simulator", "dm": "density_matrix_simulator"}[w["mode"]]
    n = w["n"]
    bits = [(w["init"] >> (n - 1 - q)) & 1 for q in range(n)]
    init = qutip.basis([2] * n, bits)
    if w["mode"] == "dm":
        init = qutip.ket2dm(init)
    cb = [0] * w["ncb"] if w["ncb"] else None
    sim = CircuitSimulator(qc, mode=mode)

    def ev(s, what):
        try:
            r = s.run_statistics(init, cbits=(None if cb is None else list(cb))) if what == "stat" else \
                s.run(init, cbits=(None if cb is None else list(cb)))
            return result_canon(r)
        except Exception as e:
            return ("exc", type(e).__name__)

    for stage in range(len(w["edits"]) + 1):
        if stage:
            e = w["edits"][stage - 1]
            try:
                apply_lib_edit(qc, e)
            except Exception as ex:
                return False, f"edit {stage} not applicable: {type(ex).__name__}"
        has_m = any(isinstance(g, Measurement) for g in qc.gates)
        if w.get("step") and w["mode"] == "sv" and not has_m:
            # initialize + step through the edited circuit on the used simulator against a fresh one
            def stepped(s_):
                try:
                    s_.initialize(init, cbits=(None if cb is None else list(cb)))
                    for _ in range(len(qc.gates)):
                        s_.step()
                    return snap(np.asarray(s_.state.full()))
                except Exception as ex:
                    return ("exc", type(ex).__name__)
            if not close(stepped(sim), stepped(CircuitSimulator(qc, mode=mode)), 1e-9):
                return True, f"initialize + step through the circuit after edit {stage}: used simulator differs from a fresh one"
        for what in (["stat"] if has_m else ["stat", "run"]):
            used = ev(sim, what)
            fresh = ev(CircuitSimulator(qc, mode=mode), what)
            if not close(used, fresh, 1e-9):
                where = "before any edit" if not stage else f"after edit {stage} ({json.dumps(w['edits'][stage - 1])})"
                return True, (f"{'run_statistics' if what == 'stat' else 'run'} {where}: the used simulator differs from a "
                              f"freshly constructed CircuitSimulator of the circuit as it is now")
            if what == "stat":
                # repeatable, and the probabilities of the branches sum to one
                again = ev(sim, what)
                if not close(used, again, 1e-9):
                    return True, f"run_statistics {('after edit %d' % stage) if stage else 'before any edit'}: two identical calls differ"
                try:
                    rr = sim.run_statistics(init, cbits=(None if cb is None else list(cb)))
                    tot = float(sum(rr.get_probabilities()))
                    # (state-vector mode: in density-matrix mode every record returns the dephased mixture with
                    # probability 1 — the behaviour modelled by C02)
                    if w["mode"] == "sv" and abs(tot - 1) > 1e-9:
                        return True, (f"run_statistics after edit {stage} ({json.dumps(w['edits'][stage - 1]) if stage else '-'}): "
                                      f"{len(rr.get_probabilities())} branches whose probabilities sum to {tot!r}")
                except Exception:
                    pass
                try:
                    direct = result_canon(qc.run_statistics(init, cbits=(None if cb is None else list(cb))))
                except Exception as ex:
                    direct = ("exc", type(ex).__name__)
                if mode == "state_vector_simulator" and not close(used, direct, 1e-9):
                    return True, f"run_statistics after edit {stage}: the used simulator differs from QubitCircuit.run_statistics"
    return False, f"{len(w['edits'])} in-place edits: used simulator = fresh simulator of the edited circuit"


W_SIMEDIT = {"kind": "simedit", "n": 2, "ncb": 0, "mode": "sv", "init": 0,
             "gates": [{"name": "RX", "targets": [0], "controls": None, "arg": math.pi / 2, "cc": None, "ccv": None},
                       {"name": "CNOT", "targets": [1], "controls": [0], "arg": None, "cc": None, "ccv": None}],
             "edits": [{"i": 0, "how": "replace",
                        "gate": {"name": "RY", "targets": [0], "controls": None, "arg": math.pi / 3, "cc": None, "ccv": None}},
                       {"i": 0, "how": "arg", "arg": 2.1}]}


# ------------------------------------------------------------------------------------------
# every returned state object is kept and compared again at the END of the history

def rand_trajectory(rng):
    w = rand_lib_circuit(rng)
    gates = [g for g in w["gates"] if "M" not in g and g.get("cc") is None and g["name"] not in ("UROT", "UCROT")]
    if not gates:
        gates = [{"name": "SNOT", "targets": [0], "controls": None, "arg": None, "cc": None, "ccv": None}]
    # GLOBALPHASE gates in the middle of the circuit (as resolve_gates / transpile produce them)
    for _ in range(rng.randint(0, 2)):
        gates.insert(rng.randint(1, len(gates)), {"name": "GLOBALPHASE", "targets": None, "controls": None,
                                                  "arg": rng.choice([0.3, 1.0, -0.7]), "cc": None, "ccv": None})
    resolve = rng.choice([None, None, "default", ["CNOT", "RX", "RY", "RZ"]])
    return {"kind": "trajectory", "n": w["n"], "ncb": 0, "gates": gates, "resolve": resolve,
            "mode": "sv" if rng.random() < 0.75 else "dm", "init": rng.randrange(2 ** w["n"]),
            "reads": [rng.random() < 0.6 for _ in range(40)], "unitary_input": rng.random() < 0.15}


def oracle_trajectory(w):
    """Stepping API on one simulator: every Qobj read from `sim.state`, every result of run / run_statistics and every
    propagator list / unitary returned along the way is KEPT, together with a deep snapshot taken when it was returned;
    at the end of the history every kept object must still equal its snapshot (a later step, run or query must not
    rewrite what was handed out), and the states read must equal those of a second simulator that is never read."""
    import qutip
    from qutip_qip.circuit import CircuitSimulator
    try:
        qc = build_lib_circuit(w)
    except Exception as e:
        return False, "not constructible: " + type(e).__name__
    if w.get("resolve"):
        try:
            qc = qc.resolve_gates() if w["resolve"] == "default" else qc.resolve_gates(list(w["resolve"]))
        except Exception:
            pass                 # a gate the decomposition does not know: the circuit is stepped as it is
    mode = {"sv": "state_vector_simulator", "dm": "density_matrix_simulator"}[w["mode"]]
    n = w["n"]
    bits = [(w["init"] >> (n - 1 - q)) & 1 for q in range(n)]
    init = qutip.basis([2] * n, bits)
    if w["mode"] == "dm":
        init = qutip.ket2dm(init)
    elif w.get("unitary_input"):
        init = qutip.qeye([2] * n)
    kept = []            # (what, object, snapshot when returned)

    def keep(what, obj):
        kept.append((what, obj, snap(obj)))

    sim, twin = CircuitSimulator(qc, mode=mode), CircuitSimulator(qc, mode=mode)
    b_init = snap(init)
    try:
        sim.initialize(init)
        twin.initialize(init)
        for k in range(len(qc.gates)):
            sim.step()
            twin.step()
            if w["reads"][k % len(w["reads"])]:
                s_ = sim.state
                keep(f"sim.state read after step {k} ({qc.gates[k].name})", s_)
                t_ = twin.state
                if not np.allclose(np.asarray(s_.full()), np.asarray(t_.full()), atol=1e-10):
                    return True, f"step {k}: the simulator that is read and its unread twin hold different states"
        keep("sim.state read after the last step", sim.state)
        r1 = sim.run(init)
        keep("the CircuitResult of run", r1)
        keep("the final state returned by run", r1.get_final_states(0))
        r2 = sim.run_statistics(init)
        keep("the CircuitResult of run_statistics", r2)
        # the simulator is used again: nothing handed out before may change
        sim.initialize(init)
        for k in range(len(qc.gates)):
            sim.step()
        sim.run(init)
        if not w.get("unitary_input"):
            keep("the list returned by propagators()", qc.propagators(ignore_measurement=True))
            keep("the unitary returned by compute_unitary()", qc.compute_unitary())
            qc.propagators(ignore_measurement=True)
            qc.compute_unitary()
    except Exception as e:
        return False, "history not evaluable: " + type(e).__name__ + ": " + str(e)[:80]
    if snap(init) != b_init:
        return True, "the initial state passed in was changed"
    for what, obj, s0 in kept:
        if not close(snap(obj), s0, 0.0):
            return True, (f"{what} was changed by LATER calls: at the end of the history the object no longer equals the "
                          f"deep snapshot taken when it was returned")
    return False, f"{len(kept)} returned objects kept: all unchanged at the end of the history"


W_TRAJ = {"kind": "trajectory", "n": 2, "ncb": 0, "mode": "sv", "init": 0, "resolve": "default", "reads": [True],
          "gates": [{"name": "SNOT", "targets": [0], "controls": None, "arg": None, "cc": None, "ccv": None},
                    {"name": "SNOT", "targets": [1], "controls": None, "arg": None, "cc": None, "ccv": None}]}


W_SIMEDIT_MEAS = {"kind": "simedit", "n": 1, "ncb": 1, "mode": "sv", "init": 0, "step": True,
                  "gates": [{"name": "SNOT", "targets": [0], "controls": None, "arg": None, "cc": None, "ccv": None}],
                  "edits": [{"how": "addM", "M": 0, "store": 0, "index": None},
                            {"how": "store", "store": None},
                            {"how": "remove", "i": 0, "prefer_measurement": True}]}


def oracle_device(dev):
    n = dev["n"]
    recs = run_device(dev)
    cache = {}
    first = {}
    for j, (rec, c) in enumerate(zip(recs, dev["calls"])):
        if not all(rec["circuits_unchanged"]):
            return True, f"call {j} {c[0]} changed a circuit passed in"
        if "pq_exc" in rec:
            # a pulse query that raises: the used processor must raise what a fresh processor holding the same program
            # raises (e.g. the numerical solver on a processor holding no pulse)
            last = next((cc for cc in reversed(dev["calls"][:j]) if cc[0] == "load"), None)
            if rec["pq_exc"].split(":")[0] in NOT_EVALUABLE or last is None:
                return False, f"call {j} {c[0]} not evaluable: {rec['pq_exc']}"
            jl = max(i for i, cc in enumerate(dev["calls"][:j]) if cc[0] == "load")
            fproc = make_processor(dev["kind"], n)
            fcomp = make_compiler(dev["kind"], fproc, n)
            fcomp.args.update(args_dict(recs[jl]["comp"]["args"] if last[2] else []))
            fproc.load_circuit(build_gate_circuit(n, dev["circuits"][last[1]]), compiler=fcomp)
            try:
                PQUERIES[c[1]](fproc, n)
                fexc = None
            except Exception as e:
                fexc = type(e).__name__
            if fexc != rec["pq_exc"].split(":")[0]:
                return True, (f"call {j} {c[1]} raised {rec['pq_exc']} on the used processor, a fresh processor holding the "
                              f"same program: {fexc or 'no exception'}")
        if "exc" in rec:
            if rec["exc"].split(":")[0] in NOT_EVALUABLE:
                # runtime numerics (solver limits, singular systems): not a purity question
                return False, f"call {j} {c[0]} not evaluable: {rec['exc']}"
            return True, f"call {j} {c[0]} raised {rec['exc']}"
        if c[0] == "load":
            # the same (circuit, compiler configuration) loaded earlier in THIS history gave the same program
            key = (c[1], tuple(recs[j]["comp"]["args"]) if c[2] else ())
            if key in first:
                j0 = first[key]
                if not res_close(rec["result"], recs[j0]["result"]) or not close(rec["proc"]["pulses"], recs[j0]["proc"]["pulses"]):
                    return True, (f"call {j} load_circuit(circuit {c[1]}, args {list(key[1])}) gives different pulses than "
                                  f"the same call {j0} earlier in the history")
            else:
                first[key] = j
        if c[0] == "load":
            # a used processor (and a used compiler) behaves like a freshly constructed one with the same
            # configuration: same returned program, same pulses held, same global phase
            tokens = recs[j]["comp"]["args"] if c[2] else []
            fr = fresh_program(dev, c[1], tokens, cache)
            via = c[3] if len(c) > 3 else None
            if via:
                fe = fresh_entry(dev, c[1], via, cache)
                if not close(rec.get("entry"), fe, 1e-9):
                    return True, (f"call {j}: processor.{via}(circuit {c[1]} = {json.dumps(dev['circuits'][c[1]])}) on the USED "
                                  f"processor returns other propagators than on a fresh processor"
                                  + (" (the circuit needs no control pulse)" if fr["pulse_free"] else ""))
            if not res_close(rec["result"], fr["result"]):
                return True, f"call {j} load_circuit returns a different program than a fresh processor"
            pkey = ("pristine", c[1], tuple(tokens))
            if pkey not in cache:
                # the same on a fresh processor in a NEW PROCESS (module-level state is not reset by new objects)
                ref = fresh().call("program", {"dev": {"kind": dev["kind"], "n": dev["n"], "circuits": dev["circuits"]},
                                               "circ": c[1], "tokens": [list(t) for t in tokens]})
                cache[pkey] = ref[1] if ref[0] == "ok" else None
            pr = cache[pkey]
            if pr is not None and not (res_close(rec["result"], pr["result"]) and close(rec["proc"]["pulses"], pr["pulses"])):
                assert_same_tree()
                return True, (f"call {j} load_circuit(circuit {c[1]}, args {list(tokens)}): program / pulses differ from a "
                              f"fresh processor in a new process in which nothing was called before")
            if not close(rec["proc"]["pulses"], fr["pulses"]):
                return True, f"call {j}: pulses held after load_circuit differ from a fresh processor"
            if abs(rec["proc"]["phase"] - fr["phase"]) > 1e-9:
                return True, (f"call {j} load_circuit(circuit {c[1]}{' = ' + json.dumps(dev['circuits'][c[1]]) if fr['pulse_free'] else ''}, "
                              f"compiler={'user' if c[2] else 'default'}): "
                              f"global_phase {rec['proc']['phase']!r}, a fresh processor/compiler gives {fr['phase']!r}"
                              + (" (the circuit needs no control pulse)" if fr["pulse_free"] else ""))
            if not close(rec["U"], fr["U"], 1e-9):
                return True, (f"call {j} load_circuit(circuit {c[1]}): run_analytically() of the used processor differs "
                              f"from a fresh processor's")
        if c[0] == "pquery" and j > 0:
            if not close(rec["proc"]["pulses"], recs[j - 1]["proc"]["pulses"]):
                return True, f"call {j} {c[1]} changed the pulses held by the processor"
            if rec["proc"]["phase"] != recs[j - 1]["proc"]["phase"] or rec["comp"] != recs[j - 1]["comp"]:
                return True, f"call {j} {c[1]} changed global_phase / compiler state"
    # repeat-equality of pure processor queries
    return False, f"{len(recs)} device calls: circuits unchanged, used = fresh"


W_ALIAS = {"kind": "sim", "n": 1, "ncb": 1, "mode": "sv",
           "ops": [{"g": 4, "q": [0], "cc": None, "ccv": 0}, {"m": 0, "store": 0}],
           "lists": [[0]], "inits": [{"k": 0, "vecs": [[1, 0]]}], "calls": [["stat", 0, 0]]}
W_PHASE = {"kind": "device", "kind_dev": "linear", "n": 1,
           "circuits": [[{"name": "SNOT", "targets": [0], "controls": None, "arg": None}]],
           "calls": [["load", 0, True], ["load", 0, True]]}
W_PHASE_FREE = {"kind": "device", "kind_dev": "linear", "n": 2,
                "circuits": [[{"name": "SNOT", "targets": [0], "controls": None, "arg": None}], []],
                "calls": [["load", 0, False], ["load", 1, False], ["pquery", "run_analytically"]]}
W_RUN_EMPTY = {"kind": "device", "kind_dev": "linear", "n": 2,
               "circuits": [[{"name": "SNOT", "targets": [0], "controls": None, "arg": None}], []],
               "calls": [["load", 0, False, "run"], ["load", 1, False, "run"]]}
W_RUNAN_QC = {"kind": "device", "kind_dev": "linear", "n": 1,
              "circuits": [[{"name": "X", "targets": [0], "controls": None, "arg": None}],
                           [{"name": "RX", "targets": [0], "controls": None, "arg": 0.5}]],
              "calls": [["load", 0, False], ["load", 1, False, "run_analytically"]]}
W_PHASE_FREE_CQED = {"kind": "device", "kind_dev": "cqed", "n": 2,
                     "circuits": [[{"name": "X", "targets": [1], "controls": None, "arg": None}],
                                  [{"name": "RZ", "targets": [0], "controls": None, "arg": 0.0}]],
                     "calls": [["load", 0, True], ["load", 1, True]]}
W_GETTER = {"kind": "getter", "n": 2, "ncb": 0, "mode": "sv",
            "ops": [{"g": 0, "q": [0], "cc": None, "ccv": 0}, {"g": 0, "q": [1], "cc": None, "ccv": 0}],
            "lists": [], "inits": [{"k": 0, "vecs": [[1, 0, 0, 0]]}], "calls": []}


def dev_of(w):
    return {"kind": w["kind_dev"], "n": w["n"], "circuits": w["circuits"], "calls": [tuple(c) for c in w["calls"]]}


def oracle(w):
    if w["kind"] == "sim":
        return oracle_sim(w)
    if w["kind"] == "getter":
        return oracle_getter(w)
    if w["kind"] == "qpure":
        return oracle_qpure(w)
    if w["kind"] == "shape":
        return oracle_shape(w)
    if w["kind"] == "share":
        return oracle_share(w)
    if w["kind"] == "noise":
        return oracle_noise(w)
    if w["kind"] == "pnoise":
        return PN.oracle_pnoise(w)
    if w["kind"] == "simedit":
        return oracle_simedit(w)
    if w["kind"] == "trajectory":
        return oracle_trajectory(w)
    if w["kind"] == "runargs":
        return AR.oracle_runargs(w)
    if w["kind"] == "plotlabels":
        return AR.oracle_plotlabels(w)
    return oracle_device(dev_of(w))


def rand_shape_witness(rng):
    return {"kind": "shape", "shape": rng.choice(["blackman", "triang", "cosine", "parzen", "bohman", "nuttall",
                                                   "hann", "hamming", "bartlett", "flattop", "barthann"]),
            "n": rng.choice([5, 8, 11, 20, 51]), "maximum": rng.choice([0.25, 0.5, 2.0, -3.0, 1.0]),
            "area": rng.choice([1.0, -1.0, 0.5, -0.125, 2.0]), "repeat": rng.randint(2, 4)}


SIM_QUERIES = sorted(QUERIES)


def rand_sim_history(rng, with_queries=True, max_calls=8, with_edits=True):
    n = rng.randint(1, 3)
    ncb = rng.randint(0, 3)
    ops = S.rand_circuit(rng, n, ncb, rng.randint(1, 6), 3, big_ccv=0.0)
    if rng.random() < 0.3:
        ops = [o for o in ops if "g" in o and o["cc"] is None] or [{"g": 0, "q": [0], "cc": None, "ccv": 0}]
    m = sum(1 for o in ops if "m" in o)
    mode = "sv" if rng.random() < 0.8 else "dm"
    inits = [S.rand_init(rng, n, None if mode == "sv" else "basis") for _ in range(2)]
    lists = [[rng.randint(0, 1) for _ in range(ncb)] for _ in range(2)] if ncb else []
    calls = []
    # in-place edits of the simulator's circuit between calls: gate i replaced by another gate (remove + add at the same
    # index) or its targets / controls re-assigned; a measurement or gate appended / inserted at an index; an operation
    # removed; classical_store / target of a measurement re-assigned (the number of operations AND of measurements changes)
    alts = []
    gate_pos = [i for i, o in enumerate(ops) if "g" in o]
    if with_edits and rng.random() < 0.5:
        cur = ops
        for _ in range(rng.randint(1, 3)):
            mc = sum(1 for o in cur if "m" in o)
            gpos = [i for i, o in enumerate(cur) if "g" in o]
            mpos = [i for i, o in enumerate(cur) if "m" in o]
            r = rng.random()
            nxt = None
            if r < 0.3 and mc < 3:
                # a measurement added (appended or inserted): the circuit may go from 0 to >= 1 measurements
                i = rng.choice([len(cur), rng.randint(0, len(cur))])
                nxt = cur[:i] + [{"m": rng.randrange(n), "store": (rng.randrange(ncb) if ncb and rng.random() < 0.8 else None)}] + cur[i:]
            elif r < 0.45 and len(cur) < 8:
                i = rng.choice([len(cur), rng.randint(0, len(cur))])
                nxt = cur[:i] + [S.rand_gate(rng, n, ncb, big_ccv=0.0)] + cur[i:]
            elif r < 0.65 and len(cur) > 1:
                # an operation removed (measurements preferred: back to fewer / no measurements)
                i = rng.choice(mpos) if (mpos and rng.random() < 0.6) else rng.randrange(len(cur))
                nxt = cur[:i] + cur[i + 1:]
            elif r < 0.75 and mpos and ncb:
                i = rng.choice(mpos)
                new = dict(cur[i], store=rng.choice([None] + list(range(ncb))))
                if rng.random() < 0.3:
                    new["m"] = rng.randrange(n)
                nxt = cur[:i] + [new] + cur[i + 1:] if new != cur[i] else None
            elif gpos:
                i = rng.choice(gpos)
                for _try in range(8):
                    cand = S.rand_gate(rng, n, ncb, big_ccv=0.0, p_cc=0.0)
                    cand = dict(cand, cc=cur[i]["cc"], ccv=cur[i]["ccv"]) if rng.random() < 0.5 else cand
                    if cand != cur[i]:
                        nxt = cur[:i] + [cand] + cur[i + 1:]
                        break
            if nxt is None:
                continue
            cur = nxt
            alts.append(cur)
    versions = [ops] + alts
    ms = [sum(1 for o in v if "m" in o) for v in versions]
    version = 0
    for _ in range(rng.randint(2, max_calls)):
        m = ms[version]
        cb = rng.choice([None, 0, 1]) if lists else None
        mr = [rng.randint(0, 1) for _ in range(m)] if (m and rng.random() < 0.8) else None
        k = rng.random()
        if alts and calls and rng.random() < 0.3:
            # each version differs from its neighbour by ONE public edit: move one version forward or back
            v = rng.choice([x for x in (version - 1, version + 1) if 0 <= x <= len(alts)])
            version = v
            calls.append(("edit", v, rng.choice(["replace", "assign", "append"])))
            continue
        if k < 0.3:
            calls.append(("run", rng.randrange(2), cb, mr))
        elif k < 0.5:
            calls.append(("stat", rng.randrange(2), cb))
        elif k < 0.8 and with_queries:
            calls.append(("query", rng.choice(SIM_QUERIES)))
        elif k < 0.9:
            calls.append(("init", rng.randrange(2), cb, mr))
        else:
            calls.append(("step",))
    w = {"kind": "sim", "n": n, "ncb": ncb, "mode": mode, "ops": ops, "lists": lists, "inits": inits,
         "calls": calls}
    if any(c[0] == "edit" for c in calls):
        w["alts"] = alts
    return w


class C16(PropertyCheck):
    id = "C16"
    lean_modules = ["QipVerif.Props.C16"]
    drivers = ["drv_sim"]
    theorems = [
        "QipVerif.C16.args_unchanged",
        "QipVerif.C16.fresh_equivalent",
        "QipVerif.C16.repeat_equal",
        "QipVerif.C16.fresh_equivalent_rng",
        "QipVerif.C16.repeat_equal_rng",
        "QipVerif.C16.no_alias",
        "QipVerif.C16.fresh_equivalent_edited",
        "QipVerif.C16.fresh_equivalent_load",
        "QipVerif.C16.fresh_equivalent_load_pulsefree",
        "QipVerif.C16.C16_counterexample_stale_phase_pulsefree",
        "QipVerif.C16.query_pure",
        "QipVerif.C16.transform_result_independent",
        "QipVerif.C16.noise_fresh_equivalent",
        "QipVerif.C16.pulse_padding_same_function",
        "QipVerif.C16.noisy_pulses_unchanged",
        "QipVerif.C16.noisy_fresh_equivalent",
        "QipVerif.C16.noisy_repeat_equal",
        "QipVerif.C16.noisy_result_new",
        "QipVerif.C16.C16_counterexample_noisy_pulses_accumulate",
        "QipVerif.C16.noise_list_unchanged",
        "QipVerif.C16.C16_counterexample_noise_list_grows",
        "QipVerif.C16.C16_counterexample_reverse_shares",
        "QipVerif.C16.C16_counterexample_chain_shares_lists",
        "QipVerif.C16.C16_counterexample_noise_rewrites",
        "QipVerif.C16.C16_counterexample_cbits_alias",
        "QipVerif.C16.C16_counterexample_phase_accumulates",
        "QipVerif.C16.C16_counterexample_state_getter",
    ]
    technique = ("Lean 4 proof over a heap/world model of the mutable attributes (CircuitSimulator, GateCompiler, "
                 "ModelProcessor; classical-bit lists, gate objects with their targets/controls lists, pulse objects with "
                 "their noise-element lists as heap cells so that aliasing is representable) + history correspondence "
                 "with deep snapshots + independent purity/repeat/fresh-object oracle with a process-fresh reference "
                 "(forked child of a pristine server process) for module-level state")
    level_text = ("Lean 4 theorems over a heap/world model whose fields are exactly the mutable attributes of the modelled "
                  "objects (CircuitSimulator.cbits/_state/_probability/_op_index/_measure_results/_measure_ind, "
                  "GateCompiler.args/global_phase, processor pulses/global_phase; classical-bit lists as heap cells so that "
                  "`self.cbits = cbits` is an alias), every public operation being a step World -> Call -> World x Ret; "
                  "for ALL histories and all inputs, exceptions included: caller-owned lists keep their values "
                  "(args_unchanged); run/run_statistics return a function of the argument values and the RNG state only, "
                  "hence equal on repetition and equal to a freshly constructed simulator (repeat_equal, fresh_equivalent); "
                  "the lists referred to by results of different runs/records are pairwise different and new (no_alias); "
                  "load_circuit leaves a used processor holding exactly what a fresh one would (fresh_equivalent_load; with the "
                  "early return for circuits that need no pulse: fresh_equivalent_load_pulsefree, flag phaseOnEmpty read "
                  "from the source); "
                  "results of transformations that end with the deep copy share no gate object and no targets/controls "
                  "list with their argument, so no in-place change of the result changes the argument "
                  "(transform_result_independent); noise objects keep their attributes and answer like fresh ones "
                  "(noise_fresh_equivalent); the coefficient padding stored back by get_qobjevo is the same function of "
                  "time (pulse_padding_same_function, on the C14 model); pulse objects are cells holding references to "
                  "their coherent_noise / lindblad_noise lists, get_noisy_pulses / process_noise with the copies they make "
                  "read from the source: if a deep copy is made at either site then for ALL histories of noisy evaluations "
                  "with ANY noise objects (ControlAmpNoise, RandomNoise, RelaxationNoise, DecoherenceNoise, ZZCrossTalk, user "
                  "subclasses; IndexError included) the held pulses keep ideal element and noise-list contents "
                  "(noisy_pulses_unchanged), the value returned is a function of the held pulses' values, the noise objects "
                  "and the generator state only, hence equal on repetition and on a fresh processor (noisy_fresh_equivalent, "
                  "noisy_repeat_equal), and everything returned is new (noisy_result_new); with both copies dropped the "
                  "noise elements accumulate 0,1,2 (C16_counterexample_noisy_pulses_accumulate). "
                  "The model is tied to the code on every run by histories of up to 8 public calls on shared objects with "
                  "deep (vars()-level, arrays by value) snapshots of every argument before and after every call.")
    level_note = ("Trusted: Lean kernel (propext, Classical.choice, Quot.sound); Model/Sim.lean + Model/Heap.lean as the list of "
                  "attributes each call writes (validated by the correspondence, not proved); circuits, gates and states are "
                  "immutable in the model — that no call writes them, and mutation inside numpy buffers of QuTiP objects, is "
                  "covered only by the snapshots of the correspondence. The theorems describe the repaired code (fixes "
                  "C02-1, C16-1, C16-2 as explicit hypotheses cfg.copyCbits / cfg.resetPhase / cfg.pureGetter); the "
                  "unrepaired behaviours are refuted by kernel-checked counter-examples replayed on the implementation. "
                  "repeat_equal/fresh_equivalent hold for every deterministic call whatever the numpy RNG state (such calls are "
                  "proved never to read it); for unconstrained runs the RNG state is an explicit input (…_rng). "
                  "Processor.run_state (numerical solver) is exercised only as a query that must leave pulses, phases, "
                  "compiler state, noise objects and its own arguments (c_ops list, options dict) unchanged and return equal "
                  "final states on repetition. Noise elements are tokens in Model/SimPulse.lean (which list of which pulse "
                  "object receives which element, in which order); operators and coefficient arrays of the elements are "
                  "compared by the snapshots only. Module-level state of the package (tables, caches) is not modelled: it is "
                  "exercised by repeated calls in ONE process and compared with a NEW process (oracle level). The list of noise "
                  "objects is an aliasable object (noise_list_unchanged needs a copy of it before RelaxationNoise(t1,t2) is "
                  "appended: read from the source). Model/SimEdit.lean states the contract that the simulator reads its "
                  "circuit at every initialize/step and keeps nothing derived from the gates (fresh_equivalent_edited: "
                  "histories with in-place edits of the circuit); tied by sim histories with gate replacements / re-assigned "
                  "targets on the exact gate set, arg_value edits at oracle level only.")
    trusted_base = [
        "Lean 4.33 kernel; axioms propext, Classical.choice, Quot.sound",
        "Model/Sim.lean, Model/Heap.lean as a description of which attributes each public call writes (validated by "
        "this correspondence, not proved); mutation inside numpy buffers of QuTiP objects is visible only to the deep "
        "snapshots of the correspondence",
        "Model/SimPulse.lean as a description of which list objects get_noisy_pulses / process_noise / the noise classes "
        "append to (validated by the pulse-noise correspondence, copies read from the source by AST and confirmed by "
        "counting deep copies)",
        "py/props/_simlib.py, py/props/c16.py, _c16_snap.py, _c16_pulses.py, _c16_args.py, _c16_fresh.py (harness, snapshot "
        "function, scripted np.random.choice / rand_gen, fork-based process-fresh reference)",
    ]
    assumptions = ["Processor.run_state (numerical solver) is exercised as a pure query where usable (on trees where it still "
                   "evaluates qutip.Options it is skipped)"]
    rule = ("case = one history (<= 8 public calls) on shared objects: simulator calls (run, run_statistics, initialize, "
            "step, state) interleaved with circuit queries (compute_unitary, propagators, resolve_gates, adjacent_gates, "
            "to_chain_structure, reverse_circuit, schedule, qasm export, text drawing), or processor calls "
            "(load_circuit with default / user compiler, compile with args, pulse queries), or 2-5 noisy evaluations "
            "(get_noisy_pulses, get_qobjevo(noisy=True), run_state) on one processor carrying 1-4 noise objects of every "
            "shipped class, or all circuit queries on a full-library circuit (half of them after the same queries on a "
            "sibling circuit with the same gate names); non-trivial = at least two calls touching the same object")

    # ---------------------------------------------------------------------------------
    def correspondence(self, ctx, res):
        rng = ctx.rng
        self.cfg = cfg = S.probe_cfg(paths.REPO)
        res.notes.append("code variant read from the source and confirmed by behaviour: " + json.dumps(cfg))
        drv = ctx.driver("drv_sim")

        # 1. simulator histories with queries and deep snapshots
        cases, impls, lines, snaps_ok = [], [], [], []
        for it in range(6000 if ctx.thorough else 220):
            case = rand_sim_history(rng)
            problems = []
            state = {}

            def observer(j, c, when, objs, chunk, problems=problems, state=state):
                cur = (snap(objs["qc"]) if c[0] != "edit" else None, snap(objs["inits"]))
                if when == "before":
                    state["s"] = cur
                elif cur != state["s"]:
                    problems.append(f"call {j} {c[0]}: the circuit or a state argument changed")

            def h_query(objs, c):
                simvars = snap({k: v for k, v in vars(objs["sim"]).items() if k != "_qc"})
                lists = [list(l) for l in objs["lists"]]
                r = run_query(c[1], objs["qc"])
                if snap({k: v for k, v in vars(objs["sim"]).items() if k != "_qc"}) != simvars or lists != objs["lists"]:
                    problems.append(f"query {c[1]} changed the simulator or a list")
                return {"kind": "Q", "result": r}

            mcase = dict(case, calls=[("query",) if c[0] == "query" else c for c in case["calls"]])
            impl = S.run_impl(case, rng, observer=observer, handlers={"query": h_query})
            picks = impl[3] if impl[0] == "ok" else []
            cases.append(case)
            impls.append(impl)
            snaps_ok.append(problems)
            lines.append(S.encode(mcase, cfg, picks))
        outs = drv.run(lines)
        for case, impl, problems, o in zip(cases, impls, snaps_ok, outs):
            inp = {k: case[k] for k in ("n", "ncb", "mode", "ops", "lists", "inits", "calls", "alts") if k in case}
            kinds = [c[0] for c in case["calls"]]
            res.case(inp, nontrivial=len(case["calls"]) >= 2,
                     tags=["stream=sim-history", "calls=%d" % len(kinds)] + sorted({"call=" + k for k in kinds}) +
                          sorted({"query=" + c[1] + ":" + (ch["result"][0] if ch.get("result") else "?")
                                  for c, ch in zip(case["calls"], impl[1] if impl[0] == "ok" else []) if c[0] == "query"}))
            try:
                diff = S.compare(case, S.parse_answer(o), impl)
            except Exception as e:
                diff = "model answer not understood: " + repr(e)
            if problems and not diff:
                diff = "model: no attribute written; implementation: " + problems[0]
            if diff:
                res.disagree(inp, o[:400], "see `what`", diff, dict(case, calls=[list(c) for c in case["calls"]]))

        # 1b. the object-protocol facts the models rely on (pins/protocol.json): an added __len__ / __bool__ / __eq__ /
        #     __hash__ changes what `if qc:` / `gate in …` do without changing any pinned function
        from props import _c16_protocol as PR
        pdiff = PR.differences()
        res.notes.append("object protocol (dunder methods of QubitCircuit, Gate, Measurement, Instruction, Pulse, …; truthiness "
                         "of an empty circuit): " + ("unchanged" if not pdiff else "; ".join(pdiff)))
        if pdiff:
            res.disagree({"object-protocol": pdiff}, "pins/protocol.json (recorded on the clean tree)", "; ".join(pdiff),
                         "object-protocol: the classes the models treat as plain objects (always truthy, identity equality, no "
                         "length) changed their special methods: " + "; ".join(pdiff), W_RUN_EMPTY)

        # 2. processor histories: every prefix of the history is a model request
        ndev = 600 if ctx.thorough else 24
        for it in range(ndev):
            dev = rand_device(rng)
            try:
                phases = device_phases(dev)
            except Exception as e:
                res.case({"device": dev}, nontrivial=False, tags=["stream=device", "unloadable=" + type(e).__name__])
                continue
            empties = device_empties(dev)
            poe = phase_on_empty(paths.REPO, dev["kind"])
            if not poe and not getattr(self, "_poe_reported", False):
                self._poe_reported = True
                res.disagree({"device": dev["kind"]}, "hypothesis of C16.fresh_equivalent_load_pulsefree: global_phase is "
                             "overwritten on the early-return path of load_circuit", "phaseOnEmpty = false",
                             "load_circuit keeps the previous circuit's global_phase when the new circuit needs no pulse: "
                             "the hypothesis of fresh_equivalent_load_pulsefree is not met", W_PHASE_FREE)
            recs = run_device(dev)
            lines = [encode_device(dev, cfg, k + 1, phases, empties, poe) for k in range(len(dev["calls"]))]
            outs = drv.run(lines)
            cache = {}
            inp = {"device": dev["kind"], "n": dev["n"], "circuits": dev["circuits"], "calls": dev["calls"]}
            res.case(inp, nontrivial=len(dev["calls"]) >= 2,
                     tags=["stream=device", "device=" + dev["kind"],
                           "pulse-free-loads=%d" % sum(1 for c in dev["calls"] if c[0] == "load" and empties[c[1]])]
                          + sorted({"call=" + c[0] for c in dev["calls"]}))
            w = {"kind": "device", "kind_dev": dev["kind"], "n": dev["n"], "circuits": dev["circuits"],
                 "calls": [list(c) for c in dev["calls"]]}
            for k, (rec, o) in enumerate(zip(recs, outs)):
                c = dev["calls"][k]
                diff = None
                ans = S.parse_answer(o)
                if ans[0] != "ok":
                    diff = "model refused"
                elif "exc" in rec and rec["exc"].split(":")[0] in NOT_EVALUABLE:
                    # runtime numerics (solver step limit, singular system …), not a purity question: the rest of
                    # the history is not compared
                    res.hist["device-not-evaluable=" + rec["exc"].split(":")[0]] = \
                        res.hist.get("device-not-evaluable=" + rec["exc"].split(":")[0], 0) + 1
                    break
                elif "exc" in rec:
                    diff = f"call {k} raised {rec['exc']}"
                else:
                    _, chunks, world = ans
                    if not all(rec["circuits_unchanged"]):
                        diff = f"call {k}: a circuit passed in changed (model: circuits are never written)"
                    mphase = world["proc"]["phase"] * PHASE_UNIT
                    if not diff and abs(mphase - rec["proc"]["phase"]) > 1e-9:
                        diff = f"call {k} {c}: processor.global_phase model={mphase!r} impl={rec['proc']['phase']!r}"
                    mcp = world["comp"]["phase"] * PHASE_UNIT
                    if not diff and abs(mcp - rec["comp"]["phase"]) > 1e-9:
                        diff = f"call {k} {c}: compiler.global_phase model={mcp!r} impl={rec['comp']['phase']!r}"
                    margs = sorted(t for t in (tuple(int(x) for x in p.split(":"))
                                               for p in world["comp"]["args"].split(",") if p) if t != (0, 0))
                    if not diff and margs != rec["comp"]["args"]:
                        diff = f"call {k} {c}: compiler.args model={margs} impl={rec['comp']['args']}"
                    if not diff and world["proc"]["pulses"] is not None:
                        ci, tokens = parse_tok(world["proc"]["pulses"])
                        fr = fresh_program(dev, ci, tokens, cache)
                        if not close(rec["proc"]["pulses"], fr["pulses"]):
                            diff = f"call {k} {c}: pulses held differ from the program (circuit {ci}, args {tokens})"
                    if not diff and world["proc"]["pulses"] is None and len(snap_len(rec["proc"]["pulses"])) != 0:
                        diff = f"call {k}: processor holds pulses although nothing was loaded"
                    if not diff and c[0] == "load":
                        ci, tokens = parse_tok(chunks[-1]["tok"])
                        frp = fresh_program(dev, ci, tokens, cache)
                        via = c[3] if len(c) > 3 else None
                        if via and not close(rec.get("entry"), fresh_entry(dev, ci, via, cache), 1e-9):
                            diff = (f"call {k} {c}: processor.{via}(circuit {ci}) returns other propagators than a fresh "
                                    f"processor (model: the entry point loads the circuit, whatever the circuit is)")
                        elif not res_close(rec["result"], frp["result"]):
                            diff = f"call {k} {c}: returned program differs from (circuit {ci}, args {tokens})"
                        elif not close(rec["U"], frp["U"], 1e-9):
                            diff = (f"call {k} {c}: analytical propagator of what the processor holds differs from a fresh "
                                    f"processor's for (circuit {ci}, args {tokens})")
                if diff:
                    res.disagree(dict(inp, prefix=k + 1), o[:300], "see `what`", diff, w)
                    break
        # 3. query-only histories on the full gate library (control-less multi-target gates in both target orders,
        #    user gates, parametric gates, measurements, classical controls): the model answers `Q` (world unchanged)
        #    to every query, so any change of the circuit or of one of its gate objects is a disagreement
        nq = 400 if ctx.thorough else 40
        qnames = sorted(QUERIES)
        for it in range(nq):
            w = rand_lib_circuit(rng)
            if it % 2:
                w = sibling_circuit(rng, w)
            mcase = {"n": 1, "ncb": 0, "mode": "sv", "ops": [], "lists": [], "inits": [],
                     "calls": [("query",)] * len(qnames)}
            ans = S.parse_answer(drv.run([S.encode(mcase, cfg)])[0])
            model_pure = ans[0] == "ok" and all(ch["kind"] == "Q" for ch in ans[1])
            f, d = oracle_qpure(w, qnames)
            free = [g for g in w["gates"] if "M" not in g and not g.get("controls") and g["targets"] and len(g["targets"]) > 1]
            res.case({k: w[k] for k in ("n", "ncb", "gates", "after") if k in w}, nontrivial=True,
                     tags=["stream=query-library", "after-sibling=%d" % (1 if w.get("after") else 0),
                           "free-multi-target=%d" % len(free),
                           "descending-targets=%d" % sum(1 for g in free if g["targets"] != sorted(g["targets"]))])
            if f or not model_pure:
                res.disagree({k: w[k] for k in ("n", "ncb", "gates")}, "Q (no attribute written)", d,
                             "model: queries write nothing; implementation: " + d, w)
        res.notes.append(f"{nq} full-library circuits x {len(qnames)} queries: circuit and every gate object snapshotted "
                         "before/after each query (model: world unchanged)")
        # 4. results of transformations: sharing signature against the object model (Model/SimObj.lean)
        nsh = 600 if ctx.thorough else 60
        shared_seen = {}
        for it in range(nsh):
            w = rand_lib_circuit(rng)
            try:
                qc = build_lib_circuit(w)
            except Exception:
                continue
            k = len(w["gates"])
            ctrl = ",".join("1" if ("M" not in g and g.get("controls")) else "0" for g in w["gates"])
            for name, fn in sorted(TRANSFORMS.items()):
                try:
                    r = fn(qc)
                except Exception:
                    continue
                sig = sharing_signature(qc, r)
                if name == "reverse_circuit":
                    meas = ",".join(str(i) for i, g in enumerate(w["gates"]) if "M" in g)
                    line = f"share cfg={S.cfg_str(cfg)} kind=rev ctrl={ctrl} plan=N" + (f" meas={meas}" if meas else "")
                    exp_len = k
                elif name.startswith("to_chain_structure"):
                    plan = chain_plan(w, "linear" if name.endswith("linear") else "circular")
                    line = f"share cfg={S.cfg_str(cfg)} kind=chain ctrl={ctrl} plan={','.join(plan) if plan else 'N'}"
                    exp_len = None
                else:
                    line = f"share cfg={S.cfg_str(cfg)} kind=copy ctrl={ctrl} plan=N"
                    exp_len = None
                o = drv.run([line])[0]
                msig = o[3:].split(",") if o.startswith("ok") and len(o) > 3 else []
                inp = {"transform": name, "n": w["n"], "gates": w["gates"]}
                res.case(inp, nontrivial=True, tags=["stream=sharing", "transform=" + name])
                for x in sig:
                    if x != "n":
                        shared_seen[name] = shared_seen.get(name, 0) + 1
                # the model lists what is shared (fresh gates are not enumerated by the plan): compare the shared part
                m_shared = sorted(x for x in msig if x != "n")
                i_shared = sorted(x for x in sig if x != "n")
                bad = m_shared != i_shared or (exp_len is not None and len(sig) != exp_len) or \
                    (name == "reverse_circuit" and msig != sig)
                if bad:
                    res.disagree(inp, msig, sig, f"{name}: what the result shares with its argument "
                                 f"(model {m_shared}, implementation {i_shared})",
                                 dict(w, kind="share", transforms=[name]))
        res.notes.append(f"{nsh} full-library circuits x 6 transformations: per gate of the result, identity of the gate "
                         "object and of its targets/controls lists against the argument's, compared with the object "
                         "model; shared items seen: " + json.dumps(shared_seen, sort_keys=True))

        # 5. noise objects: direct uses of one RelaxationNoise on systems of several sizes; DecoherenceNoise.coeff
        nno = 1500 if ctx.thorough else 150
        lines, wits = [], []
        for it in range(nno):
            w = rand_relax(rng)
            wits.append(w)
            lines.append(f"noise cfg={S.cfg_str(cfg)} t1={enc_tval(w['t1'])} t2={enc_tval(w['t2'])} "
                         f"uses={','.join(map(str, w['uses']))}")
        outs = drv.run(lines)
        for w, o in zip(wits, outs):
            rec = run_relax(w["t1"], w["t2"], w["uses"])
            impl = " ; ".join(f"{v if v != 'ok' else 'ok'} @{enc_tval(a1)};{enc_tval(a2)}" for v, a1, a2 in rec)
            model = " ; ".join((("ok" if ch.startswith("ok") else ch.split(" @")[0]) + " @" + ch.split(" @")[1])
                               for ch in o.split(" ; "))
            res.case({k: w[k] for k in ("t1", "t2", "uses")}, nontrivial=len(w["uses"]) > 1,
                     tags=["stream=noise", "uses=%d" % len(w["uses"])])
            if impl != model:
                res.disagree({k: w[k] for k in ("t1", "t2", "uses")}, model, impl,
                             "RelaxationNoise: verdict and attributes t1/t2 after each use", w)
        import qutip
        from qutip_qip.noise import DecoherenceNoise
        for coeff, tln in ((None, 1), (None, 0), (2, 1), (2, 0)):
            d = DecoherenceNoise(qutip.sigmaz(), targets=0, coeff=(None if coeff is None else np.array([coeff] * 3, dtype=float)),
                                 tlist=(None if tln else np.array([0.0, 1.0, 2.0])))
            seen = []
            for _ in range(2):
                try:
                    d.get_noisy_pulses(dims=[2, 2], pulses=[])
                except Exception as e:
                    seen.append("exc:" + type(e).__name__)
                    continue
                seen.append("N" if d.coeff is None else ("1" if d.coeff is True else "arr"))
            o = drv.run([f"deco cfg={S.cfg_str(cfg)} coeff={'N' if coeff is None else coeff} tln={tln} uses=2"])[0]
            model = [("arr" if x.split(" @")[1] not in ("N", "1") else x.split(" @")[1]) for x in o.split(" ; ")]
            res.case({"deco": [coeff, tln]}, nontrivial=True, tags=["stream=noise-deco"])
            if not any(x.startswith("exc") for x in seen) and seen != model:
                res.disagree({"deco": [coeff, tln]}, model, seen, "DecoherenceNoise.coeff after each use", None)

        # 6. pulses held by a processor under noisy evaluation (Model/SimPulse.lean): one processor with noise objects
        #    of every shipped class, histories of get_noisy_pulses / get_qobjevo(noisy) / run_state
        self.pcfg = pcfg = PN.probe_pcfg(paths.REPO)
        res.notes.append("copies of the pulses made by Processor.get_noisy_pulses / process_noise, read from the source and "
                         "confirmed by behaviour: " + json.dumps(pcfg))
        if not (pcfg["procCopy"] or pcfg["noiseCopy"] == "deep"):
            res.disagree({"pcfg": pcfg}, "hypothesis of C16.noisy_pulses_unchanged: procCopy = true or noiseCopy = deep",
                         json.dumps(pcfg), "the code makes no deep copy between Processor.pulses and the noise objects: "
                         "the hypothesis of the theorems on noisy evaluation is not met", PN.W_AMP)
        self.lcfg = lcfg = PN.probe_lcfg(paths.REPO)
        res.notes.append("copies of the LIST of noise objects (process_noise / Model.get_noise), read from the source and "
                         "confirmed by behaviour: " + json.dumps(lcfg))
        if not lcfg["noiseListCopy"]:
            res.disagree({"lcfg": lcfg}, "hypothesis of C16.noise_list_unchanged: a copy of the list of noise objects is made "
                         "before RelaxationNoise(t1, t2) is appended", json.dumps(lcfg),
                         "process_noise appends to the list it is given (a caller's list, or the list a user-defined model "
                         "hands out): the hypothesis of noise_list_unchanged is not met", PN.W_LIST_DIRECT)
        npn = 2500 if ctx.thorough else 140
        wits, impls, lines = [], [], []
        for it in range(npn):
            w = PN.gen_pnoise(rng) if it >= len(PN.FIXED) else PN.FIXED[it]
            with contextlib.redirect_stdout(io.StringIO()):
                try:
                    out, ideals, nd = PN.run_impl(w)
                except Exception as e:
                    res.case(w, nontrivial=False, tags=["stream=pulse-noise", "not-constructible=" + type(e).__name__])
                    continue
            line = PN.encode(w, pcfg, ideals, nd, lcfg=lcfg)
            wits.append(w)
            impls.append(out)
            lines.append(line)
        outs = iter(drv.run([l for l in lines if l]))
        for w, out, line in zip(wits, impls, lines):
            classes = sorted({"noise=" + s_["c"] for s_ in w["noise"]} | ({"noise=zz"} if w.get("zz_builtin") else set())
                             | ({"noise=t1t2"} if (w.get("t1") is not None or w.get("t2") is not None) else set()))
            tags = ["stream=pulse-noise", "processor=" + w["proc"], "evaluations=%d" % len(w["calls"]),
                    "owner=" + (w.get("via") or w.get("model") or "builtin")] + classes + \
                sorted({"call=" + c[0] for c in w["calls"]})
            if line is None:
                res.case(w, nontrivial=False, tags=tags + ["outside-model=invalid-t1-t2"])
                continue
            o = next(outs)
            res.case(w, nontrivial=len(w["calls"]) >= 2, tags=tags)
            chunks = o.split(" ; ")
            if len(chunks) != len(w["calls"]):
                res.disagree(w, o[:300], "-", "model answer not understood", w)
                continue
            for k, (c, (verdict, ret, held, nlen), ch) in enumerate(zip(w["calls"], out, chunks)):
                head, _, heldm = ch.partition(" @")
                heldm, _, nlm = heldm.partition(" #")
                if verdict.startswith("err other:") and verdict.split(":")[1] in NOT_EVALUABLE:
                    res.hist["pulse-noise-not-evaluable=" + verdict.split(":")[1]] = \
                        res.hist.get("pulse-noise-not-evaluable=" + verdict.split(":")[1], 0) + 1
                    break
                hi = "|".join(PN.show_pv(t) for t in held) if held else "e"
                diff = None
                if hi != heldm:
                    diff = f"call {k} {c}: pulses held by the processor afterwards: model {heldm}, implementation {hi}"
                elif nlen is not None and not verdict.startswith("err") and str(nlen) != nlm:
                    diff = (f"call {k} {c}: entries of the owner's list of noise objects afterwards: model {nlm}, "
                            f"implementation {nlen}")
                elif verdict.startswith("err other"):
                    diff = f"call {k} {c}: implementation raised {verdict[10:]}, model {head}"
                elif verdict == "err index" and head != "err index":
                    diff = f"call {k} {c}: implementation IndexError, model {head}"
                elif verdict == "ok" and not head.startswith("ok"):
                    diff = f"call {k} {c}: implementation ok, model {head}"
                elif verdict == "ok" and ret is not None:
                    ri = "|".join(PN.show_pv(t) for t in ret) if ret else "e"
                    if head != "ok " + ri:
                        diff = f"call {k} {c}: pulses returned: model {head[3:]}, implementation {ri}"
                if diff:
                    res.disagree(w, ch[:300], "see `what`", diff, w)
                    break
        res.notes.append(f"{npn} processors with noise objects (ControlAmpNoise scalar/array, RandomNoise with a scripted "
                         "generator, RelaxationNoise, DecoherenceNoise, ZZCrossTalk, processor t1/t2, user Noise subclasses "
                         "returning tuple / list / None) x 2-5 noisy evaluations: pulses returned and pulses held after "
                         "every call as (ideal, coherent-noise tokens, Lindblad-noise tokens) against Model/SimPulse.lean")

        pend = sorted(pending())
        if pend:
            checks = []
            for tag, ws in (("C16-6", (AR.W_COPS, AR.W_OPTS)), ("C16-7", (W_SHARE_STATES,)), ("C16-8", (AR.W_LABELS,)),
                            ("C16-9", (W_RUNAN_QC,))):
                if tag in pend:
                    for w_ in ws:
                        try:
                            f_, d_ = oracle(w_)
                        except Exception as e:
                            f_, d_ = None, repr(e)
                        checks.append(f"{tag}: {'reproduces' if f_ else 'does not reproduce'}: {d_}")
            res.notes.append("repairs proposed by this check and not in the tree under test (their random streams start "
                             "with the repair; see fixes/C16-findings.json): " + " | ".join(checks))
            ctx.log("note: pending repairs " + ", ".join(pend) + " — " + " | ".join(checks)[:600])
        # 7. stored pulses under get_qobjevo padding: the C14 model's padCoeff / stepAt on the real arrays
        res.notes.append("pulse padding: see pulses_snap (pulses compared as functions of time; theorem "
                         "C16.pulse_padding_same_function on the C14 model)")
        res.notes.append("observation (not a violation: the aliasing clause is about results of run/run_statistics): "
                         "transformations whose returned circuit shares Gate objects with its argument, with counts: "
                         + json.dumps(SHARING, sort_keys=True))
        res.notes.append("simulator histories: after every call the caller's lists, the returned records (values and "
                         "list identities), the executed operations and finally every simulator attribute are compared "
                         "with the model; circuit and state arguments are snapshotted (vars()-level, arrays by value) "
                         "before/after every call; queries must leave simulator attributes and lists unchanged")

    # ---------------------------------------------------------------------------------
    def oracle_replay(self, ctx, w):
        return oracle(w)

    def _sweep(self, ctx, budget_s, count):
        rng = ctx.rng
        t0 = time.time()
        fixed = (W_ALIAS, W_PHASE, W_PHASE_FREE, W_RUN_EMPTY, W_PHASE_FREE_CQED, W_GETTER, W_DRAW, W_QASM, W_SHAPE, W_SHARE_REV, W_SHARE_CHAIN, W_NOISE, W_SIMEDIT, W_SIMEDIT_MEAS, W_TRAJ) + \
            tuple(PN.FIXED)
        pend = pending()
        if "C16-6" not in pend:
            fixed += (AR.W_COPS, AR.W_OPTS)
        if "C16-7" not in pend:
            fixed += (W_SHARE_STATES,)
        if "C16-8" not in pend:
            fixed += (AR.W_LABELS,)
        if "C16-9" not in pend:
            fixed += (W_RUNAN_QC,)
        for w in fixed:
            f, d = oracle(w)
            if f:
                yield w, d
        i = 0
        while time.time() - t0 < budget_s and (count is None or i < count):
            i += 1
            r = rng.random()
            if r < 0.25:
                w = rand_lib_circuit(rng)
                if rng.random() < 0.5:
                    w = sibling_circuit(rng, w)
                try:
                    f, d = oracle(w)
                except TreeChanged:
                    raise
                except Exception as e:
                    f, d = False, "not applicable: " + repr(e)[:100]
                if f:
                    # name the single query that fails
                    for q in sorted(QUERIES):
                        f1, d1 = oracle_qpure(w, [q])
                        if f1:
                            w, d = dict(w, queries=[q]), d1
                            break
                    yield w, d
                continue
            if r < 0.33:
                w = rand_shape_witness(rng)
                f, d = oracle(w)
                if f:
                    yield w, d
                continue
            if r < 0.45:
                w = dict(rand_lib_circuit(rng), kind="share")
                f, d = oracle(w)
                if f:
                    for t in sorted(TRANSFORMS):
                        f1, d1 = oracle(dict(w, transforms=[t]))
                        if f1:
                            w, d = dict(w, transforms=[t]), d1
                            break
                    yield w, d
                continue
            if r < 0.5:
                w = rand_relax(rng)
                f, d = oracle(w)
                if f:
                    yield w, d
                continue
            if 0.78 <= r < 0.86:
                w = rand_trajectory(rng)
                try:
                    f, d = oracle(w)
                except TreeChanged:
                    raise
                except Exception as e:
                    f, d = False, "not applicable: " + repr(e)[:100]
                if f:
                    yield w, d
                continue
            if 0.70 <= r < 0.78:
                w = rand_simedit(rng)
                try:
                    f, d = oracle(w)
                except TreeChanged:
                    raise
                except Exception as e:
                    f, d = False, "not applicable: " + repr(e)[:100]
                if f:
                    yield w, d
                continue
            if 0.64 <= r < 0.70:
                if r < 0.67:
                    w = None if "C16-6" in pend else AR.rand_runargs(rng)
                else:
                    w = None if "C16-8" in pend else AR.rand_plotlabels(rng)
                if w is not None:
                    try:
                        f, d = oracle(w)
                    except TreeChanged:
                        raise
                    except Exception as e:
                        f, d = False, "not applicable: " + repr(e)[:100]
                    if f:
                        yield w, d
                continue
            if r < 0.64:
                w = PN.gen_pnoise(rng)
                try:
                    with contextlib.redirect_stdout(io.StringIO()):
                        f, d = oracle(w)
                except TreeChanged:
                    raise
                except Exception as e:
                    f, d = False, "not applicable: " + repr(e)[:100]
                if f:
                    yield w, d
                continue
            r = rng.random()
            if r < 0.6:
                w = rand_sim_history(rng)
                w["calls"] = [list(c) for c in w["calls"]]
            elif r < 0.8:
                w = rand_sim_history(rng, with_queries=False, with_edits=False)
                w = {"kind": "getter", "n": w["n"], "ncb": w["ncb"], "mode": "sv", "ops": w["ops"], "lists": [],
                     "inits": w["inits"][:1], "calls": [], "mr": [rng.randint(0, 1) for _ in range(S.num_meas(w))]}
            else:
                dev = rand_device(rng, max_calls=5)
                w = {"kind": "device", "kind_dev": dev["kind"], "n": dev["n"], "circuits": dev["circuits"],
                     "calls": [list(c) for c in dev["calls"]]}
            try:
                f, d = oracle(w)
            except TreeChanged:
                raise
            except Exception as e:
                f, d = False, "not applicable: " + repr(e)[:100]
            if f:
                yield w, d

    def oracle_search(self, ctx, budget_s):
        return self._sweep(ctx, budget_s, None)

    def oracle_always(self, ctx):
        return self._sweep(ctx, 300 if ctx.thorough else 25, 5000 if ctx.thorough else 150)


def snap_len(s):
    """elements of a snapshotted list"""
    return s[1:] if isinstance(s, tuple) else ()


CHECK = C16()
