"""C12 — compiled control pulses are exactly the scheduled instruction waveforms.

* `read_source` / `render_gen`: the description of GateCompiler._process_gate_pulse / _process_idling_tlist /
  _concatenate_pulses / compile read from the working tree with `ast` and written to lean/QipVerif/Gen/ConcatSrc.lean
  (tolerance constants, comparison operators, operands of the idle test, np.linspace / np.arange end points and counts,
  slices and indices, reference of time_tol, step size used by the padding).  The driver runs the model on that description.
* correspondence of that model with the real functions, exact on the *dyadic stream*: every time is a multiple of 2^-30
  below 2^23, so every float addition / subtraction / multiplication by 3 of the code is exact and the model's rationals
  must be reproduced bit for bit.  Inexact operations: the tolerance products (`min_step_size * 1e-6`, `1e-12 * T`),
  `step_size / 5` and `np.linspace`: cases in which a tolerance comparison changes when the constants are scaled by
  1 +- 2^-20 are skipped (counted, tag `tight-skipped`); idle points of continuous pulses are compared to 2^-46 relative.
* the property itself evaluated on the real code (oracle), written independently of the model and of the description,
  on dyadic schedules, on schedules with non-dyadic durations (the Scheduler's sums round) and on the shipped compilers.
"""
import ast, os, time, itertools
from fractions import Fraction as F
import numpy as np

from vlib.core import PropertyCheck, TranslatorError
from vlib import paths

RES = F(1, 10**12)          # resolution class: time differences below 1e-12 of the total time are not resolved
PROBE = (F(1), 1 + F(1, 2**20), 1 - F(1, 2**20))   # scale factors of the tolerance constants (tightness probe)
Q = 30                      # quantum 2^-Q of the dyadic stream


# ----------------------------------------------------------------------------------------------
# helpers: rationals on the protocol
def fs(x):
    x = F(x)
    return str(x.numerator) if x.denominator == 1 else f"{x.numerator}/{x.denominator}"


def fl(xs):
    return ",".join(fs(x) for x in xs)


def pf(s):
    return F(s)


def pfl(s):
    return [F(x) for x in s.split(",") if x != ""]


def is_dyadic(x):
    d = F(x).denominator
    return d & (d - 1) == 0


def close(xf, r, exact=True):
    """float of the implementation against the model's rational"""
    try:
        xr = F(float(xf))
    except (ValueError, OverflowError):
        return False
    if xr == r:
        return True
    if exact and is_dyadic(r):
        return False
    return abs(xr - r) <= abs(r) * F(1, 2**46)


def close_num(xf, r, scale):
    return abs(float(xf) - float(r)) <= 1e-9 * max(1.0, abs(float(r)), scale)


# ----------------------------------------------------------------------------------------------
# The source, read with ast (formatting independent).  Every statement of _process_gate_pulse, _process_idling_tlist and
# _concatenate_pulses is consumed: either it fills a field of the description (constants, comparison operators, operands,
# end points, slices, ...) or it must be exactly the expected statement; anything else raises TranslatorError.
SRC_FILE = ("src", "qutip_qip", "compiler", "gatecompiler.py")
_CMP = {ast.Gt: "gt", ast.GtE: "ge", ast.Lt: "lt", ast.LtE: "le", ast.Eq: "eq", ast.NotEq: "ne"}
_VARS = {"start_time": 0, "last_pulse_time": 1, "step_size": 2}


def U(node):
    return ast.unparse(node)


def _fail(msg):
    raise TranslatorError(msg)


def _num(node):
    """a numeric literal (int / float, optional sign) as the exact decimal it is written as"""
    if isinstance(node, ast.UnaryOp) and isinstance(node.op, ast.USub):
        return -_num(node.operand)
    if isinstance(node, ast.UnaryOp) and isinstance(node.op, ast.UAdd):
        return _num(node.operand)
    if isinstance(node, ast.Constant) and isinstance(node.value, (int, float)) and not isinstance(node.value, bool):
        return F(repr(node.value))
    _fail("numeric literal expected: " + U(node))


def _is_num(node):
    try:
        _num(node)
        return True
    except TranslatorError:
        return False


def _lin(node):
    """arithmetic over start_time / last_pulse_time / step_size -> coefficients (start, last, step, const)"""
    if isinstance(node, ast.Name) and node.id in _VARS:
        v = [F(0)] * 4
        v[_VARS[node.id]] = F(1)
        return tuple(v)
    if _is_num(node):
        return (F(0), F(0), F(0), _num(node))
    if isinstance(node, ast.UnaryOp) and isinstance(node.op, ast.USub):
        return tuple(-x for x in _lin(node.operand))
    if isinstance(node, ast.BinOp):
        if isinstance(node.op, (ast.Add, ast.Sub)):
            l, r = _lin(node.left), _lin(node.right)
            sg = 1 if isinstance(node.op, ast.Add) else -1
            return tuple(x + sg * y for x, y in zip(l, r))
        if isinstance(node.op, ast.Mult):
            if _is_num(node.left):
                k, v = _num(node.left), _lin(node.right)
            elif _is_num(node.right):
                k, v = _num(node.right), _lin(node.left)
            else:
                _fail("product of two non-constants: " + U(node))
            return tuple(k * x for x in v)
        if isinstance(node.op, ast.Div) and _is_num(node.right) and _num(node.right) != 0:
            k = _num(node.right)
            return tuple(x / k for x in _lin(node.left))
    _fail("expression over start_time/last_pulse_time/step_size not recognised: " + U(node))


def _cmp(node, what):
    if not (isinstance(node, ast.Compare) and len(node.ops) == 1 and type(node.ops[0]) in _CMP):
        _fail(f"{what}: a single comparison expected: " + U(node))
    return node.left, _CMP[type(node.ops[0])], node.comparators[0]


def _times_const(node, names, what):
    """`<name> * C` or `C * <name>` -> (name, C)"""
    if isinstance(node, ast.BinOp) and isinstance(node.op, ast.Mult):
        for a_, b_ in ((node.left, node.right), (node.right, node.left)):
            if isinstance(a_, ast.Name) and a_.id in names and _is_num(b_):
                return a_.id, _num(b_)
    _fail(f"{what}: `<{'|'.join(names)}> * constant` expected: " + U(node))


def _func(tree, name):
    fn = None
    for node in ast.walk(tree):
        if isinstance(node, ast.FunctionDef) and node.name == name:
            fn = node
    if fn is None:
        _fail(f"GateCompiler.{name} not found")
    body = list(fn.body)
    if body and isinstance(body[0], ast.Expr) and isinstance(body[0].value, ast.Constant) and isinstance(body[0].value.value, str):
        body = body[1:]
    return fn, body


def _expect(node, texts, what):
    if isinstance(texts, str):
        texts = (texts,)
    if U(node) not in texts:
        _fail(f"{what}: expected `{texts[0]}`, found `{U(node)}`")


def _mode(node, what):
    if isinstance(node, ast.Constant) and node.value in ("discrete", "continuous"):
        return node.value
    _fail(f"{what}: 'discrete' or 'continuous' expected: " + U(node))


def _slice(node, base, what):
    """np.asarray(<base>) or np.asarray(<base>)[a:] / [:-b] / [a:-b] -> (front, back)"""
    if U(node) == f"np.asarray({base})":
        return (0, 0)
    if isinstance(node, ast.Subscript) and U(node.value) == f"np.asarray({base})" and isinstance(node.slice, ast.Slice) \
            and node.slice.step is None:
        lo, up = node.slice.lower, node.slice.upper
        front = 0 if lo is None else _num(lo)
        back = 0 if up is None else -_num(up)
        if front.denominator == 1 and back.denominator == 1 and front >= 0 and back >= 0 and not (up is not None and back == 0):
            return (int(front), int(back))
    _fail(f"{what}: np.asarray({base}) with a slice [a:] / [:-b] expected: " + U(node))


def _len_side(node, what):
    """len(tlist) / len(coeff), optionally +- an integer -> (name, k)"""
    k = F(0)
    if isinstance(node, ast.BinOp) and isinstance(node.op, (ast.Add, ast.Sub)) and _is_num(node.right):
        k = _num(node.right) * (1 if isinstance(node.op, ast.Add) else -1)
        node = node.left
    if isinstance(node, ast.Call) and U(node.func) == "len" and len(node.args) == 1 and U(node.args[0]) in ("tlist", "coeff") \
            and k.denominator == 1:
        return U(node.args[0]), int(k)
    _fail(f"{what}: len(tlist) / len(coeff) (+- integer) expected: " + U(node))


def read_proc(tree):
    fn, body = _func(tree, "_process_gate_pulse")
    if len(body) != 2 or not isinstance(body[0], ast.If):
        _fail("_process_gate_pulse: one if/elif chain and a return expected")
    _expect(body[1], "return (gate_tlist, coeff, step_size, pulse_mode)", "_process_gate_pulse")
    node = body[0]
    _expect(node.test, "np.isscalar(tlist)", "_process_gate_pulse, first branch")
    st = {U(x.targets[0]): x.value for x in node.body if isinstance(x, ast.Assign) and len(x.targets) == 1}
    if len(st) != len(node.body) or set(st) != {"pulse_mode", "step_size", "coeff", "gate_tlist"}:
        _fail("_process_gate_pulse, scalar branch: assignments to pulse_mode, step_size, coeff, gate_tlist expected")
    _expect(st["step_size"], "tlist", "scalar branch, step_size")
    _expect(st["coeff"], "np.array([coeff])", "scalar branch, coeff")
    _expect(st["gate_tlist"], "np.array([tlist])", "scalar branch, gate_tlist")
    out = {"scalarMode": _mode(st["pulse_mode"], "scalar branch"), "branches": []}
    while True:
        if len(node.orelse) != 1:
            _fail("_process_gate_pulse: elif/else chain not recognised")
        nxt = node.orelse[0]
        if isinstance(nxt, ast.Raise):
            if not U(nxt).startswith("raise ValueError("):
                _fail("_process_gate_pulse: final else must raise ValueError")
            break
        if not isinstance(nxt, ast.If):
            _fail("_process_gate_pulse: elif expected, found " + U(nxt)[:60])
        node = nxt
        l, op, r = _cmp(node.test, "_process_gate_pulse branch test")
        if op != "eq":
            _fail("_process_gate_pulse branch test: == expected: " + U(node.test))
        (na, ka), (nb, kb) = _len_side(l, "branch test"), _len_side(r, "branch test")
        if {na, nb} != {"tlist", "coeff"}:
            _fail("_process_gate_pulse branch test must compare len(tlist) with len(coeff): " + U(node.test))
        off = ka - kb if na == "tlist" else kb - ka          # len(tlist) + off == len(coeff)
        st = {U(x.targets[0]): x.value for x in node.body if isinstance(x, ast.Assign) and len(x.targets) == 1}
        if len(st) != len(node.body) or set(st) != {"pulse_mode", "step_size", "coeff", "gate_tlist"}:
            _fail("_process_gate_pulse, array branch: assignments to pulse_mode, step_size, coeff, gate_tlist expected")
        ss = st["step_size"]
        ok = isinstance(ss, ast.BinOp) and isinstance(ss.op, ast.Sub) and all(
            isinstance(x, ast.Subscript) and U(x.value) == "tlist" and isinstance(x.slice, ast.Constant)
            and isinstance(x.slice.value, int) and x.slice.value >= 0 for x in (ss.left, ss.right))
        if not ok:
            _fail("array branch, step_size: tlist[i] - tlist[j] expected: " + U(ss))
        out["branches"].append({"off": off, "hi": ss.left.slice.value, "lo": ss.right.slice.value,
                                "tSlice": _slice(st["gate_tlist"], "tlist", "gate_tlist"),
                                "cSlice": _slice(st["coeff"], "coeff", "coeff"),
                                "mode": _mode(st["pulse_mode"], "array branch")})
    return out


def _pieces(stmts, what):
    """statements filling `idling_tlist` -> list of pieces"""
    env, out = {}, []

    def arr(node):
        if isinstance(node, ast.Name) and node.id in env:
            return env[node.id]
        if isinstance(node, ast.Call) and U(node.func) == "np.linspace" and len(node.args) == 3 and not node.keywords:
            n = _num(node.args[2])
            if n.denominator != 1 or n < 0:
                _fail(f"{what}: np.linspace count must be a non-negative integer: " + U(node))
            return ("linspace", _lin(node.args[0]), _lin(node.args[1]), int(n))
        if isinstance(node, ast.Call) and U(node.func) == "np.arange" and len(node.args) == 3 and not node.keywords:
            return ("arange", _lin(node.args[0]), _lin(node.args[1]), _lin(node.args[2]))
        if isinstance(node, ast.List):
            return ("pts", [_lin(e) for e in node.elts])
        _fail(f"{what}: np.linspace(a, b, n) / np.arange(a, stop, step) / [..] expected: " + U(node))

    for x in stmts:
        if isinstance(x, ast.Assign) and len(x.targets) == 1 and isinstance(x.targets[0], ast.Name):
            env[x.targets[0].id] = arr(x.value)
        elif isinstance(x, ast.Expr) and isinstance(x.value, ast.Call) and U(x.value.func) == "idling_tlist.extend" \
                and len(x.value.args) == 1 and isinstance(x.value.args[0], ast.List):
            out += [arr(e) for e in x.value.args[0].elts]
        elif isinstance(x, ast.Expr) and isinstance(x.value, ast.Call) and U(x.value.func) == "idling_tlist.append" \
                and len(x.value.args) == 1:
            out.append(arr(x.value.args[0]))
        else:
            _fail(f"{what}: statement not recognised: " + U(x)[:80])
    return out


def read_idle(tree):
    fn, body = _func(tree, "_process_idling_tlist")
    if [a.arg for a in fn.args.args] != ["self", "pulse_mode", "start_time", "last_pulse_time", "step_size"]:
        _fail("_process_idling_tlist: parameters changed")
    if len(body) != 3 or not isinstance(body[1], ast.If):
        _fail("_process_idling_tlist: `idling_tlist = []`, one if/elif, return expected")
    _expect(body[0], "idling_tlist = []", "_process_idling_tlist")
    _expect(body[2], "return np.concatenate(idling_tlist)", "_process_idling_tlist")
    top = body[1]
    _expect(top.test, "pulse_mode == 'continuous'", "_process_idling_tlist")
    if len(top.body) != 1 or not isinstance(top.body[0], ast.If) or len(top.orelse) != 1 or not isinstance(top.orelse[0], ast.If):
        _fail("_process_idling_tlist: continuous branch = one if/else, then `elif pulse_mode == 'discrete'`")
    inner, disc = top.body[0], top.orelse[0]
    _expect(disc.test, "pulse_mode == 'discrete'", "_process_idling_tlist")
    if disc.orelse:
        _fail("_process_idling_tlist: unexpected else after the discrete branch")
    l, op, r = _cmp(inner.test, "_process_idling_tlist, idle test")
    return {"condL": _lin(l), "condCmp": op, "condR": _lin(r),
            "thenP": _pieces(inner.body, "continuous/long"), "elseP": _pieces(inner.orelse, "continuous/short"),
            "disc": _pieces(disc.body, "discrete")}


_IDLE_APPEND = ("compiled_tlist[pulse_ind].append(idling_tlist)", "compiled_coeffs[pulse_ind].append(np.zeros(len(idling_tlist)))")


def read_cat(tree):
    fn, body = _func(tree, "_concatenate_pulses")
    cat = {}
    i = 0

    def nxt():
        nonlocal i
        if i >= len(body):
            _fail("_concatenate_pulses: statement missing")
        i += 1
        return body[i - 1]

    _expect(nxt(), "min_step_size = np.inf", "_concatenate_pulses")
    x = nxt()
    has_tt = isinstance(x, ast.Assign) and U(x.targets[0]) == "time_tol"
    if has_tt:
        v = x.value
        if not (isinstance(v, ast.BinOp) and isinstance(v.op, ast.Mult)):
            _fail("time_tol: `constant * max(...)` expected: " + U(v))
        c, m = (v.left, v.right) if _is_num(v.left) else (v.right, v.left)
        cat["gapTol"] = _num(c)
        ok = isinstance(m, ast.Call) and U(m.func) == "max" and len(m.args) == 1 and isinstance(m.args[0], ast.ListComp) \
            and [U(k.value) for k in m.keywords if k.arg == "default"] == ["0.0"] and len(m.keywords) == 1
        if not ok:
            _fail("time_tol: max([...], default=0.0) expected: " + U(m))
        lc = m.args[0]
        if [(U(g.target), U(g.iter), len(g.ifs)) for g in lc.generators] != [("insts", "pulse_instructions", 0), ("inst", "insts", 0)]:
            _fail("time_tol: the maximum must run over all instructions of all channels: " + U(lc))
        elt = U(lc.elt)
        if elt == "abs(inst[0])":
            cat["gapRef"] = "maxStart"
        elif elt == "abs(inst[0]) + np.max(inst[1], initial=0.0)":
            cat["gapRef"] = "maxEnd"
        else:
            _fail("time_tol: reference time not recognised: " + elt)
        x = nxt()
    _expect(x, "compiled_tlist = [[] for tmp in range(num_controls)]", "_concatenate_pulses")
    _expect(nxt(), "compiled_coeffs = [[] for tmp in range(num_controls)]", "_concatenate_pulses")
    loop = nxt()
    if not (isinstance(loop, ast.For) and U(loop.target) == "pulse_ind" and U(loop.iter) == "range(num_controls)"
            and not loop.orelse and len(loop.body) == 2):
        _fail("_concatenate_pulses: channel loop not recognised")
    _expect(loop.body[0], "last_pulse_time = 0.0", "channel loop")
    inner = loop.body[1]
    if not (isinstance(inner, ast.For) and U(inner.target) == "(start_time, tlist, coeff)"
            and U(inner.iter) == "pulse_instructions[pulse_ind]" and not inner.orelse and len(inner.body) == 8):
        _fail("_concatenate_pulses: instruction loop not recognised")
    b = inner.body
    _expect(b[0], "gate_tlist, coeffs, step_size, pulse_mode = self._process_gate_pulse(start_time, tlist, coeff)", "instruction loop")
    _expect(b[1], "min_step_size = min(step_size, min_step_size)", "instruction loop")
    # first pulse
    f = b[2]
    if not (isinstance(f, ast.If) and not f.orelse and len(f.body) == 2):
        _fail("first-pulse branch not recognised")
    _expect(f.body[0], "compiled_tlist[pulse_ind].append([0.0])", "first-pulse branch")
    _expect(f.body[1], "if pulse_mode == 'continuous':\n    compiled_coeffs[pulse_ind].append([0.0])", "first-pulse branch")
    if U(f.test) in ("not compiled_tlist[pulse_ind]", "len(compiled_tlist[pulse_ind]) == 0"):
        cat.update(firstByTol=False, firstCmp="lt", firstTol=F(1, 10**6))
    else:
        l, op, r = _cmp(f.test, "first-pulse test")
        _expect(l, ("abs(last_pulse_time)", "np.abs(last_pulse_time)"), "first-pulse test")
        _n, c = _times_const(r, ("step_size",), "first-pulse test")
        cat.update(firstByTol=True, firstCmp=op, firstTol=c)
    # idle gap
    g = b[3]
    if not (isinstance(g, ast.If) and not g.orelse and len(g.body) == 3):
        _fail("idle-gap branch not recognised")
    _expect(g.body[0], "idling_tlist = self._process_idling_tlist(pulse_mode, start_time, last_pulse_time, step_size)", "idle-gap branch")
    _expect(g.body[1], _IDLE_APPEND[0], "idle-gap branch")
    _expect(g.body[2], _IDLE_APPEND[1], "idle-gap branch")
    l, op, r = _cmp(g.test, "idle-gap test")
    _expect(l, ("np.abs(start_time - last_pulse_time)", "abs(start_time - last_pulse_time)"), "idle-gap test")
    cat["gapCmp"] = op
    if has_tt:
        _expect(r, "time_tol", "idle-gap test")
    else:
        _n, c = _times_const(r, ("step_size",), "idle-gap test")
        cat.update(gapRef="step", gapTol=c)
    _expect(b[4], "execution_time = gate_tlist + start_time", "instruction loop")
    _expect(b[5], "last_pulse_time = execution_time[-1]", "instruction loop")
    _expect(b[6], "compiled_tlist[pulse_ind].append(execution_time)", "instruction loop")
    _expect(b[7], "compiled_coeffs[pulse_ind].append(coeffs)", "instruction loop")
    # final time
    x = nxt()
    if U(x) == "final_time = np.max([tlist[-1][-1] for tlist in compiled_tlist])":
        cat["emptyOk"] = False
    else:
        _expect(x, "end_times = [tlist[-1][-1] for tlist in compiled_tlist if tlist]", "final time")
        _expect(nxt(), "final_time = np.max(end_times) if end_times else 0.0", "final time")
        cat["emptyOk"] = True
    pad = nxt()
    if not (isinstance(pad, ast.For) and U(pad.target) == "pulse_ind" and U(pad.iter) == "range(num_controls)" and not pad.orelse):
        _fail("padding loop not recognised")
    pb = list(pad.body)
    if pb and U(pb[0]) == "if not compiled_tlist[pulse_ind]:\n    continue":
        pb = pb[1:]
    elif cat["emptyOk"]:
        _fail("padding loop: `if not compiled_tlist[pulse_ind]: continue` expected")
    if len(pb) != 2:
        _fail("padding loop not recognised")
    _expect(pb[0], "last_pulse_time = compiled_tlist[pulse_ind][-1][-1]", "padding loop")
    t = pb[1]
    if not (isinstance(t, ast.If) and not t.orelse and len(t.body) == 3):
        _fail("padding branch not recognised")
    l, op, r = _cmp(t.test, "padding test")
    _expect(l, ("np.abs(final_time - last_pulse_time)", "abs(final_time - last_pulse_time)"), "padding test")
    n, c = _times_const(r, ("min_step_size", "step_size"), "padding test")
    cat.update(padCmp=op, padTol=c, padTolStep="min" if n == "min_step_size" else "last")
    call = t.body[0]
    if U(call) == "idling_tlist = self._process_idling_tlist(pulse_mode, final_time, last_pulse_time, min_step_size)":
        cat["padStep"] = "min"
    elif U(call) == "idling_tlist = self._process_idling_tlist(pulse_mode, final_time, last_pulse_time, step_size)":
        cat["padStep"] = "last"
    else:
        _fail("padding branch: call of _process_idling_tlist not recognised: " + U(call))
    _expect(t.body[1], _IDLE_APPEND[0], "padding branch")
    _expect(t.body[2], _IDLE_APPEND[1], "padding branch")
    _expect(nxt(), "for i in range(num_controls):\n    if not compiled_coeffs[i]:\n        compiled_tlist[i] = None\n        "
            "compiled_coeffs[i] = None\n    else:\n        compiled_tlist[i] = np.concatenate(compiled_tlist[i])\n        "
            "compiled_coeffs[i] = np.concatenate(compiled_coeffs[i])", "final conversion")
    _expect(nxt(), "return (compiled_tlist, compiled_coeffs)", "_concatenate_pulses")
    if i != len(body):
        _fail("_concatenate_pulses: unexpected trailing statements")
    # compile: are instructions of zero duration dropped before scheduling?
    cfn, _cb = _func(tree, "compile")
    adds = [U(n.value) for n in ast.walk(cfn) if isinstance(n, ast.AugAssign) and U(n.target) == "instruction_list"]
    if adds == ["instruction"]:
        cat["dropZero"] = False
    elif adds == ["[ins for ins in instruction if ins.duration != 0]"]:
        cat["dropZero"] = True
    else:
        _fail("compile: how instructions are collected is not recognised: " + "; ".join(adds))
    return cat


_INSTR_FILE = ("src", "qutip_qip", "compiler", "instruction.py")
_INSTR_HEAD = ["self.gate = deepcopy(gate)", "self.used_qubits = set()",
               "if self.targets is not None:\n    self.targets.sort()\n    self.used_qubits |= set(self.targets)",
               "if self.controls is not None:\n    self.controls.sort()\n    self.used_qubits |= set(self.controls)",
               "self.tlist = tlist"]
_INSTR_SHIFT = "if self.tlist[0] != 0:\n    self.tlist = np.asarray(self.tlist) - self.tlist[0]"


def _dur_lin(node):
    """arithmetic over self.tlist[-1] / self.tlist[0] -> (coefficient of tlist[-1], coefficient of tlist[0])"""
    if isinstance(node, ast.Subscript) and U(node.value) == "self.tlist":
        if U(node.slice) == "-1":
            return (F(1), F(0))
        if U(node.slice) == "0":
            return (F(0), F(1))
    if isinstance(node, ast.UnaryOp) and isinstance(node.op, ast.USub):
        return tuple(-x for x in _dur_lin(node.operand))
    if isinstance(node, ast.BinOp) and isinstance(node.op, (ast.Add, ast.Sub)):
        l, r = _dur_lin(node.left), _dur_lin(node.right)
        sg = 1 if isinstance(node.op, ast.Add) else -1
        return tuple(x + sg * y for x, y in zip(l, r))
    if isinstance(node, ast.BinOp) and isinstance(node.op, ast.Mult):
        for a_, b_ in ((node.left, node.right), (node.right, node.left)):
            if _is_num(a_):
                return tuple(_num(a_) * x for x in _dur_lin(b_))
    _fail("Instruction.duration: expression over self.tlist[-1] / self.tlist[0] not recognised: " + U(node))


def read_instr():
    path = os.path.join(paths.REPO, *_INSTR_FILE)
    try:
        tree = ast.parse(open(path).read())
    except Exception as e:
        raise TranslatorError(f"cannot parse {path}: {e}")
    cls = [n for n in tree.body if isinstance(n, ast.ClassDef) and n.name == "Instruction"]
    init = [n for c in cls for n in c.body if isinstance(n, ast.FunctionDef) and n.name == "__init__"]
    if len(init) != 1:
        _fail("Instruction.__init__ not found")
    if [a.arg for a in init[0].args.args] != ["self", "gate", "tlist", "pulse_info", "duration"]:
        _fail("Instruction.__init__: parameters changed")
    body = list(init[0].body)
    if len(body) != len(_INSTR_HEAD) + 2 or [U(x) for x in body[:len(_INSTR_HEAD)]] != _INSTR_HEAD:
        _fail("Instruction.__init__: statements before the duration are not the expected ones")
    _expect(body[-1], "self.pulse_info = pulse_info", "Instruction.__init__")
    top = body[-2]
    ok = isinstance(top, ast.If) and U(top.test) == "self.tlist is not None" and len(top.body) == 1 and isinstance(top.body[0], ast.If) \
        and [U(x) for x in top.orelse] == ["self.duration = duration"]
    if not ok:
        _fail("Instruction.__init__: `if self.tlist is not None: ... else: self.duration = duration` expected")
    sc = top.body[0]
    _expect(sc.test, "np.isscalar(self.tlist)", "Instruction.__init__")
    if [U(x) for x in sc.body] != ["self.duration = self.tlist"] or len(sc.orelse) != 1 or not isinstance(sc.orelse[0], ast.If):
        _fail("Instruction.__init__: scalar branch / elif not recognised")
    chk = sc.orelse[0]
    l, op, r = _cmp(chk.test, "Instruction.__init__, first-entry test")
    _expect(l, ("abs(self.tlist[0])", "np.abs(self.tlist[0])"), "Instruction.__init__, first-entry test")
    if len(chk.body) != 1 or not U(chk.body[0]).startswith("raise ValueError("):
        _fail("Instruction.__init__: the first-entry test must raise ValueError")
    rest = list(chk.orelse)
    shift = False
    if rest and U(rest[0]) == _INSTR_SHIFT:
        shift, rest = True, rest[1:]
    if len(rest) != 1 or not (isinstance(rest[0], ast.Assign) and U(rest[0].targets[0]) == "self.duration"):
        _fail("Instruction.__init__: `self.duration = ...` expected for a sampled tlist: " + " | ".join(U(x)[:60] for x in rest))
    dl, df = _dur_lin(rest[0].value)
    return {"t0Cmp": op, "t0Tol": _num(r), "shift": shift, "durLast": dl, "durFirst": df}


def read_source():
    path = os.path.join(paths.REPO, *SRC_FILE)
    try:
        tree = ast.parse(open(path).read())
    except Exception as e:
        raise TranslatorError(f"cannot parse {path}: {e}")
    return {"proc": read_proc(tree), "idle": read_idle(tree), "cat": read_cat(tree), "instr": read_instr()}


#: the description the theorems are about (used by the oracle-side bookkeeping when the source cannot be read)
def standard_desc():
    one, z = F(1), F(0)
    return {"proc": {"scalarMode": "discrete", "branches": [
                {"off": -1, "hi": 1, "lo": 0, "tSlice": (1, 0), "cSlice": (0, 0), "mode": "discrete"},
                {"off": 0, "hi": 1, "lo": 0, "tSlice": (1, 0), "cSlice": (1, 0), "mode": "continuous"}]},
            "idle": {"condL": (one, -one, z, z), "condCmp": "gt", "condR": (z, z, F(3), z),
                     "thenP": [("linspace", (z, one, F(1, 5), z), (z, one, one, z), 10),
                               ("linspace", (one, z, -one, z), (one, z, z, z), 10)],
                     "elseP": [("arange", (z, one, one, z), (one, z, z, z), (z, z, one, z))],
                     "disc": [("pts", [(one, z, z, z)])]},
            "cat": {"firstByTol": False, "firstCmp": "lt", "firstTol": F(1, 10**6), "gapRef": "maxEnd", "gapCmp": "gt",
                    "gapTol": F(1, 10**12), "emptyOk": True, "padCmp": "gt", "padTol": F(1, 10**6), "padTolStep": "min",
                    "padStep": "min", "dropZero": True},
            "instr": {"t0Cmp": "gt", "t0Tol": F(1, 10**8), "shift": False, "durLast": F(1), "durFirst": F(0)}}


# ----------------------------------------------------------------------------------------------
# How ModelProcessor.load_circuit stores the compiled maps (Model/PulseStore.lean): the statements must be the expected ones.
_STORE_EXPECT = {
    "_generate_iterator_from_dict_or_list": [
        "if isinstance(value, dict):\n    iterator = value.items()\nelif isinstance(value, (list, np.ndarray)):\n    "
        "iterator = enumerate(value)\nelse:\n    raise ValueError('Wrong type.')",
        "return iterator"],
    "set_coeffs": [
        "self.clear_pulses()",
        "iterator = self._generate_iterator_from_dict_or_list(coeffs)",
        "for label, coeff in iterator:\n    label = label\n    ham, targets = self.model.get_control(label)\n    "
        "self.add_pulse(Pulse(ham, targets, coeff=coeffs[label], spline_kind=self.spline_kind, label=label))"],
    "set_tlist": [
        "if isinstance(tlist, np.ndarray) and len(tlist.shape) == 1:\n    for pulse in self.pulses:\n        pulse.tlist = tlist\n    return",
        "iterator = self._generate_iterator_from_dict_or_list(tlist)",
        "pulse_dict = self.get_pulse_dict()",
        "for pulse_label, value in iterator:\n    self.pulses[pulse_dict[pulse_label]].tlist = value"],
    "add_pulse": [
        "if isinstance(pulse, Pulse):\n    if pulse.spline_kind is None:\n        pulse.spline_kind = self.spline_kind\n    "
        "self.pulses.append(pulse)\nelse:\n    raise ValueError('Invalid input, pulse must be a Pulse object')"],
    "clear_pulses": ["self.pulses = []"],
    "get_pulse_dict": [
        "label_list = {}",
        "for i, pulse in enumerate(self.pulses):\n    if pulse.label is not None:\n        label_list[pulse.label] = i",
        "return label_list"],
}


def read_store():
    """TranslatorError unless Processor.set_coeffs / set_tlist / get_pulse_dict / add_pulse / clear_pulses are the functions
    Model/PulseStore.lean models and load_circuit stores the maps with set_coeffs(coeffs) then set_tlist(tlist)"""
    path = os.path.join(paths.REPO, "src", "qutip_qip", "device", "processor.py")
    try:
        tree = ast.parse(open(path).read())
    except Exception as e:
        raise TranslatorError(f"cannot parse {path}: {e}")
    for name, want in _STORE_EXPECT.items():
        _fn, body = _func(tree, name)
        got = [U(x) for x in body]
        if got != want:
            k = next((i for i, (a_, b_) in enumerate(zip(got, want)) if a_ != b_), min(len(got), len(want)))
            _fail(f"Processor.{name}: statement {k} is not the modelled one: "
                  + (got[k][:120] if k < len(got) else "<missing>"))
    path = os.path.join(paths.REPO, "src", "qutip_qip", "device", "modelprocessor.py")
    try:
        tree = ast.parse(open(path).read())
    except Exception as e:
        raise TranslatorError(f"cannot parse {path}: {e}")
    _fn, body = _func(tree, "load_circuit")
    tail = [U(x) for x in body[-3:]]
    if tail != ["self.set_coeffs(coeffs)", "self.set_tlist(tlist)", "return (tlist, coeffs)"]:
        _fail("ModelProcessor.load_circuit: `self.set_coeffs(coeffs); self.set_tlist(tlist); return tlist, coeffs` expected at the end: "
              + " | ".join(tail))



def _lr(x):
    x = F(x)
    if x.denominator == 1:
        return str(x.numerator) if x >= 0 else f"({x.numerator})"
    return f"{x.numerator}/{x.denominator}" if x > 0 else f"({x.numerator}/{x.denominator})"


def _llin(l):
    return "⟨" + ", ".join(_lr(x) for x in l) + "⟩"


def _lpiece(p):
    if p[0] == "linspace":
        return f".linspace {_llin(p[1])} {_llin(p[2])} {p[3]}"
    if p[0] == "arange":
        return f".arange {_llin(p[1])} {_llin(p[2])} {_llin(p[3])}"
    return ".pts [" + ", ".join(_llin(l) for l in p[1]) + "]"


def _lbool(b):
    return "true" if b else "false"


def render_gen(d):
    pr, idl, c = d["proc"], d["idle"], d["cat"]
    br = ", ".join(f"⟨{_lr(b['off'])}, {b['hi']}, {b['lo']}, ⟨{b['tSlice'][0]}, {b['tSlice'][1]}⟩, "
                   f"⟨{b['cSlice'][0]}, {b['cSlice'][1]}⟩, .{b['mode']}⟩" for b in pr["branches"])
    pl = lambda ps: "[" + ", ".join(_lpiece(p) for p in ps) + "]"
    return ("import QipVerif.Model.ConcatSrc\n"
            "/-! REGENERATED by py/props/c12.py from src/qutip_qip/compiler/gatecompiler.py\n"
            "(`_process_gate_pulse`, `_process_idling_tlist`, `_concatenate_pulses`, `compile`) and compiler/instruction.py\n(`Instruction.__init__`). Do not edit. -/\n"
            "namespace QipVerif.Gen\nopen QipVerif.Concat\n\n"
            "/-- what the working tree says -/\n"
            "def concatSrc : Src :=\n"
            "  { proc :=\n"
            f"      {{ scalarMode := .{pr['scalarMode']},\n"
            f"        branches := [{br}] }},\n"
            "    idle :=\n"
            f"      {{ condL := {_llin(idl['condL'])}, condCmp := .{idl['condCmp']}, condR := {_llin(idl['condR'])},\n"
            f"        thenP := {pl(idl['thenP'])},\n"
            f"        elseP := {pl(idl['elseP'])},\n"
            f"        disc := {pl(idl['disc'])} }},\n"
            "    cat :=\n"
            f"      {{ firstByTol := {_lbool(c['firstByTol'])}, firstCmp := .{c['firstCmp']}, firstTol := {_lr(c['firstTol'])},\n"
            f"        gapRef := .{c['gapRef']}, gapCmp := .{c['gapCmp']}, gapTol := {_lr(c['gapTol'])},\n"
            f"        emptyOk := {_lbool(c['emptyOk'])},\n"
            f"        padCmp := .{c['padCmp']}, padTol := {_lr(c['padTol'])}, padTolStep := .{c['padTolStep']}, padStep := .{c['padStep']},\n"
            f"        dropZero := {_lbool(c['dropZero'])} }},\n"
            f"    instr := {{ t0Cmp := .{d['instr']['t0Cmp']}, t0Tol := {_lr(d['instr']['t0Tol'])}, shift := {_lbool(d['instr']['shift'])}, "
            f"durLast := {_lr(d['instr']['durLast'])}, durFirst := {_lr(d['instr']['durFirst'])} }} }}\n\n"
            "end QipVerif.Gen\n")


def describe(d):
    c = d["cat"]
    first = f"abs(last) {c['firstCmp']} step*{float(c['firstTol'])}" if c["firstByTol"] else "emptiness"
    return (f"first pulse by {first}; idle gap {c['gapCmp']} {float(c['gapTol'])}*{c['gapRef']}; emptyOk={c['emptyOk']}; "
            f"padding {c['padCmp']} {c['padTolStep']}_step*{float(c['padTol'])}, idle step {c['padStep']}; dropZero={c['dropZero']}; "
            f"idle test {d['idle']['condCmp']}; {len(d['proc']['branches'])} array branches; Instruction: abs(tlist[0]) "
            f"{d['instr']['t0Cmp']} {float(d['instr']['t0Tol'])} refused, shift={d['instr']['shift']}, duration = "
            f"{d['instr']['durLast']}*tlist[-1] + {d['instr']['durFirst']}*tlist[0]")


# ----------------------------------------------------------------------------------------------
# implementation side
def _impl():
    from qutip_qip.compiler import gatecompiler as gc_mod
    from qutip_qip.compiler import GateCompiler, Instruction
    from qutip_qip.operations import Gate
    return gc_mod, GateCompiler, Instruction, Gate


def classify_exc(e):
    msg = str(e)
    if isinstance(e, IndexError):
        return "index"
    if isinstance(e, ZeroDivisionError):
        return "zerodiv"
    if isinstance(e, TypeError) and "has no len()" in msg:
        return "type"
    if isinstance(e, ValueError):
        if "shape of the compiled pulse" in msg:
            return "shape"
        if "must start from 0" in msg:
            return "t0"
        if "zero-size array" in msg:
            return "empty"
        if "Maximum allowed size exceeded" in msg:
            return "zerodiv"
        return "other:ValueError:" + msg[:60]
    return "other:" + type(e).__name__ + ":" + msg[:60]


def to_np(tl):
    """["s", x] -> float ; ["a", [..]] -> ndarray"""
    if tl[0] == "s":
        return float(F(tl[1]))
    return np.array([float(F(x)) for x in tl[1]], dtype=float)


def wave_str(tl, cf):
    if tl[0] == "s":
        return f"s:{fs(tl[1])}:{fs(cf[1])}"
    if cf[0] == "s":
        return f"m:{fl(tl[1])}:{fs(cf[1])}"
    return f"a:{fl(tl[1])}:{fl(cf[1])}"


class _Rec:
    starts = None


def make_synth(nq, gate_specs):
    gc_mod, GateCompiler, Instruction, Gate = _impl()

    class Synth(GateCompiler):
        def __init__(self):
            super().__init__(nq)
            self.queue = list(gate_specs)
            for nm in ("RX", "RY", "RZ", "CNOT", "ISWAP", "CZ"):
                self.gate_compiler[nm] = self.emit

        def emit(self, gate, args):
            g = self.queue.pop(0)
            info = [(lab, to_np(cf)) for lab, cf in g["pulses"]]
            ins = Instruction(gate, to_np(g["tl"]), info)
            EMITTED.append(ins.tlist)       # the time sequence as the instruction stores it
            return [ins]

    return Synth()


#: time sequences of the instructions the synthetic compiler emitted in the last run, as stored by Instruction.__init__
EMITTED = []


def effective_case(case):
    """the case with every time sequence replaced by the one the emitted Instruction stores (Instruction may normalise it)"""
    out, k = [], 0
    for g in case["gates"]:
        if g["name"] in ("IDLE", "GLOBALPHASE"):
            out.append(g)
            continue
        if k >= len(EMITTED):
            raise ValueError("an instruction was not constructed")
        tl = EMITTED[k]
        k += 1
        out.append(dict(g, tl=["s", fs(F(float(tl)))] if np.isscalar(tl) else ["a", [fs(F(float(x))) for x in tl]]))
    return dict(case, gates=out)


def run_compile_impl(case):
    """-> (status, payload, starts, perm).  Records what the real Scheduler returned."""
    gc_mod, GateCompiler, Instruction, Gate = _impl()
    specs = [g for g in case["gates"] if g["name"] not in ("IDLE", "GLOBALPHASE")]
    del EMITTED[:]
    comp = make_synth(case["nq"], specs)
    gates = []
    for g in case["gates"]:
        if g["name"] == "IDLE":
            gates.append(Gate("IDLE", targets=g["targets"], arg_value=float(F(g["t"]))))
        elif g["name"] == "GLOBALPHASE":
            gates.append(Gate("GLOBALPHASE", targets=None, arg_value=0.5))
        else:
            gates.append(Gate(g["name"], targets=g["targets"], controls=g.get("controls"), arg_value=1.0))
    return run_compile_real(comp, gates, case["mode"])


def run_compile_real(comp, gates, mode):
    gc_mod = _impl()[0]
    real = gc_mod.Scheduler
    rec = {"starts": None}

    class RecScheduler(real):
        def schedule(self, *a, **k):
            r = super().schedule(*a, **k)
            if rec["starts"] is None or True:
                rec["starts"] = [float(x) for x in r]
            return r

    gc_mod.Scheduler = RecScheduler
    try:
        try:
            tl_map, cf_map = comp.compile(gates, schedule_mode=mode)
        except Exception as e:
            st_ = rec["starts"]
            return "err", classify_exc(e), st_, ([int(i) for i in np.argsort(st_)] if st_ is not None else None)
    finally:
        gc_mod.Scheduler = real
    starts = rec["starts"]
    perm = [int(i) for i in np.argsort(starts)] if starts is not None else None
    if tl_map is None:
        return "none", None, starts, perm
    out = [(lab, None, None) if tl_map[lab] is None else
           (lab, [float(x) for x in tl_map[lab]], [float(x) for x in np.asarray(cf_map[lab]).ravel()]) for lab in tl_map]
    return "ok", out, starts, perm


# ----------------------------------------------------------------------------------------------
# generators (all randomness from ctx.rng)
def dy(rng, e, mmax=16):
    return F(rng.randint(1, mmax)) * F(2) ** e


T0_DYADIC = [F(sg, 2**k) for k in (27, 28, 29, 30) for sg in (1, -1)]      # |t0| <= 2^-27 < 1e-8: accepted by Instruction


def gen_wave(rng, kind, e, conv=True, t0p=0.12):
    """a waveform of the given kind whose step is about 2^e; with probability t0p a sampled time sequence starts at a tiny
    non-zero value inside the window Instruction accepts (|tlist[0]| <= 1e-8) instead of exactly 0"""
    tl, cf = gen_wave0(rng, kind, e, conv)
    if tl[0] == "a" and rng.random() < t0p:
        t0 = rng.choice(T0_DYADIC)
        if t0 < tl[1][1]:
            tl = ["a", [t0] + tl[1][1:]]
    return tl, cf


def gen_wave0(rng, kind, e, conv=True):
    """a waveform of the given kind whose step is about 2^e"""
    if kind == "scalar":
        return ["s", dy(rng, e, 64)], ["s", F(rng.randint(-16, 16), 8)]
    n = rng.randint(1, 4)
    if kind == "discrete":
        if rng.random() < 0.6:
            st = dy(rng, e)
            tl = [st * i for i in range(n + 1)]
        else:
            tl = [F(0)]
            for _ in range(n):
                tl.append(tl[-1] + dy(rng, e))
        return ["a", tl], ["a", [F(rng.randint(-16, 16), 8) for _ in range(n)]]
    st = dy(rng, e)
    n = rng.randint(2, 5)
    tl = [st * i for i in range(n + 1)]
    cs = [F(rng.randint(-16, 16), 8) for _ in range(n + 1)]
    if conv or rng.random() < 0.7:
        cs[0] = F(0)
    return ["a", tl], ["a", cs]


def exact_ok(case):
    """all float operations of the code are exact on this case: multiples of 2^-30, total time < 2^23"""
    tot = F(0)
    for g in case["gates"]:
        if g["name"] == "GLOBALPHASE":
            continue
        vals = [F(g["t"])] if g["name"] == "IDLE" else ([F(g["tl"][1])] if g["tl"][0] == "s" else [F(x) for x in g["tl"][1]])
        if any((v * 2**Q).denominator != 1 for v in vals):
            return False
        tot += vals[-1]
    return tot < 2**23


def gen_case(rng, wild):
    while True:
        c = gen_case0(rng, wild)
        if exact_ok(c):
            return c


def gen_case0(rng, wild):
    nq = rng.randint(1, 3)
    ngates = rng.randint(1, 6)
    base = rng.randint(-30, 12)
    chan_kind = {}
    gates = []
    homog = rng.random() < 0.85
    for _ in range(ngates):
        r = rng.random()
        if r < 0.08:
            e = rng.randint(-30, 17) if wild else base + rng.randint(0, 3)
            gates.append({"name": "IDLE", "targets": [rng.randrange(nq)], "t": fs(dy(rng, e))})
            continue
        if r < 0.11:
            gates.append({"name": "GLOBALPHASE"})
            continue
        if nq >= 2 and rng.random() < 0.3:
            a, b = rng.sample(range(nq), 2)
            name = rng.choice(["CNOT", "ISWAP", "CZ"])
            g = {"name": name, "targets": [b], "controls": [a]} if name in ("CNOT", "CZ") else \
                {"name": name, "targets": sorted([a, b]), "controls": None}
            labs = [f"g{min(a, b)}"] + ([f"x{b}"] if rng.random() < 0.3 else [])
        else:
            q = rng.randrange(nq)
            g = {"name": rng.choice(["RX", "RY", "RZ"]), "targets": [q], "controls": None}
            labs = [rng.choice([f"x{q}", f"z{q}"])] + ([f"y{q}"] if rng.random() < 0.2 else [])
        e = rng.randint(-30, 20) if wild else base + rng.randint(0, 3)
        kind = None
        if homog:
            for l in labs:
                if l in chan_kind:
                    kind = chan_kind[l]
        if kind is None:
            kind = rng.choice(["scalar", "discrete", "continuous"])
        for l in labs:
            chan_kind.setdefault(l, kind)
        tl, cf = gen_wave(rng, kind, e)
        if kind == "scalar" and rng.random() < 0.06:
            tl = ["s", F(0)]               # zero-duration instruction (e.g. a rotation by angle 0)
        pulses = [[labs[0], cf]]
        for l in labs[1:]:
            if tl[0] == "s":
                pulses.append([l, ["s", F(rng.randint(-16, 16), 8)]])
            else:
                pulses.append([l, ["a", [F(rng.randint(-16, 16), 8) for _ in cf[1]]]])
        g["tl"] = [tl[0], fs(tl[1]) if tl[0] == "s" else [fs(x) for x in tl[1]]]
        g["pulses"] = [[l, [c[0], fs(c[1]) if c[0] == "s" else [fs(x) for x in c[1]]]] for l, c in pulses]
        gates.append(g)
    return {"nq": nq, "mode": rng.choice([None, "ASAP", "ALAP"]), "gates": gates}


def case_instr_lines(case, starts, perm, scale):
    labels = {}
    parts = []
    for g in case["gates"]:
        if g["name"] == "GLOBALPHASE":
            continue
        if g["name"] == "IDLE":
            parts.append(f"s:{fs(g['t'])}@")
            continue
        tl = g["tl"]
        t = f"s:{fs(tl[1])}" if tl[0] == "s" else f"a:{fl(tl[1])}"
        ps = []
        for lab, cf in g["pulses"]:
            lid = labels.setdefault(lab, len(labels))
            ps.append(f"{lid}=" + (f"s:{fs(cf[1])}" if cf[0] == "s" else f"a:{fl(cf[1])}"))
        parts.append(t + "@" + "&".join(ps))
    line = f"compile scale={fs(scale)} "
    if case["mode"]:
        line += f"mode=sched starts={fl(F(x) for x in starts)} perm={','.join(map(str, perm))} "
    else:
        line += "mode=none "
    line += "instrs=" + ";".join(parts)
    return line, {v: k for k, v in labels.items()}


def parse_compile_out(o, id2lab):
    if o == "ok none":
        return "none", None
    if o.startswith("err "):
        return "err", o[4:]
    if not o.startswith("ok "):
        return "bad", o
    out = []
    for ch in (o[3:].split("!") if o[3:].strip() else []):
        f = ch.split(":")
        if len(f) == 2 and f[1] == "~":
            out.append((id2lab[int(f[0])], None, None))
        else:
            out.append((id2lab[int(f[0])], pfl(f[1]), pfl(f[2])))
    return "ok", out


def compare_channels(model, impl, exact=True, scale=1.0):
    """list of (label, tlist, coeffs): model rationals vs implementation floats -> None or description"""
    if [m[0] for m in model] != [i[0] for i in impl]:
        return f"channel labels/order {[m[0] for m in model]} vs {[i[0] for i in impl]}"
    for (lab, mt, mc), (_l, it, ic) in zip(model, impl):
        if mt is None or it is None:
            if not (mt is None and it is None):
                return f"channel {lab}: model {'empty' if mt is None else 'has pulses'}, impl {'None' if it is None else 'arrays'}"
            continue
        if len(mt) != len(it) or len(mc) != len(ic):
            return f"channel {lab}: lengths model ({len(mt)},{len(mc)}) impl ({len(it)},{len(ic)})"
        for k, (a, b) in enumerate(zip(it, mt)):
            # idle / padding points (coefficient 0) of continuous pulses come from step/5 and np.linspace: inexact in floats even
            # when the rational happens to be dyadic (e.g. 5*step/9 for a step divisible by 9) -> 2^-46 relative for them
            kc = k if len(mc) == len(mt) else k - 1
            zero_here = 0 <= kc < len(mc) and mc[kc] == 0
            ok = close(a, b, exact=not zero_here) if exact else close_num(a, b, scale)
            if not ok:
                return f"channel {lab}: tlist[{k}] model {float(b)!r} impl {a!r}"
        for k, (a, b) in enumerate(zip(ic, mc)):
            ok = close(a, b) if exact else close_num(a, b, 1.0)
            if not ok:
                return f"channel {lab}: coeff[{k}] model {float(b)!r} impl {a!r}"
    return None


CHECK = None

# ----------------------------------------------------------------------------------------------
# the property itself on the real code (independent of the Lean model and of the description of the source)
#
# Resolution class (recorded finding, not judged): time differences below RES = 1e-12 of the total time T of the schedule
# are not resolved -- an idle gap of at most RES*T is merged with the following instruction, a start time that lies at
# most RES*T before the previous end (rounding of the scheduler) is taken as that end; pulses with a step of at most
# RES*T are outside.  Everything else is judged.
T0_WINDOW = F(1, 10**8)     # documented contract of Instruction: "Pulse time sequence must start from 0", |tlist[0]| <= 1e-8


def fadd(a, b):
    """the float addition the code performs (`gate_tlist + start_time`), exact on the dyadic stream"""
    return F(float(a) + float(b))


def window(s, tl, cf):
    """one pulse of an instruction on a channel: start, relative grid, absolute points, coefficients, kind"""
    s = F(s)
    if tl[0] == "s":
        t, c, kind = [F(0), F(tl[1])], [F(cf[1])], ("discrete" if cf[0] == "s" else "bad")
    elif cf[0] == "s":
        t, c, kind = [F(x) for x in tl[1]], [F(cf[1])], "bad"
    else:
        t = [F(x) for x in tl[1]]
        c = [F(x) for x in cf[1]]
        kind = "discrete" if len(c) == len(t) - 1 else ("continuous" if len(c) == len(t) else "bad")
    # Instruction accepts |tlist[0]| <= 1e-8 as "starts from 0": the sequence is measured from the start of the instruction,
    # an accepted first entry counts as 0
    if kind != "bad" and t and t[0] != 0:
        if abs(t[0]) > T0_WINDOW:
            kind = "bad"
        else:
            t = [F(0)] + t[1:]
    return {"s": s, "t": t, "P": [s] + [fadd(s, x) for x in t[1:]], "c": c, "kind": kind}


def _gate_duration(g):
    if g["name"] == "IDLE":
        return F(g["t"])
    tl = g["tl"]
    return F(tl[1]) if tl[0] == "s" else (F(tl[1][-1]) if tl[1] else F(0))


def ordered_instr(case, starts, perm):
    """[(gate, start)] in execution order.  With a scheduler the start times are those the real Scheduler returned; whether
    compile handed it the zero-duration instructions is read off their number."""
    gs = [g for g in case["gates"] if g["name"] != "GLOBALPHASE"]
    kept = [g for g in gs if _gate_duration(g) != 0]
    if case["mode"]:
        lst = gs if len(starts) == len(gs) else kept
        if len(starts) != len(lst):
            raise ValueError("number of scheduled start times does not match the instructions")
        return [(lst[i], F(starts[i])) for i in perm]
    out, acc = [], F(0)
    for g in gs:
        out.append((g, acc))
        acc = fadd(acc, _gate_duration(g))
    return out


def windows_of(ordered):
    """channel label -> windows in execution order (an instruction of zero duration has no window)"""
    chans = {}
    for g, s in ordered:
        if g["name"] in ("IDLE", "GLOBALPHASE") or _gate_duration(g) == 0:
            continue
        for lab, cf in g["pulses"]:
            chans.setdefault(lab, []).append(window(s, g["tl"], cf))
    return chans


def total_time(chans):
    return max([w["P"][-1] for ws in chans.values() for w in ws], default=F(0))


def hypothesis(chans, full=False):
    """is the schedule inside the class the property is judged on?  -> (ok, reason)"""
    T = total_time(chans)
    res = RES * T
    lo, hi = res * (1 - F(1, 2**20)), res * (1 + F(1, 2**20))
    for lab, ws in chans.items():
        last = F(0)
        for j, w in enumerate(ws):
            t = w["t"]
            if w["kind"] != "bad" and len(t) >= 2 and t[0] == 0 and t[1] <= 0 and full and \
                    all(t[i + 1] > t[i] for i in range(1, len(t) - 1)):
                continue        # witness of the recorded finding: accepted first entry below a non-positive second entry
            if w["kind"] == "bad" or len(t) < 2 or t[0] != 0 or any(t[i + 1] <= t[i] for i in range(len(t) - 1)):
                return False, "malformed waveform"
            if not full and any(w["P"][i + 1] <= w["P"][i] for i in range(len(t) - 1)):
                return False, "float resolution: the points of a pulse collapse at its start time"
            if j and w["s"] < ws[j - 1]["s"]:
                return False, "start times of a channel not sorted"
            gap = w["s"] - last
            if gap < -res:
                return False, "instructions of a channel overlap"
            if not last < w["P"][1]:
                return False, "first point of an instruction not after the previous end"
            if not full and (lo <= abs(gap) <= hi):
                return False, "gap at the resolution limit"
            last = w["P"][-1]
    if full:
        return True, ""
    steps = [w["t"][1] - w["t"][0] for ws in chans.values() for w in ws]
    if steps and not min(steps) > hi:
        return False, "a pulse step at or below 1e-12 of the total time (float resolution, recorded finding class)"
    return True, ""


def check_channel(ws, grid, coeff, res):
    """C12 for one channel, exact arithmetic on Fractions.  -> None or description of the violation."""
    g = [F(float(x)) for x in grid]
    c = [F(float(x)) for x in coeff]
    k0 = ws[0]["kind"]
    if not g or g[0] != 0:
        return "grid does not start at 0"
    for k in range(len(g) - 1):
        if not g[k] < g[k + 1]:
            return f"grid not strictly increasing at {k}: {float(g[k])!r}, {float(g[k + 1])!r}"
    if k0 == "discrete" and len(c) != len(g) - 1:
        return f"channel starting with a discrete pulse: {len(c)} coefficients for {len(g)} grid points"
    if k0 == "continuous" and len(c) != len(g):
        return f"channel starting with a continuous pulse: {len(c)} coefficients for {len(g)} grid points"
    pairs = dict(zip(g[1:], c)) if k0 == "discrete" else dict(zip(g, c))
    # every point of every instruction is there, with its coefficient
    pts = set()
    for w in ws:
        P, cf = w["P"], w["c"]
        own = [(P[i + 1], cf[i]) for i in range(len(cf))] if w["kind"] == "discrete" else [(P[i], cf[i]) for i in range(1, len(cf))]
        for x, v in own:
            pts.add(x)
            if x not in pairs:
                return f"point {float(x)!r} of an instruction is not a grid point"
            if pairs[x] != v:
                return f"coefficient at {float(x)!r} is {float(pairs[x])!r}, the instruction says {float(v)!r}"
    # every grid point is explained: a point of an instruction, or outside every window with coefficient 0
    for x, v in pairs.items():
        if x in pts:
            continue
        if any(w["P"][0] < x <= w["P"][-1] for w in ws):
            return f"grid point {float(x)!r} inside an instruction window is not one of the instruction's points"
        if v != 0:
            return f"coefficient {float(v)!r} at {float(x)!r} outside every instruction window"
    # a resolved idle gap before a discrete pulse ends at the pulse's start
    gs = set(g)
    last = F(0)
    for w in ws:
        if w["kind"] == "discrete" and w["s"] - last > res and w["s"] not in gs:
            return f"idle gap before the pulse starting at {float(w['s'])!r}: the start is not a grid point"
        last = w["P"][-1]
    # a channel of discrete pulses is a step function: its value on every slot is the scheduled one
    if all(w["kind"] == "discrete" for w in ws):
        for k in range(len(c)):
            mid = (g[k] + g[k + 1]) / 2
            exp = F(0)
            for w in ws:
                P = w["P"]
                if P[0] <= mid < P[-1]:
                    exp = w["c"][max(i for i in range(len(P)) if P[i] <= mid)]
            if c[k] != exp:
                return f"slot [{float(g[k])!r},{float(g[k + 1])!r}) has coefficient {float(c[k])!r}, the schedule says {float(exp)!r}"
    return None


def judge(chans, got, full=False, strict=False):
    """chans: label -> windows, got: label -> (grid, coeffs) or (None, None).  -> (fails, detail)"""
    empty = sorted(lab for lab, ws in chans.items() if not ws)
    chans = {lab: ws for lab, ws in chans.items() if ws}
    ok, why = hypothesis(chans, full)
    if not ok:
        return False, "not judged: " + why
    res = F(0) if strict else RES * total_time(chans)     # "strict": the witness of the resolution finding, judged without the class
    for lab, ws in chans.items():
        if lab not in got or got[lab][0] is None:
            return True, f"channel {lab} is used by the schedule but not compiled"
        d = check_channel(ws, got[lab][0], got[lab][1], res)
        if d:
            return True, f"channel {lab}: {d}"
    for lab in got:
        if lab not in chans and got[lab][0] is not None:
            return True, f"channel {lab} carries no pulse but is compiled to {list(got[lab][0])[:6]}"
    return False, "every channel is the scheduled waveform"


def gen_float_case(rng):
    """synthetic compile with non-dyadic durations: the scheduler's sums round"""
    nq = rng.randint(1, 3)
    targeted = rng.random() < 0.4          # short pulses, then one long pulse on the same channel(s)
    ng = rng.randint(2, 6)
    gates = []
    kind0 = rng.choice(["scalar", "scalar", "discrete", "continuous"])
    for j in range(ng):
        long_one = targeted and j == ng - 1
        e = rng.uniform(2.5, 4.0) if long_one else (rng.uniform(-3.5, -1.5) if targeted else rng.uniform(-3.5, 3.5))
        d = rng.uniform(1.0, 10.0) * 10.0 ** e
        if nq >= 2 and rng.random() < 0.3:
            a_, b_ = rng.sample(range(nq), 2)
            g = {"name": "CNOT", "targets": [b_], "controls": [a_]}
            labs = [f"g{min(a_, b_)}"] + ([f"x{b_}"] if rng.random() < 0.4 else [])
        else:
            q = 0 if targeted else rng.randrange(nq)
            g = {"name": rng.choice(["RX", "RY", "RZ"]), "targets": [q], "controls": None}
            labs = [f"x{q}"] + ([f"y{q}"] if rng.random() < 0.2 else [])
        kind = kind0 if rng.random() < 0.8 else rng.choice(["scalar", "discrete", "continuous"])
        if kind == "scalar":
            tl, mk = ["s", F(d)], lambda: ["s", F(rng.randint(-16, 16), 8)]
        else:
            n = rng.randint(2, 5)
            tl = ["a", [F(float(x)) for x in np.linspace(0.0, d, n + 1)]]
            if rng.random() < 0.25:            # a first entry that is rounding noise / a tiny offset, accepted by Instruction
                t0 = F(rng.choice(["1e-16", "1e-13", "1e-11", "1e-10", "1e-9", "5e-9", "1e-8"])) * rng.choice([1, -1])
                if t0 < tl[1][1]:
                    tl[1][0] = F(float(t0))
            m = n if kind == "discrete" else n + 1
            mk = lambda: ["a", [F(0) if (kind == "continuous" and i == 0) else F(rng.randint(-16, 16), 8) for i in range(m)]]
        g["tl"] = [tl[0], fs(tl[1]) if tl[0] == "s" else [fs(x) for x in tl[1]]]
        g["pulses"] = []
        for l in labs:
            c = mk()
            g["pulses"].append([l, [c[0], fs(c[1]) if c[0] == "s" else [fs(x) for x in c[1]]]])
        gates.append(g)
    return {"nq": nq, "mode": rng.choice(["ASAP", "ALAP", "ALAP", None]), "gates": gates}


# ----------------------------------------------------------------------------------------------
# shipped compilers
def shipped_case(rng):
    which = rng.choice(["spinchain-linear", "spinchain-circular", "cavityqed", "scqubits"])
    n = rng.randint(2, 3)
    shape = rng.choice(["rectangular", "rectangular", "hann", "hamming"]) if which != "scqubits" else "hann"
    ns = rng.choice([5, 8, 11])
    gates = []
    for _ in range(rng.randint(1, 5)):
        if which == "scqubits":
            nm = rng.choice(["RX", "RY", "CNOT", "RZX"] if n >= 2 else ["RX", "RY"])
        else:
            nm = rng.choice(["RX", "RZ", "ISWAP", "SQRTISWAP"])
        if nm in ("RX", "RY", "RZ"):
            gates.append([nm, [rng.randrange(n)], None, rng.choice([0.25, 0.5, 1.0, 1.5, 2.0, 3.0])])
        elif nm in ("ISWAP", "SQRTISWAP"):
            q = rng.randrange(n - 1)
            gates.append([nm, [q, q + 1], None, None])
        elif nm == "CNOT":
            q = rng.randrange(n - 1)
            t, c = rng.choice([(q, q + 1), (q + 1, q)])
            gates.append([nm, [t], [c], None])
        else:
            q = rng.randrange(n - 1)
            gates.append([nm, [q, q + 1], None, rng.choice([0.5, 1.0, 1.5])])
    return {"compiler": which, "n": n, "shape": shape, "num_samples": ns, "gates": gates,
            "mode": rng.choice([None, "ASAP", "ALAP"])}


def build_shipped(case):
    from qutip_qip.device import LinearSpinChain, CircularSpinChain, DispersiveCavityQED, SCQubits
    from qutip_qip.compiler import SpinChainCompiler, CavityQEDCompiler, SCQubitsCompiler
    from qutip_qip.operations import Gate
    n = case["n"]
    w = case["compiler"]
    if w == "spinchain-linear":
        p = LinearSpinChain(n)
        comp = SpinChainCompiler(n, p.params, setup="linear")
    elif w == "spinchain-circular":
        p = CircularSpinChain(n)
        comp = SpinChainCompiler(n, p.params, setup="circular")
    elif w == "cavityqed":
        p = DispersiveCavityQED(n)
        comp = CavityQEDCompiler(n, p.params)
    else:
        p = SCQubits(n)
        comp = SCQubitsCompiler(n, p.params)
    if w != "scqubits":
        comp.args.update({"shape": case["shape"], "num_samples": case["num_samples"]})
    else:
        comp.args.update({"num_samples": case["num_samples"]})
    gates = [Gate(nm, targets=t, controls=c, arg_value=a) for nm, t, c, a in case["gates"]]
    return comp, gates


def shipped_instructions(case):
    """the instructions the compiler emits for the gates, as exact rationals (floats are dyadic)"""
    comp, gates = build_shipped(case)
    out = []
    for g in gates:
        ins = comp.gate_compiler[g.name](g, comp.args)
        for i in (ins or []):
            tl = i.tlist
            if np.isscalar(tl):
                t = ["s", F(float(tl))]
            else:
                t = ["a", [F(float(x)) for x in tl]]
            ps = []
            for lab, cf in i.pulse_info:
                if np.isscalar(cf):
                    ps.append([lab, ["s", F(float(cf))]])
                else:
                    ps.append([lab, ["a", [F(float(x)) for x in cf]]])
            out.append({"name": g.name, "tl": t, "pulses": ps})
    return out


# ----------------------------------------------------------------------------------------------
# ----------------------------------------------------------------------------------------------
# observation point "pulses stored in the processor after load_circuit"
STORE_DEVICES = ("generic", "spinchain-linear", "spinchain-circular", "cavityqed", "scqubits")


def label_key(lab):
    """JSON-able name of a pulse label, by Python type"""
    if isinstance(lab, (bool, np.bool_)):
        return "b:" + str(lab)
    if isinstance(lab, int):
        return f"i:{lab}"
    if isinstance(lab, np.integer):
        return f"n:{int(lab)}"
    return "s:" + str(lab)


def store_label(case, fam, q):
    """the label a compiler of the given style uses for the control of family `fam` (0/1) on qubit q"""
    n, style, dev = case["n"], case["labels"], case["device"]
    if dev == "generic":
        k = fam * n + q
        return k if style == "int" else (np.int64(k) if style == "npint" else f"c{k}")
    name = ("sx", "sy" if dev == "scqubits" else "sz")[fam] + str(q)
    return fam * n + q if style == "int" else name


def build_store(case):
    """(processor, compiler, circuit) of a store case: a compiler emitting one instruction per gate on the labels of the chosen style"""
    from qutip import sigmax
    from qutip_qip.device import ModelProcessor, Model, LinearSpinChain, CircularSpinChain, DispersiveCavityQED, SCQubits
    from qutip_qip.compiler import GateCompiler, Instruction
    from qutip_qip.circuit import QubitCircuit
    n, dev = case["n"], case["device"]
    if dev == "generic":
        class GenericModel(Model):
            def __init__(self):
                super().__init__(n)
                for fam in (0, 1):
                    for q in range(n):
                        self._controls[store_label(case, fam, q)] = (2 * np.pi * sigmax(), [q])
        proc = ModelProcessor(model=GenericModel())
        proc.native_gates = None
    else:
        proc = {"spinchain-linear": LinearSpinChain, "spinchain-circular": CircularSpinChain,
                "cavityqed": DispersiveCavityQED, "scqubits": SCQubits}[dev](n)
    queue = list(case["gates"])

    class StoreCompiler(GateCompiler):
        def __init__(self):
            super().__init__(n)
            for nm in ("RX", "RY", "RZ"):
                self.gate_compiler[nm] = self.emit

        def emit(self, gate, args):
            g = queue.pop(0)
            ins = Instruction(gate, to_np(g["tl"]), [(store_label(case, fam, q), to_np(cf)) for fam, q, cf in g["pulses"]])
            EMITTED.append(ins.tlist)
            return [ins]

    qc = QubitCircuit(n)
    fam1 = "RY" if dev == "scqubits" else "RZ"
    for g in case["gates"]:
        qc.add_gate("RX" if g["pulses"][0][0] == 0 else fam1, targets=g["pulses"][0][1], arg_value=1.0)
    return proc, StoreCompiler(), qc


def run_store(case):
    """-> (status, maps, pulses, starts, perm): maps = [(key, tlist, coeff)] in the order of the returned coeff map and the
    keys of the returned tlist map; pulses = [(key, tlist, coeff)] as stored in processor.pulses"""
    gc_mod = _impl()[0]
    del EMITTED[:]
    proc, comp, qc = build_store(case)
    real = gc_mod.Scheduler
    rec = {"starts": None}

    class RecScheduler(real):
        def schedule(self, *a, **k):
            r = super().schedule(*a, **k)
            rec["starts"] = [float(x) for x in r]
            return r

    gc_mod.Scheduler = RecScheduler
    try:
        try:
            tmap, cmap = proc.load_circuit(qc, schedule_mode=case["mode"], compiler=comp)
        except Exception as e:
            return "err", type(e).__name__ + ": " + str(e)[:80], None, rec["starts"], None
    finally:
        gc_mod.Scheduler = real
    starts = rec["starts"]
    perm = [int(i) for i in np.argsort(starts)] if starts is not None else None
    maps = {"coeffs": [(lab, cmap[lab]) for lab in cmap], "tlists": [(lab, tmap[lab]) for lab in tmap]}
    pulses = [(p.label, p.tlist, p.coeff) for p in proc.pulses]
    return "ok", maps, pulses, starts, perm


def store_windows_case(case):
    """the store case in the format of the synthetic cases (labels by key), for the schedule-level oracle"""
    gates = []
    for g in case["gates"]:
        gates.append({"name": "RX", "targets": [g["pulses"][0][1]], "controls": None, "tl": g["tl"],
                      "pulses": [[label_key(store_label(case, fam, q)), cf] for fam, q, cf in g["pulses"]]})
    return {"nq": case["n"], "mode": case["mode"], "gates": gates}


def gen_store_case(rng, device=None, style=None, order=None):
    dev = device or rng.choice(STORE_DEVICES)
    n = rng.randint(2, 4) if dev != "scqubits" else rng.randint(2, 3)
    style = style or rng.choice(["int", "int", "str", "npint"] if dev == "generic" else ["int", "int", "str"])
    base = rng.randint(-6, 3)
    qs = order if order is not None else [rng.randrange(n) for _ in range(rng.randint(2, 6))]
    if order is None and rng.random() < 0.6:
        qs = sorted(set(qs), reverse=True) + qs          # channels first appear in descending order
    gates = []
    for q in qs:
        kind = rng.choice(["scalar", "scalar", "discrete", "continuous"])
        tl, cf = gen_wave(rng, kind, base + rng.randint(0, 4))
        fam = 0 if rng.random() < 0.7 else 1
        pulses = [[fam, q, cf]]
        if rng.random() < 0.2:
            c2 = ["s", F(rng.randint(-16, 16), 8)] if tl[0] == "s" else ["a", [F(rng.randint(-16, 16), 8) for _ in cf[1]]]
            pulses.append([1 - fam, rng.randrange(n), c2])
        gates.append({"tl": [tl[0], fs(tl[1]) if tl[0] == "s" else [fs(x) for x in tl[1]]],
                      "pulses": [[f_, q_, [c[0], fs(c[1]) if c[0] == "s" else [fs(x) for x in c[1]]]] for f_, q_, c in pulses]})
    return {"device": dev, "n": max(n, max(qs) + 1), "labels": style, "mode": rng.choice([None, "ASAP", "ALAP"]), "gates": gates}


def _same(a, b):
    if a is b:
        return True
    if a is None or b is None:
        return False
    a, b = np.asarray(a), np.asarray(b)
    return a.shape == b.shape and bool(np.array_equal(a, b))


def first_entry_cases(float_mode, shift):
    """sampled pulses whose time sequence starts at a tiny non-zero value inside the window Instruction accepts, directly
    followed by another instruction on the same channel (total time of order 1): exact dyadic offsets, or decimal magnitudes
    1e-16..1e-8; with `shift` (fixes/C12-6.patch) also sequences whose second entry is not positive"""
    offs = ([F(sg, 2**k) for k in (27, 28, 29, 30) for sg in (1, -1)] if not float_mode else
            [F(sg) * F(x) for x in ("1e-16", "1e-14", "1e-12", "1e-10", "1e-9", "5e-9", "1e-8") for sg in (1, -1)])
    for t0 in offs:
        for kind in ("discrete", "continuous"):
            for mode in (None, "ASAP", "ALAP"):
                tls = [[t0, F(1, 4), F(1, 2), F(3, 4), F(1)], [t0, F(1, 2), F(1)], [F(0), F(1, 8), F(1, 4)]]
                gates = []
                for tl in tls:
                    n = len(tl) - 1 if kind == "discrete" else len(tl)
                    cf = [F(0) if (kind == "continuous" and i == 0) else F(i + 1, 2) for i in range(n)]
                    gates.append({"name": "RX", "targets": [0], "controls": None, "tl": ["a", [fs(x) for x in tl]],
                                  "pulses": [["x0", ["a", [fs(x) for x in cf]]]]})
                yield {"nq": 1, "mode": mode, "gates": gates}
    if shift:
        for tl in ([F("-1e-9"), F(0), F(1)], [F(-1, 2**28), F(-1, 2**29), F(1)], [F(-1, 2**27), F(0), F(1, 2), F(1)]):
            for mode in (None, "ASAP"):
                gates = [{"name": "RX", "targets": [0], "controls": None, "tl": ["a", [fs(x) for x in tl]],
                          "pulses": [["x0", ["a", [fs(F(i + 1)) for i in range(len(tl) - 1)]]]]} for _ in range(2)]
                yield {"nq": 1, "mode": mode, "gates": gates}


def direct_input(chans):
    """[[(start, tl, cf)]] -> JSON-able input of a direct _concatenate_pulses call"""
    return {"direct": [[[fs(s), [tl[0], fs(tl[1]) if tl[0] == "s" else [fs(x) for x in tl[1]]],
                         [cf[0], fs(cf[1]) if cf[0] == "s" else [fs(x) for x in cf[1]]]] for s, tl, cf in ws] for ws in chans]}


def limit_witnesses():
    """gaps around 1e-12 of the total time on one channel and next to a longer channel (exact dyadic inputs)"""
    half, q = F(1, 2), F(3, 4)
    for L in (F(511), F(1023), F(2047), F(30000)):
        for g in (F(1, 2**28), F(1, 2**27), F(1, 2**25), F(1, 2**20)):
            yield {"kind": "direct", "input": direct_input([[(F(0), ["s", F(1)], ["s", half]), (1 + g, ["s", L], ["s", q])]])}
            yield {"kind": "direct", "input": direct_input([[(F(0), ["s", F(1)], ["s", half]), (1 + g, ["s", F(2)], ["s", q])],
                                                             [(F(0), ["s", L], ["s", q])]])}
    yield {"kind": "direct", "input": direct_input([[(F(0), ["s", F(1)], ["s", half])]])}
    yield {"kind": "direct", "input": direct_input([[(F(0), ["a", [F(0), F(1), F(2)]], ["a", [F(0), q, F(0)]])]])}


class C12(PropertyCheck):
    id = "C12"
    lean_modules = ["QipVerif.Props.C12"]
    drivers = ["drv_concat"]
    theorems = [
        # the code as read from the source, every schedule
        "QipVerif.C12.source_shape",
        "QipVerif.C12.source_constants",
        "QipVerif.C12.source_is_model",
        "QipVerif.C12.exact_schedule_is_rounded",
        "QipVerif.C12.repaired_all_schedules",
        "QipVerif.C12.compiled_source_all_schedules",
        "QipVerif.C12.closed_channel_every_schedule",
        "QipVerif.C12.discrete_channel_outside_small_gaps",
        "QipVerif.C12.no_small_gap_when_separated",
        "QipVerif.C12.source_instruction_shape",
        "QipVerif.C12.instruction_duration_is_last_time",
        "QipVerif.C12.shifted_instruction_starts_at_zero",
        "QipVerif.C12.first_grid_time_counts_as_zero",
        "QipVerif.C12.first_entry_counterexample",
        "QipVerif.C12.compile_source_channels",
        "QipVerif.C12.compile_source_end_to_end",
        "QipVerif.C12.compile_source_channels_scalar",
        "QipVerif.C12.compile_source_end_to_end_scalar",
        "QipVerif.C12.stored_pulses_are_compiled_maps",
        "QipVerif.C12.tolerance_counterexample",
        "QipVerif.C12.maxstart_rounding_counterexample",
        # repaired gap test, gaps 0 or above the tolerance
        "QipVerif.C12.gap_repaired_concatenate",
        "QipVerif.C12.closed_channel_is_schedule",
        "QipVerif.C12.repaired_concatenate_agrees",
        "QipVerif.C12.schedule_unscheduled",
        "QipVerif.C12.schedule_scheduled",
        # the code before the repairs (scale hypothesis Sep) and its counter-examples
        "QipVerif.C12.concatenate_channels",
        "QipVerif.C12.grid_starts_at_zero_and_increases",
        "QipVerif.C12.coefficient_length_fits",
        "QipVerif.C12.discrete_channel_is_schedule",
        "QipVerif.C12.continuous_channel_is_schedule",
        "QipVerif.C12.every_channel_points_are_schedule",
        "QipVerif.C12.compile_channels",
        "QipVerif.C12.idle_only_counterexample",
        "QipVerif.C12.scale_counterexample",
        "QipVerif.C12.gap_counterexample",
    ]
    technique = ("Lean 4 proof (the channel loop refines a closed-form list function, induction over the instruction list, exact "
                 "rationals) about a model whose constants, comparison operators, operands, end points and slices are regenerated "
                 "from the source with ast + exact model/implementation correspondence + the property evaluated on the real code")
    level_text = (
        "Headline (the code as it is in the tree; Gen/ConcatSrc.lean is the ast-read description of _process_gate_pulse, "
        "_process_idling_tlist, _concatenate_pulses, compile; source_shape / source_constants / source_is_model are decided on it, "
        "so an edited constant or operator changes the Lean definition and breaks these theorems).  For EVERY list of channels, "
        "every number of instructions, any mix of scalar / discrete / continuous pulses, idle gaps of ANY size and durations of ANY "
        "relative magnitude, under the only hypothesis ChainR thr 0 (waves well formed with positive duration; start times of a "
        "channel sorted -- proved for _schedule; every start at most thr = time_tol = 1e-12*(largest end time) before the end of "
        "the previous instruction, i.e. non-overlapping up to the scheduler's rounding, thr = 0 allowed; first point of every "
        "instruction after that end): compiled_source_all_schedules -- _concatenate_pulses succeeds and every channel is the closed "
        "form closedChannelT (first-pulse chunk, per instruction an idle stretch exactly when start - previous end > time_tol, the "
        "instruction's points start + tlist[1:], final padding to the common end time with the global min_step_size and the padding "
        "mode of the last pulse processed; padding test > min_step_size*1e-6); closed_channel_every_schedule -- that closed form has "
        "a grid starting at 0 and strictly increasing, a coefficient array fitting the grid for the kind of the channel's first pulse, "
        "every (grid point, coefficient) pair is explained by the schedule (inside a window (s, s+dur] it is a point of that "
        "instruction with its coefficient, outside all windows the coefficient is 0) and every point of every instruction is present; "
        "discrete_channel_outside_small_gaps -- for channels of scalar/discrete pulses on an exactly non-overlapping schedule the "
        "step function of the compiled arrays equals the scheduled function (waveform inside each window, 0 elsewhere) at every time "
        "t outside the idle gaps of length <= time_tol; no_small_gap_when_separated -- if every gap is 0 or > time_tol there is no "
        "exception and the statement holds at every t (closed_channel_is_schedule).  The exception is real and minimal: "
        "tolerance_counterexample (gap 2^-40 after [0,1): the next coefficient is applied from t = 1 on) -- the tolerance is the "
        "resolution of the schedule (class of the recorded float-resolution finding).  maxstart_rounding_counterexample: with "
        "time_tol relative to the largest START time (code before fixes/C12-5.patch) a start returned as 1 - 1e-10 before a pulse of "
        "length 1e4 makes the grid go backwards; relative to the largest END time the schedule is a rounded chain.  "
        "compile_source_channels / compile_source_end_to_end / schedule_unscheduled / schedule_scheduled: compile drops zero-duration instructions, keeps every "
        "(instruction, start) pair, sorts the starts and puts exactly the pulses labelled l on channel l.  "
        "Instructions: source_instruction_shape / instruction_duration_is_last_time -- Instruction.__init__ (read with ast) refuses "
        "abs(tlist[0]) > 1e-8 and stores duration = tlist[-1], also when tlist[0] is not 0; first_grid_time_counts_as_zero -- without the "
        "shift _process_gate_pulse reads an accepted first entry only for the step size (it counts as 0); "
        "shifted_instruction_starts_at_zero -- with fixes/C12-6.patch the stored sequence starts at exactly 0 (the head clause of WaveOK "
        "then holds for every accepted instruction); first_entry_counterexample -- [-1e-9, 0, 1] is laid out as [0, 0, 1] without the "
        "shift.  "
        "Processor state: stored_pulses_are_compiled_maps -- ModelProcessor.load_circuit (set_coeffs then set_tlist, Model/PulseStore.lean) "
        "leaves one pulse per label of the returned maps, in the order of coeff_map, each holding tlist_map[label] and coeff_map[label], "
        "for any labels (str, int, numpy integer) in any order of first appearance; so the statements about the returned maps are "
        "statements about processor.pulses.  "
        "Older code (kept as theorems about the model variants byTol / Sep): concatenate_channels ... every_channel_points_are_schedule "
        "under the scale hypothesis Sep, refuted without it by scale_counterexample, gap_counterexample, idle_only_counterexample.  "
        "The model the driver runs (concatenateS Gen.concatSrc) is tied to GateCompiler.compile / _concatenate_pulses / "
        "_process_gate_pulse / _process_idling_tlist by an exact correspondence on dyadic inputs spanning 2^-30..2^20, including "
        "families at the tolerance limits, and to the spin-chain, cavity-QED and SC-qubit compilers to 1e-9.")
    level_note = (
        "Proved for every schedule under ChainR alone; the only exception set is explicit (idle gaps of length in (0, time_tol], "
        "time_tol = 1e-12 of the total time): there the property is false (tolerance_counterexample) -- resolution limit, recorded "
        "finding class.  The discrete step-function theorem is for exactly non-overlapping schedules; for start times carrying "
        "rounding the structural and point-level clauses are proved (windows then overlap by the rounding and a function-level "
        "specification is not defined).  Continuous pulses are judged at their sample points (the cubic spline through them is "
        "runtime numerics); the code drops each continuous pulse's first sample (documented convention: it is 0).  The scheduler "
        "(start times) is C11's model: the start times the real Scheduler returns and the permutation np.argsort returns are inputs.  "
        "Float arithmetic: the model is exact; the code's float sums are exact on the dyadic stream, the products step*1e-6 / "
        "1e-12*T are probed with tolerances scaled by 1+-2^-20 (differing cases skipped and counted).")
    trusted_base = [
        "Lean 4.33 kernel; axioms propext, Classical.choice, Quot.sound",
        "py/props/c12.py:read_source (ast translator: every statement of the three functions is either turned into a field of "
        "Gen/ConcatSrc.lean or must equal the expected statement; TranslatorError otherwise) -- validated on every run by the "
        "exact correspondence of the regenerated model with the code",
        "np.linspace(a,b,n) = a + i(b-a)/(n-1), np.arange(a,stop,step) = a + i*step for i < ceil((stop-a)/step), np.max(x, initial=0), "
        "np.argsort returns a sorting permutation (taken from the run), np.concatenate (validated by the correspondence)",
        "float arithmetic of the code is exact on the dyadic stream (multiples of 2^-30 below 2^23); tolerance products vs the "
        "rational constants: cases whose outcome changes when the constants are scaled by 1+-2^-20 are skipped",
        "Scheduler.schedule (C11) supplies the start times",
        "Processor.set_coeffs / set_tlist / get_pulse_dict / add_pulse / clear_pulses and the end of load_circuit are the statements "
        "Model/PulseStore.lean models (checked with ast on every run, TranslatorError otherwise) and agree with it pulse by pulse on "
        "every store case; Model.get_control and the Pulse constructor keep label and arrays (compared by identity / equality)",
        "py/props/c12.py (harness; oracle on exact Fractions, independent of the model and of the regenerated description)",
    ]
    assumptions = [
        "resolution class (not judged by the oracle, excluded explicitly by the theorems' exception set SmallGap / hypothesis ChainR): "
        "idle gaps and pulse steps of at most 1e-12 of the total time of the schedule; beyond that double precision collapses "
        "(recorded finding: step 2^-30 at t = 2^21)",
        "instructions of one channel do not overlap by more than the scheduler's rounding (C11's no-overlap clause is decided "
        "separately; overlapping schedules are outside ChainR)",
        "continuous pulses: sample level (no statement about the interpolation between samples)",
        "a sampled time sequence starts at 0 (WaveOK); Instruction accepts |tlist[0]| <= 1e-8: the oracle counts such an entry as the "
        "start (the code's convention, first_grid_time_counts_as_zero); sequences whose second entry is then not positive are the "
        "recorded finding fixed by fixes/C12-6.patch (with it every accepted sequence is shifted to start at 0)",
    ]
    rule = ("case = (gate list with one synthetic instruction per gate: scalar / discrete / continuous waveform, dyadic times "
            "m*2^e, e in [-30,17]; schedule mode None/ASAP/ALAP) compiled by GateCompiler.compile and by the regenerated model fed "
            "with the start times the real Scheduler returned; non-trivial = at least one channel with two instructions or an idle gap; "
            "direct _concatenate_pulses calls (also at the tolerance limits), malformed inputs, unit calls, shipped compilers and "
            "the processor state after load_circuit (label styles x orders of first appearance x devices) are counted with their own tags")

    def __init__(self):
        self.desc = None

    def regenerate(self, ctx):
        gen = os.path.join(paths.LEAN, "QipVerif", "Gen", "ConcatSrc.lean")

        def put(desc):
            text = render_gen(desc)
            if not os.path.exists(gen) or open(gen).read() != text:
                with open(gen, "w") as f:
                    f.write(text)
                return [gen]
            return []

        self.desc = None
        try:
            self.desc = read_source()
        except TranslatorError:
            # the source is not of a recognised shape: the model falls back to the shape the theorems are about (never to a
            # stale description), the correspondence then shows where the code differs
            self.desc = standard_desc()
            put(self.desc)
            raise
        ctx.log(f"source of {paths.REPO}: {describe(self.desc)}")
        out = put(self.desc)
        read_store()            # Processor.set_coeffs / set_tlist / get_pulse_dict as modelled (TranslatorError otherwise)
        return out

    def _desc(self):
        if self.desc is None:
            try:
                self.desc = read_source()
            except TranslatorError:
                self.desc = standard_desc()
        return self.desc

    # -----------------------------------------------------------------------------------------
    def _model_compile(self, ctx, case, starts, perm):
        lines, id2lab = [], None
        for k in PROBE:
            l, id2lab = case_instr_lines(case, starts, perm, k)
            lines.append(l)
        outs = ctx.driver("drv_concat").run(lines)
        tight = not (outs[0] == outs[1] == outs[2])
        return parse_compile_out(outs[0], id2lab), tight

    def _compare_synth(self, ctx, res, case, tags):
        st, payload, starts, perm = run_compile_impl(case)
        dz = self._desc()["cat"]["dropZero"]
        n_instr = sum(1 for g in case["gates"] if g["name"] != "GLOBALPHASE" and not (dz and _gate_duration(g) == 0))
        if n_instr == 0:
            res.case(case, nontrivial=False, tags=list(tags) + ["no-instruction"])
            if st != "none":
                res.disagree(case, "none", [st, str(payload)[:200]], "compile of a list without instruction", {"kind": "synthetic", "case": case})
            return
        if case["mode"] and starts is None:
            res.case(case, nontrivial=False, tags=list(tags) + ["scheduler-raised"])
            res.disagree(case, "-", [st, str(payload)[:200]], "the scheduler raised on a valid gate list", {"kind": "synthetic", "case": case})
            return
        (mst, mpayload), tight = self._model_compile(ctx, case, starts, perm)
        try:
            chans = windows_of(ordered_instr(effective_case(case), starts, perm))
        except Exception:
            chans = {}
        if any(g.get("tl", ["s"])[0] == "a" and g["tl"][1] and F(g["tl"][1][0]) != 0 for g in case["gates"]):
            tags = list(tags) + ["first-entry-nonzero"]
        nontriv = any(len(ws) >= 2 or (ws and ws[0]["s"] > 0) for ws in chans.values())
        kinds = sorted({w["kind"] for ws in chans.values() for w in ws})
        tg = list(tags) + [f"mode={case['mode']}", f"result={mst}"] + [f"kind={k}" for k in kinds]
        if any(len({w["kind"] for w in ws}) > 1 for ws in chans.values()):
            tg.append("mixed-channel")
        if tight:
            res.case(case, nontrivial=False, tags=tg + ["tight-skipped"])
            return
        res.case(case, nontrivial=nontriv, tags=tg)
        w = {"kind": "synthetic", "case": case}
        if mst != st:
            res.disagree(case, [mst, str(mpayload)[:200]], [st, str(payload)[:200]], "verdict of compile", w)
            return
        if st == "err" and mpayload != payload:
            res.disagree(case, mpayload, payload, "error kind of compile", w)
        elif st == "ok":
            d = compare_channels(mpayload, payload)
            if d:
                res.disagree(case, "model", "impl", d, w)

    def _direct(self, ctx, res, n, malformed):
        """_concatenate_pulses called directly with hand-made per-channel instruction lists"""
        rng = ctx.rng
        for _ in range(n):
            nch = rng.randint(0 if malformed else 1, 3)
            chans = []
            base = rng.randint(-28, 10)
            for _c in range(nch):
                kind = rng.choice(["scalar", "discrete", "continuous"])
                ws, t = [], F(0)
                for _i in range(rng.randint(0 if malformed else 1, 4)):
                    k = kind if rng.random() < 0.9 else rng.choice(["scalar", "discrete", "continuous"])
                    e = rng.randint(-30, 17) if rng.random() < 0.4 else base + rng.randint(0, 3)
                    tl, cf = gen_wave(rng, k, e, conv=False)
                    if rng.random() < 0.5:
                        t += dy(rng, rng.randint(-30, 17) if rng.random() < 0.4 else base + rng.randint(-2, 3))
                    s = t
                    if malformed:
                        m = rng.random()
                        if m < 0.15 and tl[0] == "a":
                            cf = ["a", cf[1] + [F(1)] * rng.randint(1, 2)]        # wrong shape
                        elif m < 0.3 and tl[0] == "a":
                            tl = ["a", tl[1][:1]]; cf = ["a", cf[1][:rng.randint(0, 1)]]   # too short
                        elif m < 0.45 and tl[0] == "a":
                            tl = ["a", [tl[1][0]] + tl[1]]                          # zero step
                            cf = ["a", [F(1)] + cf[1]]
                        elif m < 0.6:
                            s = t - dy(rng, e)                                      # overlap / negative gap
                        elif m < 0.7 and tl[0] == "s":
                            tl = ["s", F(0)]                                        # zero duration
                    ws.append((s, tl, cf))
                    t = s + (F(tl[1]) if tl[0] == "s" else (F(tl[1][-1]) if tl[1] else F(0)))
                chans.append(ws)
            self._compare_direct(ctx, res, direct_input(chans), ["direct-malformed" if malformed else "direct"])

    def _limits(self, ctx, res):
        """direct calls at the limits of the two tolerances: idle gaps of 2^-31..2^-27 of the total time (1e-12 = 2^-39.86 lies
        between 2^-30/2^10 and 2^-29/2^10), on the long channel and on a short channel next to a long one; channel ends that
        differ from the final time by 2^-21..2^-18 of the smallest step (1e-6 = 2^-19.93), discrete and continuous padding"""
        half, q = F(1, 2), F(3, 4)
        for L in (F(511), F(1023), F(2047), F(1000), F(300)):
            for g in (F(1, 2**30), F(1, 2**29), F(1, 2**28), F(3, 2**30)):
                for kind in ("s", "d", "c"):
                    if kind == "s":
                        long_ = (["s", L], ["s", q])
                    elif kind == "d":
                        long_ = (["a", [F(0), L / 2, L]], ["a", [q, -q]])
                    else:
                        long_ = (["a", [F(0), L / 2, L]], ["a", [F(0), q, F(0)]])
                    one = [(F(0), ["s", F(1)], ["s", half]), (1 + g, long_[0], long_[1])]
                    self._compare_direct(ctx, res, direct_input([one]), ["direct-limit", "limit=gap"])
                    two = [[(F(0), ["s", F(1)], ["s", half]), (1 + g, ["s", F(2)], ["s", q])], [(F(0), long_[0], long_[1])]]
                    self._compare_direct(ctx, res, direct_input(two), ["direct-limit", "limit=gap-other-channel"])
        for ms in (F(1, 2**8), F(1, 2**5)):
            for d in (ms / 2**21, ms / 2**20, ms / 2**19, ms / 2**18, ms * 2, ms * 5):
                for lastkind in ("s", "c"):
                    a_ = [(F(0), ["s", F(4)], ["s", half])]
                    b_ = [(F(0), ["s", ms], ["s", q]), (ms, ["s", 4 + d - ms], ["s", half])]
                    c_ = [(F(0), ["s", F(1)], ["s", q])] if lastkind == "s" else \
                         [(F(0), ["a", [F(0), F(1, 2), F(1)]], ["a", [F(0), q, F(0)]])]
                    self._compare_direct(ctx, res, direct_input([a_, b_, c_]), ["direct-limit", "limit=padding"])

    def _direct_lines(self, inp, scale):
        chs = []
        for ws in inp["direct"]:
            if not ws:
                chs.append("-")
            else:
                chs.append(";".join(f"{fs(s)}@{wave_str(tl, cf)}" for s, tl, cf in ws))
        line = f"concat scale={fs(scale)}"
        if chs:
            line += " chans=" + "!".join(chs)
        return line

    def _run_direct_impl(self, inp):
        GateCompiler = _impl()[1]
        pi = [[(float(F(s)), to_np(tl), to_np(cf)) for s, tl, cf in ws] for ws in inp["direct"]]
        try:
            tl, cf = GateCompiler(1)._concatenate_pulses(pi, None, len(pi))
        except Exception as e:
            return "err", classify_exc(e)
        return "ok", [(i, None, None) if tl[i] is None else
                      (i, [float(x) for x in tl[i]], [float(x) for x in np.asarray(cf[i]).ravel()]) for i in range(len(pi))]

    def _compare_direct(self, ctx, res, inp, tags):
        lines = [self._direct_lines(inp, k) for k in PROBE]
        outs = ctx.driver("drv_concat").run(lines)
        if not (outs[0] == outs[1] == outs[2]):
            res.case(inp, nontrivial=False, tags=tags + ["tight-skipped"])
            return
        st, payload = self._run_direct_impl(inp)
        o = outs[0]
        res.case(inp, nontrivial=any(len(ws) >= 2 for ws in inp["direct"]),
                 tags=tags + ["result=" + (o.split()[1] if o.startswith("err") else "ok")])
        w = {"kind": "direct", "input": inp}
        if o.startswith("err "):
            if st != "err" or payload != o[4:]:
                res.disagree(inp, o, [st, str(payload)[:200]], "verdict of _concatenate_pulses", w)
            return
        if st != "ok":
            res.disagree(inp, o[:200], [st, payload], "verdict of _concatenate_pulses", w)
            return
        model = []
        body = o[3:]
        for i, ch in enumerate(body.split("!") if body else []):
            if ch == "~":
                model.append((i, None, None))
                continue
            tl, cs = ch.split(":")
            model.append((i, pfl(tl), pfl(cs)))
        d = compare_channels(model, payload)
        if d:
            res.disagree(inp, "model", "impl", d, w)

    def _compare_store(self, ctx, res, case, tags):
        """the pulses the processor holds after load_circuit against Model/PulseStore.lean (positions, labels, which grid and which
        coefficient array of the returned maps each pulse carries)"""
        w = {"kind": "store", "case": case}
        st, maps, pulses, starts, perm = run_store(case)
        tg = list(tags) + ["store=" + case["device"], "labels=" + case["labels"], f"mode={case['mode']}"]
        if st != "ok":
            res.case(case, nontrivial=False, tags=tg + ["result=err"])
            res.disagree(case, "ok", maps, "load_circuit raised on a valid circuit", w)
            return
        ids = {}
        for lab, _x in maps["coeffs"] + maps["tlists"]:
            ids.setdefault(label_key(lab), len(ids))
        cl = [ids[label_key(lab)] for lab, _x in maps["coeffs"]]
        tl = [ids[label_key(lab)] for lab, _x in maps["tlists"]]
        line = f"store coeffs={','.join(map(str, cl)) or '-'} tlists={','.join(map(str, tl)) or '-'}"
        o = ctx.driver("drv_concat").run([line])[0]
        order = [label_key(lab) for lab, _x in maps["coeffs"]]
        desc = order != sorted(order, key=lambda k: (len(k), k))
        res.case(case, nontrivial=len(cl) >= 2, tags=tg + (["non-ascending-channels"] if desc else []))
        if not o.startswith("ok"):
            res.disagree(case, o, "ok", "model refuses what load_circuit stored", w)
            return
        model = [x.split(":") for x in o[3:].split("!")] if o[3:] else []
        if len(model) != len(pulses):
            res.disagree(case, o, len(pulses), "number of pulses in the processor", w)
            return
        for k, ((ml, mt, mc), (lab, ptl, pco)) in enumerate(zip(model, pulses)):
            if ids.get(label_key(lab)) != int(ml):
                res.disagree(case, o, label_key(lab), f"label of pulse {k}", w)
                return
            if not _same(pco, maps["coeffs"][int(mc)][1]):
                res.disagree(case, o, None, f"pulse {k} ({label_key(lab)}) does not carry coefficient array {mc} of the returned map", w)
                return
            if (mt == "~") != (ptl is None) or (mt != "~" and not _same(ptl, maps["tlists"][int(mt)][1])):
                res.disagree(case, o, None if ptl is None else [float(x) for x in np.atleast_1d(ptl)][:8],
                             f"pulse {k} ({label_key(lab)}) does not carry time grid {mt} of the returned map", w)
                return

    def _store(self, ctx, res, n):
        rng = ctx.rng
        # deterministic: every order of first appearance of three channels, every label style, generic processor and spin chain
        for order in itertools.permutations(range(3)):
            for dev, styles in (("generic", ("int", "npint", "str")), ("spinchain-linear", ("int", "str"))):
                for style in styles:
                    r2 = __import__("random").Random(__import__("zlib").crc32(repr((order, dev, style)).encode()))
                    case = gen_store_case(r2, device=dev, style=style, order=list(order))
                    for mode in (None, "ASAP"):
                        self._compare_store(ctx, res, dict(case, mode=mode), ["store-family=orders"])
        for _ in range(n):
            self._compare_store(ctx, res, gen_store_case(rng), ["store"])

    def _units(self, ctx, res, n):
        """_process_gate_pulse and _process_idling_tlist on their own"""
        rng = ctx.rng
        GateCompiler = _impl()[1]
        gcmp = GateCompiler(1)
        lines, cases = [], []
        for _ in range(n):
            if rng.random() < 0.5:
                kind = rng.choice(["scalar", "discrete", "continuous"])
                tl, cf = gen_wave(rng, kind, rng.randint(-30, 17), conv=False)
                if tl[0] == "a" and rng.random() < 0.3:
                    cf = ["a", cf[1][:rng.randint(0, len(cf[1]))] + [F(1)] * rng.randint(0, 2)]
                if tl[0] == "a" and rng.random() < 0.15:
                    tl = ["a", tl[1][:rng.randint(0, 1)]]
                    cf = ["a", cf[1][:rng.randint(0, 1)]]
                lines.append("proc w=" + wave_str(tl, cf))
                cases.append(("proc", tl, cf))
            else:
                e = rng.randint(-30, 17)
                step = dy(rng, e)
                last = dy(rng, rng.randint(-30, 17)) if rng.random() < 0.8 else F(0)
                gap = rng.choice([step * rng.randint(0, 6), dy(rng, rng.randint(-30, 17)), step * 3, step * 3 + F(1, 2**30)])
                m = rng.choice("dc")
                lines.append(f"idle mode={m} start={fs(last + gap)} last={fs(last)} step={fs(step)}")
                cases.append(("idle", m, last + gap, last, step))
        outs = ctx.driver("drv_concat").run(lines)
        for cs, o, line in zip(cases, outs, lines):
            inp = {"unit": line}
            res.case(inp, nontrivial=True, tags=["unit=" + cs[0]])
            w = {"kind": "unit", "line": line}
            try:
                if cs[0] == "proc":
                    gt, cf, step, mode = gcmp._process_gate_pulse(0.0, to_np(cs[1]), to_np(cs[2]))
                    impl = ("ok", mode[0], step, list(np.atleast_1d(gt)), list(np.atleast_1d(cf)))
                else:
                    r = gcmp._process_idling_tlist({"d": "discrete", "c": "continuous"}[cs[1]], float(cs[2]), float(cs[3]), float(cs[4]))
                    impl = ("ok", list(r))
            except Exception as e:
                impl = ("err", classify_exc(e))
            if o.startswith("err "):
                if impl != ("err", o[4:]):
                    res.disagree(inp, o, str(impl)[:200], "unit verdict", w)
                continue
            if impl[0] != "ok":
                res.disagree(inp, o[:200], str(impl), "unit verdict", w)
                continue
            f = o.split(" ")
            if cs[0] == "proc":
                ok = (f[1] == impl[1] and close(impl[2], pf(f[2])) and len(pfl(f[3])) == len(impl[3]) and
                      all(close(a, b) for a, b in zip(impl[3], pfl(f[3]))) and len(pfl(f[4]) if len(f) > 4 else []) == len(impl[4])
                      and all(close(a, b) for a, b in zip(impl[4], pfl(f[4]) if len(f) > 4 else [])))
            else:
                m = pfl(f[1]) if len(f) > 1 else []
                ok = len(m) == len(impl[1]) and all(close(a, b) for a, b in zip(impl[1], m))
            if not ok:
                res.disagree(inp, o[:300], str(impl)[:300], "unit output", w)

    def _shipped(self, ctx, res, n):
        for _ in range(n):
            self._compare_shipped(ctx, res, shipped_case(ctx.rng))

    def _compare_shipped(self, ctx, res, case):
        w = {"kind": "shipped", "case": case}
        try:
            instrs = shipped_instructions(case)
            comp, gates = build_shipped(case)
        except Exception as e:
            res.case(case, nontrivial=False, tags=["shipped-build-error"])
            res.disagree(case, "-", repr(e)[:200], "shipped compiler could not be driven", w)
            return
        st, payload, starts, perm = run_compile_real(comp, gates, case["mode"])
        mcase = {"nq": case["n"], "mode": case["mode"], "gates": instrs}
        lines = []
        for k in PROBE:
            l, id2lab = case_instr_lines(mcase, starts, perm, k)
            lines.append(l)
        outs = ctx.driver("drv_concat").run(lines)
        tags = ["shipped=" + case["compiler"], "shape=" + case["shape"], f"mode={case['mode']}"]
        if not (outs[0] == outs[1] == outs[2]):
            res.case(case, nontrivial=False, tags=tags + ["tight-skipped"])
            return
        mst, mpayload = parse_compile_out(outs[0], id2lab)
        res.case(case, nontrivial=len(case["gates"]) >= 2, tags=tags + ["result=" + mst])
        if mst != st:
            res.disagree(case, [mst, str(mpayload)[:200]], [st, str(payload)[:200]], "verdict of compile (shipped compiler)", w)
        elif st == "err" and mpayload != payload:
            res.disagree(case, mpayload, payload, "error kind (shipped compiler)", w)
        elif st == "ok":
            scale = max([1.0] + [abs(x) for _l, tl, _c in payload if tl is not None for x in tl])
            d = compare_channels(mpayload, payload, exact=False, scale=scale)
            if d:
                res.disagree(case, "model", "impl", d, w)

    def correspondence(self, ctx, res):
        rng = ctx.rng
        k = 6 if ctx.thorough else 1
        # deterministic small family first: two instructions on one channel, every pair of kinds,
        # step ratios 2^-30 .. 2^30, with and without a gap, three modes
        for k1, k2 in itertools.product(["scalar", "discrete", "continuous"], repeat=2):
            for e1, e2 in [(0, 0), (-30, 14), (14, -30), (-10, 10), (3, -17), (0, 15)]:
                for gap in (False, True):
                    for mode in (None, "ASAP", "ALAP"):
                        r2 = __import__("random").Random(__import__("zlib").crc32(repr((k1, k2, e1, e2, gap)).encode()))
                        tl1, cf1 = gen_wave(r2, k1, e1)
                        tl2, cf2 = gen_wave(r2, k2, e2)
                        gates = [{"name": "RX", "targets": [0], "controls": None, "tl": tl1, "pulses": [["x0", cf1]]}]
                        if gap:
                            gates.append({"name": "IDLE", "targets": [0], "t": fs(dy(r2, min(e1, e2) + 1))})
                        gates.append({"name": "RX", "targets": [0], "controls": None, "tl": tl2, "pulses": [["x0", cf2]]})
                        for g in gates:
                            if "tl" in g:
                                g["tl"] = [g["tl"][0], fs(g["tl"][1]) if g["tl"][0] == "s" else [fs(x) for x in g["tl"][1]]]
                                g["pulses"] = [[l, [c[0], fs(c[1]) if c[0] == "s" else [fs(x) for x in c[1]]]] for l, c in g["pulses"]]
                        self._compare_synth(ctx, res, {"nq": 1, "mode": mode, "gates": gates}, ["family=pairs"])
        res.notes.append("deterministic family: all 9 pairs of pulse kinds x 6 step-ratio pairs (2^-30..2^15) x gap/no gap x 3 modes on one channel")
        self._limits(ctx, res)
        for case in first_entry_cases(False, self._desc()["instr"]["shift"]):
            self._compare_synth(ctx, res, case, ["family=first-entry"])
        for t0 in (F(1, 2**26), F(-1, 2**26), F(1, 2**20)):          # outside the window: Instruction refuses
            g = {"name": "RX", "targets": [0], "controls": None, "tl": ["a", [fs(t0), "1/2", "1"]], "pulses": [["x0", ["a", ["1", "2"]]]]}
            self._compare_synth(ctx, res, {"nq": 1, "mode": None, "gates": [g]}, ["family=first-entry", "refused"])
        res.notes.append("deterministic family: time sequences starting at +-2^-27..2^-30 (inside the window |tlist[0]| <= 1e-8 of "
                         "Instruction) on discrete and continuous pulses followed back-to-back by further instructions, three modes; "
                         "+-2^-26 and 2^-20 (refused)")
        res.notes.append("deterministic family at the tolerance limits: idle gaps of 2^-31..2^-27 of the total time (same channel / "
                         "another channel is the long one), channel ends 2^-21..2^-18 of the smallest step before the final time")
        for i in range(500 * k):
            self._compare_synth(ctx, res, gen_case(rng, wild=(i % 2 == 0)), ["synthetic", "wild" if i % 2 == 0 else "comparable"])
        self._direct(ctx, res, 300 * k, malformed=False)
        self._direct(ctx, res, 300 * k, malformed=True)
        self._units(ctx, res, 600 * k)
        self._shipped(ctx, res, 60 * k)
        self._store(ctx, res, 150 * k)
        res.notes.append("processor state after load_circuit: all 6 orders of first appearance of three channels x label styles "
                         "(int / numpy integer / str) x generic ModelProcessor and spin chain, then random circuits on the generic "
                         "processor and the four shipped devices; compared with Model/PulseStore.lean pulse by pulse")
        res.notes.append(f"source as read: {describe(self._desc())}; the model uses the decimal constants exactly; cases whose "
                         "outcome changes when the tolerance constants are scaled by 1+-2^-20 are skipped (tag tight-skipped)")

    # -----------------------------------------------------------------------------------------
    def oracle_replay(self, ctx, w):
        full = bool(w.get("full"))
        if w["kind"] == "synthetic":
            case = w["case"]
            st, payload, starts, perm = run_compile_impl(case)
            try:
                ecase = effective_case(case)
            except ValueError:
                raw = [F(g["tl"][1][0]) for g in case["gates"] if "tl" in g and g["tl"][0] == "a" and g["tl"][1]]
                if any(abs(x) > T0_WINDOW for x in raw):
                    return False, "not judged: a time sequence starts outside the window Instruction accepts"
                return True, f"an instruction could not be constructed: compile raised {payload}"
            try:
                chans = windows_of(ordered_instr(ecase, starts, perm))
            except Exception as e:
                return False, "not judged: could not reconstruct the schedule: " + repr(e)
            if not any(chans.values()):
                if st == "err":
                    return True, f"compile raised {payload} for a gate list without any pulse"
                return False, "no control pulse"
            ok, why = hypothesis({l: ws for l, ws in chans.items() if ws}, full)
            if not ok:
                return False, "not judged: " + why
            if st != "ok":
                return True, f"compile raised {payload} for a valid schedule"
            return judge(chans, {lab: (tl, cf) for lab, tl, cf in payload}, full, bool(w.get("strict")))
        if w["kind"] == "direct":
            inp = w["input"]
            chans = {i: [window(s, tl, cf) for s, tl, cf in ws if not (tl[0] == "s" and F(tl[1]) == 0)]
                     for i, ws in enumerate(inp["direct"])}
            if any(len(ws) != len(inp["direct"][i]) for i, ws in chans.items()):
                return False, "not judged: zero-duration instruction handed to _concatenate_pulses (compile drops them)"
            if not any(chans.values()):
                return False, "no control pulse"
            ok, why = hypothesis({l: ws for l, ws in chans.items() if ws}, full)
            if not ok:
                return False, "not judged: " + why
            st, payload = self._run_direct_impl(inp)
            if st != "ok":
                return True, f"_concatenate_pulses raised {payload} for a valid schedule"
            return judge(chans, {i: (tl, cf) for i, tl, cf in payload}, full, bool(w.get("strict")))
        if w["kind"] == "shipped":
            case = w["case"]
            instrs = shipped_instructions(case)
            comp, gates = build_shipped(case)
            st, payload, starts, perm = run_compile_real(comp, gates, case["mode"])
            if st == "err":
                return True, f"{case['compiler']} compiler (shape {case['shape']}): compile raised {payload}"
            mcase = {"nq": case["n"], "mode": case["mode"], "gates": instrs}
            chans = windows_of(ordered_instr(mcase, starts, perm))
            if st == "none" or not any(chans.values()):
                return (True, "compile returned nothing for a gate list with pulses") if any(chans.values()) else (False, "no control pulse")
            return judge(chans, {lab: (tl, cf) for lab, tl, cf in payload}, full)
        if w["kind"] == "store":
            case = w["case"]
            st, maps, pulses, starts, perm = run_store(case)
            if st != "ok":
                return True, f"load_circuit raised {maps}"
            tmap = {label_key(l): x for l, x in maps["tlists"]}
            cmap = {label_key(l): x for l, x in maps["coeffs"]}
            held = {}
            for lab, ptl, pco in pulses:
                k = label_key(lab)
                if k in held:
                    return True, f"two pulses of the processor carry the label {k}"
                held[k] = (ptl, pco)
            if set(held) != set(cmap):
                return True, f"the processor holds pulses {sorted(held)}, compile returned the channels {sorted(cmap)}"
            for k, (ptl, pco) in held.items():
                if not _same(pco, cmap[k]):
                    return True, f"processor pulse {k}: coefficients {np.asarray(pco).tolist()[:6]}, compile returned {np.asarray(cmap[k]).tolist()[:6]}"
                if not _same(ptl, tmap.get(k)):
                    return True, (f"processor pulse {k}: time grid {None if ptl is None else np.asarray(ptl).tolist()[:6]}, compile "
                                  f"returned {None if tmap.get(k) is None else np.asarray(tmap[k]).tolist()[:6]} for that label")
            # and the stored pulses are the scheduled waveforms
            try:
                mcase = effective_case(store_windows_case(case))
                chans = windows_of(ordered_instr(mcase, starts, perm))
            except Exception as e:
                return False, "not judged: could not reconstruct the schedule: " + repr(e)
            got = {k: ((None, None) if v[0] is None else ([float(x) for x in v[0]], [float(x) for x in np.asarray(v[1]).ravel()]))
                   for k, v in held.items()}
            return judge(chans, got, full)
        if w["kind"] == "zero-duration":
            from qutip_qip.device import LinearSpinChain
            from qutip_qip.circuit import QubitCircuit
            p = LinearSpinChain(2)
            qc = QubitCircuit(2)
            qc.add_gate("RX", 0, arg_value=0.0)
            qc.add_gate("RX", 1, arg_value=1.0)
            try:
                tl, cf = p.load_circuit(qc)
                for k in tl:
                    if tl[k] is None and cf[k] is None:
                        continue            # a channel without pulse
                    g = list(tl[k])
                    if any(g[i + 1] <= g[i] for i in range(len(g) - 1)):
                        return True, f"zero-duration instruction: grid of {k} is {g}, not strictly increasing"
                p.get_full_coeffs()
                lens = {k: (len(tl[k]), len(cf[k])) for k in tl if tl[k] is not None}
                bad = [k for k, (a, b) in lens.items() if b != a - 1]
                if bad:
                    return True, f"zero-duration instruction: grid/coefficient lengths {lens}"
                return False, "zero-duration instruction handled"
            except Exception as e:
                return True, f"RX(0) on a spin chain: {type(e).__name__}: {e}"
        if w["kind"] == "idle-only":
            gc_mod, GateCompiler, Instruction, Gate = _impl()
            try:
                r = GateCompiler(1).compile([Gate("IDLE", targets=[0], arg_value=1.0)])
                return False, f"compile of an IDLE-only gate list returns {r}"
            except Exception as e:
                return True, f"compile of a gate list containing only IDLE raises {type(e).__name__}: {e}"
        if w["kind"] == "unit":
            return False, "unit comparison only"
        return False, "unknown witness kind"

    def _sweep(self, ctx, n_dyadic, n_float, n_shipped, n_store=0):
        rng = ctx.rng
        judged = 0
        for _ in range(n_store):
            w = {"kind": "store", "case": gen_store_case(rng)}
            try:
                f, d = self.oracle_replay(ctx, w)
            except Exception as e:
                f, d = True, "oracle crashed: " + repr(e)
            if f:
                yield w, d
        for i in range(n_dyadic + n_float):
            case = gen_case(rng, wild=rng.random() < 0.5) if i < n_dyadic else gen_float_case(rng)
            w = {"kind": "synthetic", "case": case}
            try:
                f, d = self.oracle_replay(ctx, w)
            except Exception as e:
                f, d = True, "oracle crashed: " + repr(e)
            judged += not d.startswith("not judged")
            if f:
                yield w, d
        for _ in range(n_shipped):
            w = {"kind": "shipped", "case": shipped_case(rng)}
            try:
                f, d = self.oracle_replay(ctx, w)
            except Exception as e:
                f, d = True, "oracle crashed: " + repr(e)
            if f:
                yield w, d
        ctx.log(f"property sweep: {judged} of {n_dyadic + n_float} synthetic schedules inside the judged class, {n_shipped} shipped")

    def _first_entry_sweep(self, ctx):
        for fm in (False, True):
            for case in first_entry_cases(fm, self._desc()["instr"]["shift"]):
                w = {"kind": "synthetic", "case": case}
                try:
                    f, d = self.oracle_replay(ctx, w)
                except Exception as e:
                    f, d = True, "oracle crashed: " + repr(e)
                if f:
                    yield w, d

    def oracle_always(self, ctx):
        yield from self._first_entry_sweep(ctx)
        # judged on every schedule except the resolution class (gaps / steps <= 1e-12 of the total time), which the theorems
        # exclude explicitly (SmallGap exception set, ChainR); see notes/C12.md
        yield from self._sweep(ctx, 150, 250, 15, 60)

    def oracle_search(self, ctx, budget_s):
        t0 = time.time()
        # inputs at the tolerance limits first (the correspondence families), then random
        yield from self._first_entry_sweep(ctx)
        for w in limit_witnesses():
            f, d = self.oracle_replay(ctx, w)
            if f:
                yield w, d
        while time.time() - t0 < budget_s:
            yield from self._sweep(ctx, 60, 120, 5, 40)

    def finding_matches(self, witness, finding):
        from vlib.core import canon
        return canon(witness) == canon(finding.get("witness"))


CHECK = C12()
