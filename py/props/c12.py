"""C12 — compiled control pulses are exactly the scheduled instruction waveforms.

Correspondence of lean/QipVerif/Model/Concat.lean with GateCompiler.compile /
_schedule / _process_gate_pulse / _process_idling_tlist / _concatenate_pulses, plus the
property itself evaluated on the real code (oracle), written independently of the model.

Exactness: every time fed to the code on the *dyadic stream* is a multiple of 2^-30 below
2^22, so every float addition/subtraction/multiplication by 3 of the code is exact and the
model's rationals must be reproduced bit for bit.  The only inexact operations are
`step_size * 1.0e-6` (1e-6 is not dyadic), `step_size / 5` and `np.linspace`: cases in which
a tolerance comparison changes when tau is moved by a factor 1 +- 2^-20 are skipped
(counted, tag `tight-skipped`), and idle points of continuous pulses are compared to 2^-46
relative instead of exactly.
"""
import ast, os, time, itertools
from fractions import Fraction as F
import numpy as np

from vlib.core import PropertyCheck, TranslatorError
from vlib import paths

TAU = F(1, 10**6)
RHO = F(1, 10**12)           # relative gap tolerance of the repaired idle-gap test (fixes/C12-3.patch)


def vstr(variant, tau):
    """variant flags for a driver line; the gap tolerance is scaled together with tau (tightness probe)"""
    return variant.replace("gaprel=RHO", f"gaprel={fs(RHO * tau / TAU)}")
Q = 30                      # quantum 2^-Q of the dyadic stream


# ----------------------------------------------------------------------------------------------
# helpers: rationals on the protocol
def fs(x):
    x = F(x)
    return str(x.numerator) if x.denominator == 1 else f"{x.numerator}/{x.denominator}"


def fl(xs):
    return ",".join(fs(x) for x in xs)


def pf(s):
    return F(s)


def pfl(s):
    return [F(x) for x in s.split(",") if x != ""]


def is_dyadic(x):
    d = F(x).denominator
    return d & (d - 1) == 0


def close(xf, r, exact=True):
    """float of the implementation against the model's rational"""
    try:
        xr = F(float(xf))
    except (ValueError, OverflowError):
        return False
    if xr == r:
        return True
    if exact and is_dyadic(r):
        return False
    return abs(xr - r) <= abs(r) * F(1, 2**46)


def close_num(xf, r, scale):
    return abs(float(xf) - float(r)) <= 1e-9 * max(1.0, abs(float(r)), scale)


# ----------------------------------------------------------------------------------------------
# which first-pulse test does the working tree contain?  (AST, formatting independent)
_FIRST_TOL = "abs(last_pulse_time) < step_size * 1e-06"
_FIRST_STRUCT = ("not compiled_tlist[pulse_ind]", "len(compiled_tlist[pulse_ind]) == 0")


def detect_variant():
    path = os.path.join(paths.REPO, "src", "qutip_qip", "compiler", "gatecompiler.py")
    try:
        tree = ast.parse(open(path).read())
    except Exception as e:
        raise TranslatorError(f"cannot parse {path}: {e}")
    fn = None
    for node in ast.walk(tree):
        if isinstance(node, ast.FunctionDef) and node.name == "_concatenate_pulses":
            fn = node
    if fn is None:
        raise TranslatorError("GateCompiler._concatenate_pulses not found")
    first_v = None
    for node in ast.walk(fn):
        if isinstance(node, ast.If) and node.body:
            first = ast.unparse(node.body[0])
            if first.replace(" ", "") == "compiled_tlist[pulse_ind].append([0.0])":
                test = ast.unparse(node.test)
                if test == _FIRST_TOL:
                    first_v = "tol"
                elif test in _FIRST_STRUCT:
                    first_v = "struct"
                else:
                    raise TranslatorError("first-pulse test of _concatenate_pulses not recognised: " + test)
    if first_v is None:
        raise TranslatorError("first-pulse branch of _concatenate_pulses not found")
    # fixes/C12-2.patch: channels / gate lists without pulse are left empty
    final = [ast.unparse(n.value) for n in ast.walk(fn)
             if isinstance(n, ast.Assign) and ast.unparse(n.targets[0]) == "final_time"]
    ends = [ast.unparse(n.value) for n in ast.walk(fn)
            if isinstance(n, ast.Assign) and ast.unparse(n.targets[0]) == "end_times"]
    if final == ["np.max([tlist[-1][-1] for tlist in compiled_tlist])"] and not ends:
        v = first_v
    elif final == ["np.max(end_times) if end_times else 0.0"] and ends == ["[tlist[-1][-1] for tlist in compiled_tlist if tlist]"]:
        v = first_v + " skipzero=1"
    else:
        raise TranslatorError(f"_concatenate_pulses: final_time logic not recognised: final_time={final} end_times={ends}")
    # fixes/C12-3.patch: idle-gap test against an absolute tolerance (1e-12 * largest start time)
    gap_tests = [ast.unparse(n.test) for n in ast.walk(fn) if isinstance(n, ast.If)
                 and ast.unparse(n.test).startswith("np.abs(start_time - last_pulse_time) >")]
    tol_def = [ast.unparse(n.value) for n in ast.walk(fn)
               if isinstance(n, ast.Assign) and ast.unparse(n.targets[0]) == "time_tol"]
    if gap_tests == ["np.abs(start_time - last_pulse_time) > step_size * 1e-06"] and not tol_def:
        pass
    elif (gap_tests == ["np.abs(start_time - last_pulse_time) > time_tol"] and first_v == "struct" and tol_def ==
          ["1e-12 * max([abs(inst[0]) for insts in pulse_instructions for inst in insts], default=0.0)"]):
        v = v + " gaprel=RHO"
    else:
        raise TranslatorError(f"_concatenate_pulses: idle-gap test not recognised: {gap_tests} time_tol={tol_def}")
    # compile: are instructions of zero duration dropped before scheduling?
    cf = None
    for node in ast.walk(tree):
        if isinstance(node, ast.FunctionDef) and node.name == "compile":
            cf = node
    if cf is None:
        raise TranslatorError("GateCompiler.compile not found")
    adds = [ast.unparse(n.value) for n in ast.walk(cf)
            if isinstance(n, ast.AugAssign) and ast.unparse(n.target) == "instruction_list"]
    if adds == ["instruction"]:
        return v
    if adds == ["[ins for ins in instruction if ins.duration != 0]"]:
        return v + " dropzero=1"
    raise TranslatorError("compile: how instructions are collected is not recognised: " + "; ".join(adds))


# ----------------------------------------------------------------------------------------------
# implementation side
def _impl():
    from qutip_qip.compiler import gatecompiler as gc_mod
    from qutip_qip.compiler import GateCompiler, Instruction
    from qutip_qip.operations import Gate
    return gc_mod, GateCompiler, Instruction, Gate


def classify_exc(e):
    msg = str(e)
    if isinstance(e, IndexError):
        return "index"
    if isinstance(e, ZeroDivisionError):
        return "zerodiv"
    if isinstance(e, TypeError) and "has no len()" in msg:
        return "type"
    if isinstance(e, ValueError):
        if "shape of the compiled pulse" in msg:
            return "shape"
        if "zero-size array" in msg:
            return "empty"
        if "Maximum allowed size exceeded" in msg:
            return "zerodiv"
        return "other:ValueError:" + msg[:60]
    return "other:" + type(e).__name__ + ":" + msg[:60]


def to_np(tl):
    """["s", x] -> float ; ["a", [..]] -> ndarray"""
    if tl[0] == "s":
        return float(F(tl[1]))
    return np.array([float(F(x)) for x in tl[1]], dtype=float)


def wave_str(tl, cf):
    if tl[0] == "s":
        return f"s:{fs(tl[1])}:{fs(cf[1])}"
    if cf[0] == "s":
        return f"m:{fl(tl[1])}:{fs(cf[1])}"
    return f"a:{fl(tl[1])}:{fl(cf[1])}"


class _Rec:
    starts = None


def make_synth(nq, gate_specs):
    gc_mod, GateCompiler, Instruction, Gate = _impl()

    class Synth(GateCompiler):
        def __init__(self):
            super().__init__(nq)
            self.queue = list(gate_specs)
            for nm in ("RX", "RY", "RZ", "CNOT", "ISWAP", "CZ"):
                self.gate_compiler[nm] = self.emit

        def emit(self, gate, args):
            g = self.queue.pop(0)
            info = [(lab, to_np(cf)) for lab, cf in g["pulses"]]
            return [Instruction(gate, to_np(g["tl"]), info)]

    return Synth()


def run_compile_impl(case):
    """-> (status, payload, starts, perm).  Records what the real Scheduler returned."""
    gc_mod, GateCompiler, Instruction, Gate = _impl()
    specs = [g for g in case["gates"] if g["name"] not in ("IDLE", "GLOBALPHASE")]
    comp = make_synth(case["nq"], specs)
    gates = []
    for g in case["gates"]:
        if g["name"] == "IDLE":
            gates.append(Gate("IDLE", targets=g["targets"], arg_value=float(F(g["t"]))))
        elif g["name"] == "GLOBALPHASE":
            gates.append(Gate("GLOBALPHASE", targets=None, arg_value=0.5))
        else:
            gates.append(Gate(g["name"], targets=g["targets"], controls=g.get("controls"), arg_value=1.0))
    return run_compile_real(comp, gates, case["mode"])


def run_compile_real(comp, gates, mode):
    gc_mod = _impl()[0]
    real = gc_mod.Scheduler
    rec = {"starts": None}

    class RecScheduler(real):
        def schedule(self, *a, **k):
            r = super().schedule(*a, **k)
            if rec["starts"] is None or True:
                rec["starts"] = [float(x) for x in r]
            return r

    gc_mod.Scheduler = RecScheduler
    try:
        try:
            tl_map, cf_map = comp.compile(gates, schedule_mode=mode)
        except Exception as e:
            st_ = rec["starts"]
            return "err", classify_exc(e), st_, ([int(i) for i in np.argsort(st_)] if st_ is not None else None)
    finally:
        gc_mod.Scheduler = real
    starts = rec["starts"]
    perm = [int(i) for i in np.argsort(starts)] if starts is not None else None
    if tl_map is None:
        return "none", None, starts, perm
    out = [(lab, None, None) if tl_map[lab] is None else
           (lab, [float(x) for x in tl_map[lab]], [float(x) for x in np.asarray(cf_map[lab]).ravel()]) for lab in tl_map]
    return "ok", out, starts, perm


# ----------------------------------------------------------------------------------------------
# generators (all randomness from ctx.rng)
def dy(rng, e, mmax=16):
    return F(rng.randint(1, mmax)) * F(2) ** e


def gen_wave(rng, kind, e, conv=True):
    """a waveform of the given kind whose step is about 2^e"""
    if kind == "scalar":
        return ["s", dy(rng, e, 64)], ["s", F(rng.randint(-16, 16), 8)]
    n = rng.randint(1, 4)
    if kind == "discrete":
        if rng.random() < 0.6:
            st = dy(rng, e)
            tl = [st * i for i in range(n + 1)]
        else:
            tl = [F(0)]
            for _ in range(n):
                tl.append(tl[-1] + dy(rng, e))
        return ["a", tl], ["a", [F(rng.randint(-16, 16), 8) for _ in range(n)]]
    st = dy(rng, e)
    n = rng.randint(2, 5)
    tl = [st * i for i in range(n + 1)]
    cs = [F(rng.randint(-16, 16), 8) for _ in range(n + 1)]
    if conv or rng.random() < 0.7:
        cs[0] = F(0)
    return ["a", tl], ["a", cs]


def exact_ok(case):
    """all float operations of the code are exact on this case: multiples of 2^-30, total time < 2^23"""
    tot = F(0)
    for g in case["gates"]:
        if g["name"] == "GLOBALPHASE":
            continue
        vals = [F(g["t"])] if g["name"] == "IDLE" else ([F(g["tl"][1])] if g["tl"][0] == "s" else [F(x) for x in g["tl"][1]])
        if any((v * 2**Q).denominator != 1 for v in vals):
            return False
        tot += vals[-1]
    return tot < 2**23


def gen_case(rng, wild):
    while True:
        c = gen_case0(rng, wild)
        if exact_ok(c):
            return c


def gen_case0(rng, wild):
    nq = rng.randint(1, 3)
    ngates = rng.randint(1, 6)
    base = rng.randint(-30, 12)
    chan_kind = {}
    gates = []
    homog = rng.random() < 0.85
    for _ in range(ngates):
        r = rng.random()
        if r < 0.08:
            e = rng.randint(-30, 17) if wild else base + rng.randint(0, 3)
            gates.append({"name": "IDLE", "targets": [rng.randrange(nq)], "t": fs(dy(rng, e))})
            continue
        if r < 0.11:
            gates.append({"name": "GLOBALPHASE"})
            continue
        if nq >= 2 and rng.random() < 0.3:
            a, b = rng.sample(range(nq), 2)
            name = rng.choice(["CNOT", "ISWAP", "CZ"])
            g = {"name": name, "targets": [b], "controls": [a]} if name in ("CNOT", "CZ") else \
                {"name": name, "targets": sorted([a, b]), "controls": None}
            labs = [f"g{min(a, b)}"] + ([f"x{b}"] if rng.random() < 0.3 else [])
        else:
            q = rng.randrange(nq)
            g = {"name": rng.choice(["RX", "RY", "RZ"]), "targets": [q], "controls": None}
            labs = [rng.choice([f"x{q}", f"z{q}"])] + ([f"y{q}"] if rng.random() < 0.2 else [])
        e = rng.randint(-30, 20) if wild else base + rng.randint(0, 3)
        kind = None
        if homog:
            for l in labs:
                if l in chan_kind:
                    kind = chan_kind[l]
        if kind is None:
            kind = rng.choice(["scalar", "discrete", "continuous"])
        for l in labs:
            chan_kind.setdefault(l, kind)
        tl, cf = gen_wave(rng, kind, e)
        if kind == "scalar" and rng.random() < 0.06:
            tl = ["s", F(0)]               # zero-duration instruction (e.g. a rotation by angle 0)
        pulses = [[labs[0], cf]]
        for l in labs[1:]:
            if tl[0] == "s":
                pulses.append([l, ["s", F(rng.randint(-16, 16), 8)]])
            else:
                pulses.append([l, ["a", [F(rng.randint(-16, 16), 8) for _ in cf[1]]]])
        g["tl"] = [tl[0], fs(tl[1]) if tl[0] == "s" else [fs(x) for x in tl[1]]]
        g["pulses"] = [[l, [c[0], fs(c[1]) if c[0] == "s" else [fs(x) for x in c[1]]]] for l, c in pulses]
        gates.append(g)
    return {"nq": nq, "mode": rng.choice([None, "ASAP", "ALAP"]), "gates": gates}


def case_instr_lines(case, variant, starts, perm, tau):
    labels = {}
    parts = []
    for g in case["gates"]:
        if g["name"] == "GLOBALPHASE":
            continue
        if g["name"] == "IDLE":
            parts.append(f"s:{fs(g['t'])}@")
            continue
        tl = g["tl"]
        t = f"s:{fs(tl[1])}" if tl[0] == "s" else f"a:{fl(tl[1])}"
        ps = []
        for lab, cf in g["pulses"]:
            lid = labels.setdefault(lab, len(labels))
            ps.append(f"{lid}=" + (f"s:{fs(cf[1])}" if cf[0] == "s" else f"a:{fl(cf[1])}"))
        parts.append(t + "@" + "&".join(ps))
    line = f"compile first={vstr(variant, tau)} tau={fs(tau)} "
    if case["mode"]:
        line += f"mode=sched starts={fl(F(x) for x in starts)} perm={','.join(map(str, perm))} "
    else:
        line += "mode=none "
    line += "instrs=" + ";".join(parts)
    return line, {v: k for k, v in labels.items()}


def parse_compile_out(o, id2lab):
    if o == "ok none":
        return "none", None
    if o.startswith("err "):
        return "err", o[4:]
    if not o.startswith("ok "):
        return "bad", o
    out = []
    for ch in (o[3:].split("!") if o[3:].strip() else []):
        f = ch.split(":")
        if len(f) == 2 and f[1] == "~":
            out.append((id2lab[int(f[0])], None, None))
        else:
            out.append((id2lab[int(f[0])], pfl(f[1]), pfl(f[2])))
    return "ok", out


def compare_channels(model, impl, exact=True, scale=1.0):
    """list of (label, tlist, coeffs): model rationals vs implementation floats -> None or description"""
    if [m[0] for m in model] != [i[0] for i in impl]:
        return f"channel labels/order {[m[0] for m in model]} vs {[i[0] for i in impl]}"
    for (lab, mt, mc), (_l, it, ic) in zip(model, impl):
        if mt is None or it is None:
            if not (mt is None and it is None):
                return f"channel {lab}: model {'empty' if mt is None else 'has pulses'}, impl {'None' if it is None else 'arrays'}"
            continue
        if len(mt) != len(it) or len(mc) != len(ic):
            return f"channel {lab}: lengths model ({len(mt)},{len(mc)}) impl ({len(it)},{len(ic)})"
        for k, (a, b) in enumerate(zip(it, mt)):
            ok = close(a, b) if exact else close_num(a, b, scale)
            if not ok:
                return f"channel {lab}: tlist[{k}] model {float(b)!r} impl {a!r}"
        for k, (a, b) in enumerate(zip(ic, mc)):
            ok = close(a, b) if exact else close_num(a, b, 1.0)
            if not ok:
                return f"channel {lab}: coeff[{k}] model {float(b)!r} impl {a!r}"
    return None


CHECK = None

# ----------------------------------------------------------------------------------------------
# the property itself on the real code (independent of the Lean model)
def windows_of(case, starts_sorted_instr):
    """channel label -> list of (start, tl(list of Fractions, from 0), coeffs, kind) in execution order"""
    chans = {}
    for g, s in starts_sorted_instr:
        if g["name"] in ("IDLE", "GLOBALPHASE"):
            continue
        tl = g["tl"]
        for lab, cf in g["pulses"]:
            if tl[0] == "s" and F(tl[1]) == 0 and "dropzero" in (CHECK._variant() if CHECK else ""):
                continue                       # dropped by compile before scheduling
            if tl[0] == "s":
                w = (F(s), [F(0), F(tl[1])], [F(cf[1])], "discrete")
            elif cf[0] == "s":
                w = (F(s), [F(x) for x in tl[1]], [F(cf[1])], "bad")
            else:
                t = [F(x) for x in tl[1]]
                c = [F(x) for x in cf[1]]
                kind = "discrete" if len(c) == len(t) - 1 else ("continuous" if len(c) == len(t) else "bad")
                w = (F(s), t, c, kind)
            chans.setdefault(lab, []).append(w)
    return chans


def sep_all(chans, variant):
    tmax = max([abs(w[0]) for ws in chans.values() for w in ws], default=F(0))
    return all(sep_ok(ws, variant, tmax) for ws in chans.values())


def sep_ok(ws, variant, tmax=F(0)):
    """the explicit scale hypothesis of the theorems (Sep) for one channel"""
    last = F(0)
    for j, (s, t, c, kind) in enumerate(ws):
        step = t[1] - t[0]
        if "gaprel" in variant:
            gap = s - last
            if not (gap == 0 or gap > RHO * tmax):
                return False
            last = s + t[-1]
            continue
        if variant.startswith("tol") and j > 0 and not (abs(last) >= step * TAU):
            return False
        gap = s - last
        if not (gap == 0 or gap > step * TAU):
            return False
        last = s + t[-1]
    return True


def resolution_ok(chans):
    """float resolution: the final time is below 2^40 steps of the finest pulse (otherwise idle points of continuous
    pulses, computed as last + step/5 ..., collapse in double precision: recorded finding)"""
    ends = [ws[-1][0] + ws[-1][1][-1] for ws in chans.values() if ws]
    steps = [w[1][1] - w[1][0] for ws in chans.values() for w in ws]
    return not ends or max(ends) < min(steps) * 2**40


def precondition(ws):
    """sorted, non-overlapping, positive durations, well-formed waveforms, one kind per channel"""
    last = F(0)
    kinds = set()
    for (s, t, c, kind) in ws:
        if kind == "bad" or len(t) < 2 or t[0] != 0:
            return False
        if any(t[i + 1] <= t[i] for i in range(len(t) - 1)):
            return False
        if s < last:
            return False
        last = s + t[-1]
        kinds.add(kind)
    return len(kinds) == 1


def check_channel(ws, grid, coeff):
    """C12 for one channel, exact arithmetic on Fractions.  -> None or description of the violation."""
    g = [F(float(x)) for x in grid]
    c = [F(float(x)) for x in coeff]
    kind = ws[0][3]
    if not g or g[0] != 0:
        return "grid does not start at 0"
    for k in range(len(g) - 1):
        if not g[k] < g[k + 1]:
            return f"grid not strictly increasing at {k}: {float(g[k])!r}, {float(g[k + 1])!r}"
    if kind == "discrete":
        if len(c) != len(g) - 1:
            return f"discrete channel: {len(c)} coefficients for {len(g)} grid points"
        gs = set(g)
        for (s, t, cf, _k) in ws:
            for x in t:
                if s + x not in gs:
                    return f"slot boundary {float(s + x)!r} of an instruction is not a grid point"
        for k in range(len(c)):
            mid = (g[k] + g[k + 1]) / 2
            exp = F(0)
            for (s, t, cf, _k) in ws:
                if s <= mid < s + t[-1]:
                    i = max(i for i in range(len(t)) if s + t[i] <= mid)
                    exp = cf[i]
            if c[k] != exp:
                return f"slot [{float(g[k])!r},{float(g[k + 1])!r}) has coefficient {float(c[k])!r}, the schedule says {float(exp)!r}"
        return None
    # continuous: samples
    if len(c) != len(g):
        return f"continuous channel: {len(c)} coefficients for {len(g)} grid points"
    gs = {x: k for k, x in enumerate(g)}
    for (s, t, cf, _k) in ws:
        for i in range(1, len(t)):
            if s + t[i] not in gs:
                return f"sample point {float(s + t[i])!r} of an instruction is not a grid point"
            if c[gs[s + t[i]]] != cf[i]:
                return f"sample at {float(s + t[i])!r} is {float(c[gs[s + t[i]]])!r}, the instruction says {float(cf[i])!r}"
    for k, x in enumerate(g):
        inside = False
        for (s, t, cf, _k) in ws:
            if s < x <= s + t[-1]:
                inside = True
                if x - s not in t:
                    return f"grid point {float(x)!r} inside a window is not one of the instruction's sample points"
        if not inside and c[k] != 0:
            return f"sample {float(c[k])!r} at {float(x)!r} outside every instruction window"
    return None


def _gate_duration(g):
    if g["name"] == "IDLE":
        return F(g["t"])
    tl = g["tl"]
    return F(tl[1]) if tl[0] == "s" else F(tl[1][-1])


def ordered_instr(case, starts, perm):
    gs = [g for g in case["gates"] if g["name"] != "GLOBALPHASE"]
    if CHECK is not None and "dropzero" in CHECK._variant():
        gs = [g for g in gs if _gate_duration(g) != 0]
    if case["mode"]:
        return [(gs[i], starts[i]) for i in perm]
    out, acc = [], F(0)
    for g in gs:
        out.append((g, acc))
        if g["name"] == "IDLE":
            acc += F(g["t"])
        else:
            tl = g["tl"]
            acc += F(tl[1]) if tl[0] == "s" else F(tl[1][-1])
    return out


# ----------------------------------------------------------------------------------------------
# shipped compilers
def shipped_case(rng):
    which = rng.choice(["spinchain-linear", "spinchain-circular", "cavityqed", "scqubits"])
    n = rng.randint(2, 3)
    shape = rng.choice(["rectangular", "rectangular", "hann", "hamming"]) if which != "scqubits" else "hann"
    ns = rng.choice([5, 8, 11])
    gates = []
    for _ in range(rng.randint(1, 5)):
        if which == "scqubits":
            nm = rng.choice(["RX", "RY", "CNOT", "RZX"] if n >= 2 else ["RX", "RY"])
        else:
            nm = rng.choice(["RX", "RZ", "ISWAP", "SQRTISWAP"])
        if nm in ("RX", "RY", "RZ"):
            gates.append([nm, [rng.randrange(n)], None, rng.choice([0.25, 0.5, 1.0, 1.5, 2.0, 3.0])])
        elif nm in ("ISWAP", "SQRTISWAP"):
            q = rng.randrange(n - 1)
            gates.append([nm, [q, q + 1], None, None])
        elif nm == "CNOT":
            q = rng.randrange(n - 1)
            t, c = rng.choice([(q, q + 1), (q + 1, q)])
            gates.append([nm, [t], [c], None])
        else:
            q = rng.randrange(n - 1)
            gates.append([nm, [q, q + 1], None, rng.choice([0.5, 1.0, 1.5])])
    return {"compiler": which, "n": n, "shape": shape, "num_samples": ns, "gates": gates,
            "mode": rng.choice([None, "ASAP", "ALAP"])}


def shipped_excluded(case):
    """classes the theorems exclude explicitly (WaveOK): zero-duration instructions, and the cavity-QED swap
    compilers with a sampled shape (array tlist next to scalar coefficients -> Wave.mixed -> TypeError)"""
    if any(g[0] in ("RX", "RZ", "RY") and g[3] == 0 for g in case["gates"]) and "dropzero" not in CHECK._variant():
        return True
    return case["compiler"] == "cavityqed" and case["shape"] != "rectangular" and \
        any(g[0] in ("ISWAP", "SQRTISWAP") for g in case["gates"]) and _cavity_swap_raises()


_CAVITY = {}


def _cavity_swap_raises():
    """behavioural probe (once per run): does the cavity-QED swap compiler still emit an array tlist next to scalar
    coefficients for a sampled shape (fixes/C12-4.patch makes it always rectangular)?"""
    if "r" not in _CAVITY:
        case = {"compiler": "cavityqed", "n": 2, "shape": "hann", "num_samples": 5,
                "gates": [["ISWAP", [0, 1], None, None]], "mode": None}
        try:
            comp, gates = build_shipped(case)
            comp.compile(gates)
            _CAVITY["r"] = False
        except TypeError:
            _CAVITY["r"] = True
        except Exception:
            _CAVITY["r"] = True
    return _CAVITY["r"]


def build_shipped(case):
    from qutip_qip.device import LinearSpinChain, CircularSpinChain, DispersiveCavityQED, SCQubits
    from qutip_qip.compiler import SpinChainCompiler, CavityQEDCompiler, SCQubitsCompiler
    from qutip_qip.operations import Gate
    n = case["n"]
    w = case["compiler"]
    if w == "spinchain-linear":
        p = LinearSpinChain(n)
        comp = SpinChainCompiler(n, p.params, setup="linear")
    elif w == "spinchain-circular":
        p = CircularSpinChain(n)
        comp = SpinChainCompiler(n, p.params, setup="circular")
    elif w == "cavityqed":
        p = DispersiveCavityQED(n)
        comp = CavityQEDCompiler(n, p.params)
    else:
        p = SCQubits(n)
        comp = SCQubitsCompiler(n, p.params)
    if w != "scqubits":
        comp.args.update({"shape": case["shape"], "num_samples": case["num_samples"]})
    else:
        comp.args.update({"num_samples": case["num_samples"]})
    gates = [Gate(nm, targets=t, controls=c, arg_value=a) for nm, t, c, a in case["gates"]]
    return comp, gates


def shipped_instructions(case):
    """the instructions the compiler emits for the gates, as exact rationals (floats are dyadic)"""
    comp, gates = build_shipped(case)
    out = []
    for g in gates:
        ins = comp.gate_compiler[g.name](g, comp.args)
        for i in (ins or []):
            tl = i.tlist
            if np.isscalar(tl):
                t = ["s", F(float(tl))]
            else:
                t = ["a", [F(float(x)) for x in tl]]
            ps = []
            for lab, cf in i.pulse_info:
                if np.isscalar(cf):
                    ps.append([lab, ["s", F(float(cf))]])
                else:
                    ps.append([lab, ["a", [F(float(x)) for x in cf]]])
            out.append({"name": g.name, "tl": t, "pulses": ps})
    return out


# ----------------------------------------------------------------------------------------------
KNOWN_WITNESSES = {
    "scale": {"kind": "synthetic", "full": True, "case": {"nq": 1, "mode": None, "gates": [
        {"name": "RX", "targets": [0], "controls": None, "tl": ["s", "1/1073741824"], "pulses": [["x0", ["s", "1/2"]]]},
        {"name": "RX", "targets": [0], "controls": None, "tl": ["s", "8192"], "pulses": [["x0", ["s", "1/2"]]]}]}},
}


class C12(PropertyCheck):
    id = "C12"
    lean_modules = ["QipVerif.Props.C12"]
    drivers = ["drv_concat"]
    theorems = [
        "QipVerif.C12.concatenate_channels",
        "QipVerif.C12.grid_starts_at_zero_and_increases",
        "QipVerif.C12.coefficient_length_fits",
        "QipVerif.C12.discrete_channel_is_schedule",
        "QipVerif.C12.continuous_channel_is_schedule",
        "QipVerif.C12.every_channel_points_are_schedule",
        "QipVerif.C12.repaired_concatenate_agrees",
        "QipVerif.C12.schedule_unscheduled",
        "QipVerif.C12.schedule_scheduled",
        "QipVerif.C12.compile_channels",
        "QipVerif.C12.gap_repaired_concatenate",
        "QipVerif.C12.closed_channel_is_schedule",
        "QipVerif.C12.idle_only_counterexample",
        "QipVerif.C12.scale_counterexample",
        "QipVerif.C12.gap_counterexample",
    ]
    technique = "Lean 4 proof (refinement of the channel loop to a tolerance-free list function, induction over the instruction list, exact rationals) + model/implementation correspondence"
    level_text = ("Lean 4 theorems over exact rationals, for every tolerance tau > 0, both first-pulse tests (shipped / repaired), every "
                  "number of channels and instructions, every padding mode: under the explicit hypotheses Chain (instructions of a "
                  "channel sorted by start, non-overlapping, well-formed waves with positive durations) and Sep (scale hypothesis: "
                  "every idle gap is 0 or > step*tau; shipped test only: no later instruction is processed while less than step*tau "
                  "is covered) _concatenate_pulses succeeds and equals compiledChannel per channel; every channel's grid starts at 0 "
                  "and increases strictly (scalar, discrete and continuous pulses, mixed too); the coefficient length fits the grid "
                  "for the channel's kind; for channels of scalar/discrete pulses the step function of the compiled arrays equals the "
                  "scheduled function at every time t (instruction waveform inside its window, 0 elsewhere); for channels of continuous "
                  "pulses every (grid point, coefficient) pair is explained by the schedule (inside a window (s, s+dur] it is that "
                  "instruction's sample, elsewhere 0) and every kept sample of every instruction is present.  With the repaired idle-gap test (fixes/C12-3.patch) the hypothesis Sep is "
                  "replaced by 'every gap is 0 or above 1e-12 of the largest start time' (gap_repaired_concatenate) and the closed "
                  "form meets the statement from Chain alone (closed_channel_is_schedule); _schedule and the grouping loop of compile "
                  "are proved to keep every (instruction, start) pair and to put exactly the pulses labelled l on channel l.  Without Sep the "
                  "statement is refuted on the model by decide (scale_counterexample: durations [1e-9, 1e4] give grid "
                  "[0,1e-9,0,1e4+1e-9]; gap_counterexample) and on the code by replay.  The model is tied to GateCompiler.compile / "
                  "_concatenate_pulses by an exact correspondence on dyadic inputs spanning 2^-30..2^20 and to the spin-chain, "
                  "cavity-QED and SC-qubit compilers to 1e-9.")
    level_note = ("Proof under Sep; outside Sep the property is false (findings).  Continuous pulses are judged at their sample points "
                  "(the cubic spline through them is runtime numerics); the code drops each continuous pulse's first sample (documented "
                  "convention: it is 0).  Channels mixing discrete and continuous instructions are covered by the grid/length theorems only.  "
                  "The scheduler (start times) is C11's model: the start times the real Scheduler returns and the permutation "
                  "np.argsort returns are inputs of this model.  Trusted: Lean kernel (propext, Classical.choice, Quot.sound), "
                  "np.linspace/np.arange/np.argsort/np.concatenate as modelled, the harness py/props/c12.py.")
    trusted_base = [
        "Lean 4.33 kernel; axioms propext, Classical.choice, Quot.sound",
        "np.linspace(a,b,10) = a + i(b-a)/9, np.arange(a,stop,step) = a + i*step for i < ceil((stop-a)/step), np.argsort returns a "
        "sorting permutation (taken from the run), np.concatenate (validated by the correspondence)",
        "float arithmetic of the code is exact on the dyadic stream (multiples of 2^-30 below 2^23); step*1e-6 vs the rational tau: "
        "cases whose outcome changes for tau*(1+-2^-20) are skipped",
        "Scheduler.schedule (C11) supplies the start times",
        "py/props/c12.py (harness, oracle on exact Fractions)",
    ]
    assumptions = ["float resolution: the final time is below 2^40 steps of the finest pulse (beyond that, points computed as "
                   "last + step/5 collapse in double precision; recorded finding); the theorems themselves are exact",
                   "instructions of one channel do not overlap (C11's no-overlap clause is refuted separately; such schedules are outside Chain)",
                   "scale hypothesis Sep (explicit in every theorem)"]
    rule = ("case = (gate list with one synthetic instruction per gate: scalar / discrete / continuous waveform, dyadic times "
            "m*2^e, e in [-30,17]; schedule mode None/ASAP/ALAP) compiled by GateCompiler.compile and by the model fed with the "
            "start times the real Scheduler returned; non-trivial = at least one channel with two instructions or an idle gap; "
            "direct _concatenate_pulses calls, malformed inputs and shipped compilers are counted with their own tags")

    def __init__(self):
        self.variant = None

    def regenerate(self, ctx):
        self.variant = detect_variant()
        ctx.log(f"first-pulse test of _concatenate_pulses in {paths.REPO}: {self.variant}")
        return []

    def _variant(self):
        if self.variant is None:
            try:
                self.variant = detect_variant()
            except TranslatorError:
                self.variant = "tol"
        return self.variant

    # -----------------------------------------------------------------------------------------
    def _model_compile(self, ctx, case, starts, perm):
        v = self._variant()
        lines, id2lab = [], None
        for tau in (TAU, TAU * (1 + F(1, 2**20)), TAU * (1 - F(1, 2**20))):
            l, id2lab = case_instr_lines(case, v, starts, perm, tau)
            lines.append(l)
        outs = ctx.driver("drv_concat").run(lines)
        tight = not (outs[0] == outs[1] == outs[2])
        return parse_compile_out(outs[0], id2lab), tight

    def _compare_synth(self, ctx, res, case, tags):
        st, payload, starts, perm = run_compile_impl(case)
        n_instr = sum(1 for g in case["gates"] if g["name"] != "GLOBALPHASE"
                      and not ("dropzero" in self._variant() and _gate_duration(g) == 0))
        if n_instr == 0:
            res.case(case, nontrivial=False, tags=list(tags) + ["no-instruction"])
            if st != "none":
                res.disagree(case, "none", [st, str(payload)[:200]], "compile of a list without instruction", {"kind": "synthetic", "case": case})
            return
        if case["mode"] and starts is None:
            res.case(case, nontrivial=False, tags=list(tags) + ["scheduler-raised"])
            res.disagree(case, "-", [st, str(payload)[:200]], "the scheduler raised on a valid gate list", {"kind": "synthetic", "case": case})
            return
        (mst, mpayload), tight = self._model_compile(ctx, case, starts, perm)
        chans = windows_of(case, ordered_instr(case, starts, perm)) if (starts is not None or not case["mode"]) else {}
        nontriv = any(len(ws) >= 2 or (ws and ws[0][0] > 0) for ws in chans.values())
        kinds = sorted({w[3] for ws in chans.values() for w in ws})
        tg = list(tags) + [f"mode={case['mode']}", f"result={mst}"] + [f"kind={k}" for k in kinds]
        if tight:
            res.case(case, nontrivial=False, tags=tg + ["tight-skipped"])
            return
        res.case(case, nontrivial=nontriv, tags=tg)
        w = {"kind": "synthetic", "case": case}
        if mst != st:
            res.disagree(case, [mst, str(mpayload)[:200]], [st, str(payload)[:200]], "verdict of compile", w)
            return
        if st == "err" and mpayload != payload:
            res.disagree(case, mpayload, payload, "error kind of compile", w)
        elif st == "ok":
            d = compare_channels(mpayload, payload)
            if d:
                res.disagree(case, "model", "impl", d, w)

    def _direct(self, ctx, res, n, malformed):
        """_concatenate_pulses called directly with hand-made per-channel instruction lists"""
        rng = ctx.rng
        GateCompiler = _impl()[1]
        v = self._variant()
        for _ in range(n):
            nch = rng.randint(0 if malformed else 1, 3)
            chans = []
            base = rng.randint(-28, 10)
            for _c in range(nch):
                kind = rng.choice(["scalar", "discrete", "continuous"])
                ws, t = [], F(0)
                for _i in range(rng.randint(0 if malformed else 1, 4)):
                    k = kind if rng.random() < 0.9 else rng.choice(["scalar", "discrete", "continuous"])
                    e = rng.randint(-30, 17) if rng.random() < 0.4 else base + rng.randint(0, 3)
                    tl, cf = gen_wave(rng, k, e, conv=False)
                    if rng.random() < 0.5:
                        t += dy(rng, rng.randint(-30, 17) if rng.random() < 0.4 else base + rng.randint(-2, 3))
                    s = t
                    if malformed:
                        m = rng.random()
                        if m < 0.15 and tl[0] == "a":
                            cf = ["a", cf[1] + [F(1)] * rng.randint(1, 2)]        # wrong shape
                        elif m < 0.3 and tl[0] == "a":
                            tl = ["a", tl[1][:1]]; cf = ["a", cf[1][:rng.randint(0, 1)]]   # too short
                        elif m < 0.45 and tl[0] == "a":
                            tl = ["a", [tl[1][0]] + tl[1]]                          # zero step
                            cf = ["a", [F(1)] + cf[1]]
                        elif m < 0.6:
                            s = t - dy(rng, e)                                      # overlap / negative gap
                        elif m < 0.7 and tl[0] == "s":
                            tl = ["s", F(0)]                                        # zero duration
                    ws.append((s, tl, cf))
                    t = s + (F(tl[1]) if tl[0] == "s" else (F(tl[1][-1]) if tl[1] else F(0)))
                chans.append(ws)
            inp = {"direct": [[[fs(s), [tl[0], fs(tl[1]) if tl[0] == "s" else [fs(x) for x in tl[1]]],
                               [cf[0], fs(cf[1]) if cf[0] == "s" else [fs(x) for x in cf[1]]]] for s, tl, cf in ws] for ws in chans]}
            self._compare_direct(ctx, res, inp, ["direct-malformed" if malformed else "direct"])

    def _direct_lines(self, inp, tau):
        v = self._variant()
        chs = []
        for ws in inp["direct"]:
            if not ws:
                chs.append("-")
            else:
                chs.append(";".join(f"{fs(s)}@{wave_str(tl, cf)}" for s, tl, cf in ws))
        line = f"concat first={vstr(v, tau)} tau={fs(tau)}"
        if chs:
            line += " chans=" + "!".join(chs)
        return line

    def _run_direct_impl(self, inp):
        GateCompiler = _impl()[1]
        pi = [[(float(F(s)), to_np(tl), to_np(cf)) for s, tl, cf in ws] for ws in inp["direct"]]
        try:
            tl, cf = GateCompiler(1)._concatenate_pulses(pi, None, len(pi))
        except Exception as e:
            return "err", classify_exc(e)
        return "ok", [(i, None, None) if tl[i] is None else
                      (i, [float(x) for x in tl[i]], [float(x) for x in np.asarray(cf[i]).ravel()]) for i in range(len(pi))]

    def _compare_direct(self, ctx, res, inp, tags):
        lines = [self._direct_lines(inp, tau) for tau in (TAU, TAU * (1 + F(1, 2**20)), TAU * (1 - F(1, 2**20)))]
        outs = ctx.driver("drv_concat").run(lines)
        if not (outs[0] == outs[1] == outs[2]):
            res.case(inp, nontrivial=False, tags=tags + ["tight-skipped"])
            return
        st, payload = self._run_direct_impl(inp)
        o = outs[0]
        res.case(inp, nontrivial=any(len(ws) >= 2 for ws in inp["direct"]),
                 tags=tags + ["result=" + (o.split()[1] if o.startswith("err") else "ok")])
        w = {"kind": "direct", "input": inp}
        if o.startswith("err "):
            if st != "err" or payload != o[4:]:
                res.disagree(inp, o, [st, str(payload)[:200]], "verdict of _concatenate_pulses", w)
            return
        if st != "ok":
            res.disagree(inp, o[:200], [st, payload], "verdict of _concatenate_pulses", w)
            return
        model = []
        body = o[3:]
        for i, ch in enumerate(body.split("!") if body else []):
            if ch == "~":
                model.append((i, None, None))
                continue
            tl, cs = ch.split(":")
            model.append((i, pfl(tl), pfl(cs)))
        d = compare_channels(model, payload)
        if d:
            res.disagree(inp, "model", "impl", d, w)

    def _units(self, ctx, res, n):
        """_process_gate_pulse and _process_idling_tlist on their own"""
        rng = ctx.rng
        GateCompiler = _impl()[1]
        gcmp = GateCompiler(1)
        lines, cases = [], []
        for _ in range(n):
            if rng.random() < 0.5:
                kind = rng.choice(["scalar", "discrete", "continuous"])
                tl, cf = gen_wave(rng, kind, rng.randint(-30, 17), conv=False)
                if tl[0] == "a" and rng.random() < 0.3:
                    cf = ["a", cf[1][:rng.randint(0, len(cf[1]))] + [F(1)] * rng.randint(0, 2)]
                if tl[0] == "a" and rng.random() < 0.15:
                    tl = ["a", tl[1][:rng.randint(0, 1)]]
                    cf = ["a", cf[1][:rng.randint(0, 1)]]
                lines.append("proc w=" + wave_str(tl, cf))
                cases.append(("proc", tl, cf))
            else:
                e = rng.randint(-30, 17)
                step = dy(rng, e)
                last = dy(rng, rng.randint(-30, 17)) if rng.random() < 0.8 else F(0)
                gap = rng.choice([step * rng.randint(0, 6), dy(rng, rng.randint(-30, 17)), step * 3, step * 3 + F(1, 2**30)])
                m = rng.choice("dc")
                lines.append(f"idle mode={m} start={fs(last + gap)} last={fs(last)} step={fs(step)}")
                cases.append(("idle", m, last + gap, last, step))
        outs = ctx.driver("drv_concat").run(lines)
        for cs, o, line in zip(cases, outs, lines):
            inp = {"unit": line}
            res.case(inp, nontrivial=True, tags=["unit=" + cs[0]])
            w = {"kind": "unit", "line": line}
            try:
                if cs[0] == "proc":
                    gt, cf, step, mode = gcmp._process_gate_pulse(0.0, to_np(cs[1]), to_np(cs[2]))
                    impl = ("ok", mode[0], step, list(np.atleast_1d(gt)), list(np.atleast_1d(cf)))
                else:
                    r = gcmp._process_idling_tlist({"d": "discrete", "c": "continuous"}[cs[1]], float(cs[2]), float(cs[3]), float(cs[4]))
                    impl = ("ok", list(r))
            except Exception as e:
                impl = ("err", classify_exc(e))
            if o.startswith("err "):
                if impl != ("err", o[4:]):
                    res.disagree(inp, o, str(impl)[:200], "unit verdict", w)
                continue
            if impl[0] != "ok":
                res.disagree(inp, o[:200], str(impl), "unit verdict", w)
                continue
            f = o.split(" ")
            if cs[0] == "proc":
                ok = (f[1] == impl[1] and close(impl[2], pf(f[2])) and len(pfl(f[3])) == len(impl[3]) and
                      all(close(a, b) for a, b in zip(impl[3], pfl(f[3]))) and len(pfl(f[4]) if len(f) > 4 else []) == len(impl[4])
                      and all(close(a, b) for a, b in zip(impl[4], pfl(f[4]) if len(f) > 4 else [])))
            else:
                m = pfl(f[1]) if len(f) > 1 else []
                ok = len(m) == len(impl[1]) and all(close(a, b) for a, b in zip(impl[1], m))
            if not ok:
                res.disagree(inp, o[:300], str(impl)[:300], "unit output", w)

    def _shipped(self, ctx, res, n):
        v = self._variant()
        for _ in range(n):
            case = shipped_case(ctx.rng)
            self._compare_shipped(ctx, res, case)

    def _compare_shipped(self, ctx, res, case):
        v = self._variant()
        w = {"kind": "shipped", "case": case}
        try:
            instrs = shipped_instructions(case)
            comp, gates = build_shipped(case)
        except Exception as e:
            res.case(case, nontrivial=False, tags=["shipped-build-error"])
            res.disagree(case, "-", repr(e)[:200], "shipped compiler could not be driven", w)
            return
        st, payload, starts, perm = run_compile_real(comp, gates, case["mode"])
        mcase = {"nq": case["n"], "mode": case["mode"], "gates": instrs}
        lines = []
        for tau in (TAU, TAU * (1 + F(1, 2**20)), TAU * (1 - F(1, 2**20))):
            l, id2lab = case_instr_lines(mcase, v, starts, perm, tau)
            lines.append(l)
        outs = ctx.driver("drv_concat").run(lines)
        tags = ["shipped=" + case["compiler"], "shape=" + case["shape"], f"mode={case['mode']}"]
        if not (outs[0] == outs[1] == outs[2]):
            res.case(case, nontrivial=False, tags=tags + ["tight-skipped"])
            return
        mst, mpayload = parse_compile_out(outs[0], id2lab)
        res.case(case, nontrivial=len(case["gates"]) >= 2, tags=tags + ["result=" + mst])
        if mst != st:
            res.disagree(case, [mst, str(mpayload)[:200]], [st, str(payload)[:200]], "verdict of compile (shipped compiler)", w)
        elif st == "err" and mpayload != payload:
            res.disagree(case, mpayload, payload, "error kind (shipped compiler)", w)
        elif st == "ok":
            scale = max([1.0] + [abs(x) for _l, tl, _c in payload for x in tl])
            d = compare_channels(mpayload, payload, exact=False, scale=scale)
            if d:
                res.disagree(case, "model", "impl", d, w)

    def correspondence(self, ctx, res):
        rng = ctx.rng
        k = 6 if ctx.thorough else 1
        # deterministic small family first: two instructions on one channel, every pair of kinds,
        # step ratios 2^-30 .. 2^30, with and without a gap, three modes
        for k1, k2 in itertools.product(["scalar", "discrete", "continuous"], repeat=2):
            for e1, e2 in [(0, 0), (-30, 14), (14, -30), (-10, 10), (3, -17), (0, 15)]:
                for gap in (False, True):
                    for mode in (None, "ASAP", "ALAP"):
                        r2 = __import__("random").Random(__import__("zlib").crc32(repr((k1, k2, e1, e2, gap)).encode()))
                        tl1, cf1 = gen_wave(r2, k1, e1)
                        tl2, cf2 = gen_wave(r2, k2, e2)
                        gates = [{"name": "RX", "targets": [0], "controls": None, "tl": tl1, "pulses": [["x0", cf1]]}]
                        if gap:
                            gates.append({"name": "IDLE", "targets": [0], "t": fs(dy(r2, min(e1, e2) + 1))})
                        gates.append({"name": "RX", "targets": [0], "controls": None, "tl": tl2, "pulses": [["x0", cf2]]})
                        for g in gates:
                            if "tl" in g:
                                g["tl"] = [g["tl"][0], fs(g["tl"][1]) if g["tl"][0] == "s" else [fs(x) for x in g["tl"][1]]]
                                g["pulses"] = [[l, [c[0], fs(c[1]) if c[0] == "s" else [fs(x) for x in c[1]]]] for l, c in g["pulses"]]
                        self._compare_synth(ctx, res, {"nq": 1, "mode": mode, "gates": gates}, ["family=pairs"])
        res.notes.append("deterministic family: all 9 pairs of pulse kinds x 6 step-ratio pairs (2^-30..2^15) x gap/no gap x 3 modes on one channel")
        for i in range(500 * k):
            self._compare_synth(ctx, res, gen_case(rng, wild=(i % 2 == 0)), ["synthetic", "wild" if i % 2 == 0 else "comparable"])
        self._direct(ctx, res, 300 * k, malformed=False)
        self._direct(ctx, res, 300 * k, malformed=True)
        self._units(ctx, res, 600 * k)
        self._shipped(ctx, res, 60 * k)
        res.notes.append(f"first-pulse test in the tree: {self._variant()}; tau = 1/10^6 exactly in the model; "
                         "cases whose outcome changes for tau*(1+-2^-20) are skipped (tag tight-skipped)")

    # -----------------------------------------------------------------------------------------
    def oracle_replay(self, ctx, w):
        v = self._variant()
        if w["kind"] == "synthetic":
            case = w["case"]
            st, payload, starts, perm = run_compile_impl(case)
            try:
                chans = windows_of(case, ordered_instr(case, [F(x) for x in starts] if starts else None, perm))
            except Exception as e:
                return False, "could not reconstruct the schedule: " + repr(e)
            empty = sorted(lab for lab, ws in chans.items() if not ws)
            chans = {lab: ws for lab, ws in chans.items() if ws}
            pre = all(precondition(ws) for ws in chans.values())
            if not pre:
                return False, "precondition not met (overlapping / malformed / mixed-kind instructions on a channel)"
            if not chans and not empty:
                return False, "no control channel"
            if not w.get("full") and not sep_all(chans, v):
                # witnesses of recorded findings carry "full": true and are judged at full strength
                return False, "outside the scale hypothesis Sep (the class of the recorded finding), not judged"
            if not w.get("full") and not resolution_ok(chans):
                return False, "final time >= 2^40 steps of the finest pulse (float resolution, recorded finding class), not judged"
            if st != "ok":
                return True, f"compile raised {payload} for a valid schedule"
            got = {lab: (tl, cf) for lab, tl, cf in payload}
            if set(got) != set(chans) | set(empty):
                return True, f"channels {sorted(got)} returned, {sorted(set(chans) | set(empty))} used"
            for lab in empty:
                if got[lab][0] is not None:
                    return True, f"channel {lab} has only zero-duration instructions but is compiled to {got[lab][0]}"
            for lab, ws in chans.items():
                d = check_channel(ws, *got[lab])
                if d:
                    return True, f"channel {lab}: {d}"
            return False, "every channel is the scheduled waveform"
        if w["kind"] == "direct":
            inp = w["input"]
            chans = {}
            for i, ws in enumerate(inp["direct"]):
                lst = []
                for s, tl, cf in ws:
                    if tl[0] == "s":
                        lst.append((F(s), [F(0), F(tl[1])], [F(cf[1])], "discrete"))
                    else:
                        t = [F(x) for x in tl[1]]
                        c = [F(x) for x in cf[1]]
                        lst.append((F(s), t, c, "discrete" if len(c) == len(t) - 1 else ("continuous" if len(c) == len(t) else "bad")))
                chans[i] = lst
            if not chans or not all(ws and precondition(ws) for ws in chans.values()):
                return False, "precondition not met"
            if not w.get("full") and not sep_all(chans, v):
                return False, "outside the scale hypothesis Sep (the class of the recorded finding), not judged"
            if not w.get("full") and not resolution_ok(chans):
                return False, "final time >= 2^40 steps of the finest pulse (float resolution, recorded finding class), not judged"
            st, payload = self._run_direct_impl(inp)
            if st != "ok":
                return True, f"_concatenate_pulses raised {payload} for a valid schedule"
            for i, tl, cf in payload:
                d = check_channel(chans[i], tl, cf)
                if d:
                    return True, f"channel {i}: {d}"
            return False, "every channel is the scheduled waveform"
        if w["kind"] == "shipped":
            case = w["case"]
            instrs = shipped_instructions(case)
            comp, gates = build_shipped(case)
            st, payload, starts, perm = run_compile_real(comp, gates, case["mode"])
            if st != "ok":
                return True, f"{case['compiler']} compiler (shape {case['shape']}): compile raised {payload}"
            mcase = {"nq": case["n"], "mode": case["mode"], "gates": [
                dict(g, tl=[g["tl"][0], g["tl"][1]]) for g in instrs]}
            chans = windows_of(mcase, ordered_instr(mcase, [F(x) for x in starts] if starts else None, perm))
            if not chans:
                return False, "no control channel"
            if not w.get("full") and not (sep_all(chans, v) and resolution_ok(chans)):
                return False, "outside the scale hypothesis Sep (the class of the recorded finding), not judged"
            # float schedules: only the structural clauses are checked exactly
            for lab, tl, cf in payload:
                g = list(tl)
                if g[0] != 0.0 or any(g[i + 1] <= g[i] for i in range(len(g) - 1)):
                    return True, f"channel {lab}: grid does not start at 0 / is not strictly increasing: {g[:6]}"
                kinds = {x[3] for x in chans[lab]}
                if kinds == {"discrete"} and len(cf) != len(g) - 1:
                    return True, f"channel {lab}: {len(cf)} coefficients for {len(g)} grid points (discrete)"
                if kinds == {"continuous"} and len(cf) != len(g):
                    return True, f"channel {lab}: {len(cf)} coefficients for {len(g)} grid points (continuous)"
            return False, "grids start at 0, increase strictly, lengths fit"
        if w["kind"] == "zero-duration":
            from qutip_qip.device import LinearSpinChain
            from qutip_qip.circuit import QubitCircuit
            p = LinearSpinChain(2)
            qc = QubitCircuit(2)
            qc.add_gate("RX", 0, arg_value=0.0)
            qc.add_gate("RX", 1, arg_value=1.0)
            try:
                tl, cf = p.load_circuit(qc)
                for k in tl:
                    if tl[k] is None and cf[k] is None:
                        continue            # a channel without pulse
                    g = list(tl[k])
                    if any(g[i + 1] <= g[i] for i in range(len(g) - 1)):
                        return True, f"zero-duration instruction: grid of {k} is {g}, not strictly increasing"
                p.get_full_coeffs()
                lens = {k: (len(tl[k]), len(cf[k])) for k in tl if tl[k] is not None}
                bad = [k for k, (a, b) in lens.items() if b != a - 1]
                if bad:
                    return True, f"zero-duration instruction: grid/coefficient lengths {lens}"
                return False, "zero-duration instruction handled"
            except Exception as e:
                return True, f"RX(0) on a spin chain: {type(e).__name__}: {e}"
        if w["kind"] == "idle-only":
            gc_mod, GateCompiler, Instruction, Gate = _impl()
            try:
                r = GateCompiler(1).compile([Gate("IDLE", targets=[0], arg_value=1.0)])
                return False, f"compile of an IDLE-only gate list returns {r}"
            except Exception as e:
                return True, f"compile of a gate list containing only IDLE raises {type(e).__name__}: {e}"
        if w["kind"] == "unit":
            return False, "unit comparison only"
        return False, "unknown witness kind"

    def _valid_case(self, rng, respect_sep=True):
        """random synthetic case meeting the theorem's hypotheses (checked independently in Python)"""
        for _ in range(200):
            case = gen_case(rng, wild=rng.random() < 0.5)
            yield case

    def _sweep(self, ctx, n, only_sep):
        rng = ctx.rng
        v = self._variant()
        done = 0
        tries = 0
        while done < n and tries < 20 * n:
            tries += 1
            case = gen_case(rng, wild=rng.random() < 0.5)
            st, payload, starts, perm = run_compile_impl(case)
            try:
                chans = windows_of(case, ordered_instr(case, [F(x) for x in starts] if starts else None, perm))
            except Exception:
                continue
            chans = {lab: ws for lab, ws in chans.items() if ws}
            if not chans or not all(precondition(ws) for ws in chans.values()):
                continue
            if only_sep and not (sep_all(chans, v) and resolution_ok(chans)):
                continue
            done += 1
            w = {"kind": "synthetic", "case": case}
            f, d = self.oracle_replay(ctx, w)
            if f:
                yield w, d

    def oracle_always(self, ctx):
        # inputs outside Sep are excluded explicitly by the theorems (hypothesis `Sep`), see notes/C12.md
        yield from self._sweep(ctx, 120, only_sep=True)
        for _ in range(10):
            w = {"kind": "shipped", "case": shipped_case(ctx.rng)}
            if shipped_excluded(w["case"]):
                continue
            try:
                f, d = self.oracle_replay(ctx, w)
            except Exception as e:
                f, d = True, "oracle crashed: " + repr(e)
            if f:
                yield w, d

    def oracle_search(self, ctx, budget_s):
        t0 = time.time()
        while time.time() - t0 < budget_s:
            for w, d in self._sweep(ctx, 50, only_sep=True):
                yield w, d
            for _ in range(5):
                w = {"kind": "shipped", "case": shipped_case(ctx.rng)}
                if shipped_excluded(w["case"]):
                    continue
                try:
                    f, d = self.oracle_replay(ctx, w)
                except Exception as e:
                    f, d = True, "oracle crashed: " + repr(e)
                if f:
                    yield w, d

    def finding_matches(self, witness, finding):
        from vlib.core import canon
        return canon(witness) == canon(finding.get("witness"))


CHECK = C12()
