"""C16 — arguments of the numerical simulation and of the plotting call (`Processor.run_state(c_ops=…, options=…)`,
`Processor.plot_pulses(pulse_labels=…)`): nothing passed in is changed, the same call repeated returns an equal result.

Witness kinds: `runargs`, `plotlabels`.  Found by the audit of module-level / aliased state (notes/C16.md); repaired by
fixes/C16-6 and fixes/C16-8.  `pending(repo)` recognises the exact unrepaired source patterns so that the random sweep
over these two streams starts with the repair (the fixed witnesses are replayed from known_findings.json regardless)."""
import ast, math, os, sys
import numpy as np

from props._c16_snap import snap, close

NOT_EVALUABLE = ("IntegratorException", "LinAlgError", "FloatingPointError", "MemoryError")


def _src(repo, rel):
    return ast.parse(open(os.path.join(repo, rel)).read())


def _method(tree, cls, name):
    for node in ast.walk(tree):
        if isinstance(node, ast.ClassDef) and node.name == cls:
            for f in node.body:
                if isinstance(f, ast.FunctionDef) and f.name == name:
                    return f
    return None


def pending(repo):
    """which of the repairs C16-6 (run_state), C16-7 (reverse_circuit state lists), C16-8 (plot_pulses) are NOT in this
    tree — recognised by the exact unrepaired statement; anything else counts as repaired (and is checked)"""
    out = set()
    tree = _src(repo, "src/qutip_qip/device/processor.py")
    f = _method(tree, "Processor", "run_state")
    if f is not None:
        for n in ast.walk(f):
            if isinstance(n, ast.AugAssign) and isinstance(n.target, ast.Subscript) and \
                    isinstance(n.target.value, ast.Name) and n.target.value.id == "kwargs":
                out.add("C16-6")
    f = _method(tree, "Processor", "plot_pulses")
    if f is not None:
        for n in ast.walk(f):
            if isinstance(n, ast.Assign) and len(n.targets) == 1 and isinstance(n.targets[0], ast.Subscript) and \
                    isinstance(n.targets[0].value, ast.Name) and n.targets[0].value.id == "pulse_labels":
                out.add("C16-8")
    f = _method(tree, "Processor", "run_analytically")
    if f is not None and not any(isinstance(n, ast.Name) and n.id == "qc" for st in f.body for n in ast.walk(st)):
        out.add("C16-9")           # the argument `qc` is never read: the circuit given is ignored
    tree = _src(repo, "src/qutip_qip/circuit/circuit.py")
    f = _method(tree, "QubitCircuit", "reverse_circuit")
    if f is not None:
        for n in ast.walk(f):
            if isinstance(n, ast.keyword) and n.arg in ("input_states", "output_states") and \
                    isinstance(n.value, ast.Attribute) and isinstance(n.value.value, ast.Name) and n.value.value.id == "self":
                out.add("C16-7")
    return out


def build_proc(w):
    from qutip_qip.device import LinearSpinChain, CircularSpinChain, DispersiveCavityQED
    from qutip_qip.circuit import QubitCircuit
    n = w["n"]
    kw = {}
    if w.get("t1") is not None:
        kw["t1"] = w["t1"]
    cls = {"linear": LinearSpinChain, "circular": CircularSpinChain}.get(w["proc"])
    proc = cls(n, **kw) if cls else DispersiveCavityQED(n, num_levels=2, **kw)
    qc = QubitCircuit(n)
    for g in w["circuit"]:
        qc.add_gate(g["name"], targets=g["targets"], controls=g.get("controls"), arg_value=g.get("arg"))
    proc.load_circuit(qc)
    return proc


def oracle_runargs(w):
    """run_state(init, c_ops=<caller's list>, options=<caller's dict>, args=…) called `repeat` times on one processor:
    the list, the dict and the initial state are left as they were, every call returns the same final state, equal to
    a fresh processor's given fresh arguments"""
    import qutip
    try:
        proc = build_proc(w)
    except Exception as e:
        return False, "processor not constructible: " + type(e).__name__
    dims = proc.dims
    init = qutip.basis(dims, [0] * len(dims))

    def mk_args():
        kw = {}
        if w.get("cops") is not None:
            ops = []
            for (q, rate) in w["cops"]:
                lst = [qutip.qeye(d) for d in dims]
                lst[q] = qutip.destroy(dims[q])
                ops.append(math.sqrt(rate) * qutip.tensor(lst))
            kw["c_ops"] = ops if w.get("cops_as", "list") == "list" else ops[0]
        if w.get("options") is not None:
            kw["options"] = dict(w["options"])
        return kw

    kw = mk_args()
    before = snap(kw)
    b_init = snap(init)
    finals = []
    for k in range(w.get("repeat", 2)):
        try:
            r = proc.run_state(init, **kw)
        except AttributeError as e:
            if "Options" in str(e):
                return False, "run_state not usable with this QuTiP"
            return True, f"run_state call {k + 1} raised AttributeError: {e}"
        except Exception as e:
            if type(e).__name__ in NOT_EVALUABLE:
                return False, f"not evaluable: {type(e).__name__}"
            return True, f"run_state call {k + 1} raised {type(e).__name__}: {str(e)[:100]}"
        finals.append(r.states[-1].full())
        if snap(init) != b_init:
            return True, f"run_state call {k + 1} changed the initial state passed in"
        after = snap(kw)
        if after != before:
            what = []
            if "c_ops" in kw and isinstance(kw["c_ops"], list) and len(kw["c_ops"]) != len(w["cops"]):
                what.append(f"the caller's c_ops list has {len(kw['c_ops'])} entries, it had {len(w['cops'])}")
            if "options" in kw and kw["options"] != w["options"]:
                what.append(f"the caller's options dict is {kw['options']!r}, it was {w['options']!r}")
            return True, f"run_state call {k + 1} changed its arguments: " + ("; ".join(what) or "keyword arguments differ")
    for k, f in enumerate(finals[1:]):
        if not np.allclose(f, finals[0], atol=1e-7):
            return True, (f"run_state call {k + 2} with the same arguments on the same processor returns another final state "
                          f"(max difference {np.abs(f - finals[0]).max():.3e})")
    try:
        fr = build_proc(w).run_state(init, **mk_args()).states[-1].full()
    except Exception as e:
        if type(e).__name__ in NOT_EVALUABLE:
            return False, f"not evaluable: {type(e).__name__}"
        return True, f"run_state on a fresh processor raised {type(e).__name__}"
    if not np.allclose(fr, finals[0], atol=1e-7):
        return True, "first run_state differs from a fresh processor given fresh arguments"
    return False, f"{len(finals)} run_state calls: arguments unchanged, final states equal, equal to a fresh processor's"


def oracle_plotlabels(w):
    """plot_pulses(pulse_labels=<nested list>) leaves the caller's list as it was (matplotlib replaced by a stub when it
    is not installed: only the handling of the arguments is observed)"""
    from unittest import mock
    try:
        proc = build_proc(w)
    except Exception as e:
        return False, "processor not constructible: " + type(e).__name__
    labels = [[p.label for p in proc.pulses[:k]] for k in w["groups"]]
    before = snap(labels)
    held = snap([(p.label, p.coeff, p.tlist) for p in proc.pulses])
    stubbed = False
    try:
        import matplotlib  # noqa
    except Exception:
        stubbed = True
    try:
        if stubbed:
            fake = mock.MagicMock()
            with mock.patch.dict(sys.modules, {"matplotlib": fake, "matplotlib.pyplot": fake.pyplot,
                                               "matplotlib.gridspec": fake.gridspec}):
                proc.plot_pulses(pulse_labels=labels, use_control_latex=False)
        else:
            import matplotlib
            matplotlib.use("Agg")
            proc.plot_pulses(pulse_labels=labels, use_control_latex=False)
    except Exception as e:
        if snap(labels) == before:
            return False, f"plot_pulses not evaluable here ({type(e).__name__})"
    if snap(labels) != before:
        return True, f"plot_pulses changed the pulse_labels list passed in: now {labels!r}"
    if snap([(p.label, p.coeff, p.tlist) for p in proc.pulses]) != held:
        return True, "plot_pulses changed the pulses held by the processor"
    return False, "plot_pulses left its arguments and the pulses unchanged" + (" (matplotlib stubbed)" if stubbed else "")


_CIRC = [{"name": "RX", "targets": [0], "controls": None, "arg": math.pi / 2},
         {"name": "CNOT", "targets": [1], "controls": [0], "arg": None}]
W_COPS = {"kind": "runargs", "proc": "linear", "n": 2, "circuit": _CIRC, "t1": 100.0, "cops": [[0, 0.0001]],
          "options": None, "repeat": 2}
W_OPTS = {"kind": "runargs", "proc": "linear", "n": 2, "circuit": _CIRC, "t1": None, "cops": None, "options": {},
          "repeat": 2}
W_LABELS = {"kind": "plotlabels", "proc": "linear", "n": 2, "circuit": _CIRC, "groups": [1]}


def rand_runargs(rng):
    proc = rng.choice(["linear", "linear", "circular", "cqed"])
    n = 2 if proc != "linear" else rng.randint(1, 2)
    gs = []
    for _ in range(rng.randint(1, 3)):
        if n >= 2 and rng.random() < 0.3:
            gs.append({"name": "CNOT", "targets": [1], "controls": [0], "arg": None})
        else:
            nm = rng.choice(["RX", "RY", "X", "SNOT"])
            gs.append({"name": nm, "targets": [rng.randrange(n)], "controls": None,
                       "arg": (rng.choice([0.25, 0.5, 1.0]) * math.pi if nm in ("RX", "RY") else None)})
    nd = n + (1 if proc == "cqed" else 0)
    w = {"kind": "runargs", "proc": proc, "n": n, "circuit": gs, "t1": rng.choice([None, 100.0, 50.0]),
         "cops": rng.choice([None, [[rng.randrange(nd), rng.choice([0.0001, 0.001])]],
                             [[0, 0.0001], [nd - 1, 0.0002]]]),
         "options": rng.choice([None, {}, {"atol": 1e-9}, {"max_step": 0.0}]), "repeat": rng.randint(2, 3)}
    if w["cops"] is not None and len(w["cops"]) == 1 and rng.random() < 0.2:
        w["cops_as"] = "single"
    return w


def rand_plotlabels(rng):
    w = rand_runargs(rng)
    return {"kind": "plotlabels", "proc": w["proc"], "n": w["n"], "circuit": w["circuit"],
            "groups": [rng.randint(1, 2) for _ in range(rng.randint(1, 2))]}
