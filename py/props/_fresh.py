"""Shared by the C07 / C13 harnesses: turn a witness that failed in the check process into one that fails when it
is replayed FROM SCRATCH (`./check Cxx --replay` starts a new interpreter).  If the witness alone passes in a fresh
interpreter, the calls made before it in this process matter (state kept between calls): search the call log for
a short sequence of earlier calls after which the witness fails, confirmed in a fresh interpreter each time."""
import json, os, re, subprocess, sys


def fresh_fails(module, w, timeout=300):
    """`props.<module>.check_property(w)` in a fresh interpreter (same tree) -> (fails | None, detail)"""
    code = (f"import sys, json; from props import {module} as m; w = json.load(sys.stdin); "
            "print('\\n@@' + json.dumps(list(m.check_property(w))))")
    try:
        r = subprocess.run([sys.executable, "-W", "ignore", "-c", code], input=json.dumps(w), capture_output=True,
                           text=True, env=dict(os.environ), timeout=timeout)
        line = [ln for ln in r.stdout.splitlines() if ln.startswith("@@")][-1]
        f, d = json.loads(line[2:])
        return bool(f), d
    except Exception as e:
        return None, f"fresh interpreter: {type(e).__name__}"


def _ddmin(pre, test, budget):
    n = 2
    while len(pre) >= 2 and budget > 0:
        chunk = -(-len(pre) // n)
        reduced = False
        for i in range(0, len(pre), chunk):
            trial = pre[:i] + pre[i + chunk:]
            budget -= 1
            if test(trial):
                pre, n, reduced = trial, max(n - 1, 2), True
                break
            if budget <= 0:
                break
        if not reduced:
            if n >= len(pre):
                break
            n = min(len(pre), 2 * n)
    return pre


def reproducible(module, w, log, related, budget=26):
    """w failed in this process; `log` = the calls made before it (oldest first), `related(call)` = the call shares
    the obvious keys with the witness (tried first).  Returns w itself if it fails from scratch (or nothing shorter
    is found), else {"history": earlier calls + calls of w}."""
    f, _ = fresh_fails(module, w)
    if f or f is None:
        return w
    own = w["history"] if "history" in w else [w]
    used = [1]

    def test(pre):
        used[0] += 1
        return fresh_fails(module, {"history": pre + own})[0] is True

    found = None
    for base in ([c for c in log if related(c)], log):
        k = 1
        while base and used[0] < budget // 2:
            pre = base[-k:]
            if test(pre):
                found = pre
                break
            if k >= len(base):
                break
            k = min(2 * k, len(base)) if k < 1024 else len(base)
        if found is not None:
            break
    if found is None:
        return w
    found = _ddmin(found, test, budget - used[0])
    hist = found + own
    # nothing is needed after the call that fails
    f, d = fresh_fails(module, {"history": hist})
    m = re.match(r"call (\d+) of", d or "")
    if f and m and 2 <= int(m.group(1)) < len(hist):
        hist = hist[:int(m.group(1))]
    return {"history": hist}
