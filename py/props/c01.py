"""C01 — gate-level evolution equals the ordered product of the gates' matrices.

H: lean/QipVerif/Model/SimKet.lean (einsum index lists + two-operand einsum, density-matrix step,
compute_unitary, propagators, compact product with an order oracle, user-gate lookup) is run side by
side with qutip_qip.circuit.circuitsimulator / QubitCircuit on the same circuits and inputs.  Fixed-angle
circuits are compared EXACTLY: the model computes amplitudes in Z[zeta16][1/2]; the harness evaluates
(sum c_j zeta^j)/2^e in floating point and compares with the code's output to 1e-12.

Oracle (independent of the model AND of operations/gates.py, on the real code): dense numpy product of the
kron-embedded DOCUMENTED gate matrices (props/c01_gatedoc.py; user gates as given by the user; names,
arguments and placements are the harness's own) against every evaluation path, 1e-9.

The model describes /repo with the fix commits cbd9b48 (sorted merged indices in _mult_sublists), 26a687b
(scalar conjugate for GLOBALPHASE in density-matrix mode) and c6903aa (the `state` getter no longer
overwrites the internal tensor)."""
import cmath, functools, itertools, math, time
import numpy as np

from vlib.core import PropertyCheck
from props.c01_gatedoc import doc_matrix, ctrl_value

PI8 = math.pi / 8
ZETA = [cmath.exp(1j * PI8 * j) for j in range(8)]

# (controls, targets) of the library gates
SHAPE = {n: (0, 1) for n in "RX RY RZ PHASEGATE X Y Z S T SNOT SQRTNOT IDLE R QASMU".split()}
SHAPE.update({n: (1, 1) for n in "CRX CRY CRZ CPHASE CNOT CSIGN CZ CY CS CT".split()})
SHAPE.update({n: (0, 2) for n in "SWAP ISWAP SQRTSWAP SQRTISWAP BERKELEY SWAPalpha MS RZX".split()})
SHAPE.update({"FREDKIN": (1, 2), "TOFFOLI": (2, 1), "GLOBALPHASE": (0, 0)})
FIXED = "X Y Z S T SNOT SQRTNOT IDLE CNOT CSIGN CZ CY CS CT SWAP ISWAP SQRTSWAP SQRTISWAP BERKELEY FREDKIN TOFFOLI".split()
ROT = "RX RY RZ PHASEGATE CRX CRY CRZ CPHASE".split()          # exact at multiples of pi/4
FLOAT_ONLY = "SWAPalpha MS RZX R QASMU".split()                  # oracle only


# ------------------------------------------------------------------------------------------------
# exact scalars
def sc(e, c):
    return f"{e}:" + "_".join(str(int(v)) for v in c)


def sc_val(s):
    e, c = s.split(":")
    cs = [int(v) for v in c.split("_")]
    return sum(cj * z for cj, z in zip(cs, ZETA) if cj) / (2 ** int(e))


def parse_vec(s):
    return np.array([sc_val(x) for x in s.split(",")], dtype=complex)


def parse_mat(s):
    return np.array([[sc_val(x) for x in r.split(",")] for r in s.split(";")], dtype=complex)


def rand_scalar(rng, dense=False):
    c = [0] * 8
    if dense:
        for j in range(8):
            if rng.random() < 0.5:
                c[j] = rng.randint(-3, 3)
    else:
        c[0] = rng.randint(-3, 3)
        c[4] = rng.randint(-3, 3)
        if rng.random() < 0.3:
            c[rng.choice([1, 2, 3, 5, 6, 7])] = rng.randint(-2, 2)
    return (rng.choice([0, 0, 1, 2]), c)


def enc_vec(v):
    return ",".join(sc(e, c) for e, c in v)


def enc_mat(m):
    return ";".join(enc_vec(r) for r in m)


def val_vec(v):
    return np.array([sc_val(sc(e, c)) for e, c in v], dtype=complex)


def val_mat(m):
    return np.array([[sc_val(sc(e, c)) for e, c in r] for r in m], dtype=complex)


def close(a, b, tol=1e-12):
    a = np.asarray(a, dtype=complex)
    b = np.asarray(b, dtype=complex)
    if a.shape != b.shape:
        return False
    scale = max(1.0, float(np.abs(b).max()) if b.size else 1.0)
    return bool(np.abs(a - b).max() <= tol * scale) if a.size else True


# ------------------------------------------------------------------------------------------------
# harness gates
# gate classes exported by operations/gateclass.py that build a library gate: library name -> class names
CLASSES = {"X": ["X"], "Y": ["Y"], "Z": ["Z"], "RX": ["RX"], "RY": ["RY"], "RZ": ["RZ"], "SNOT": ["H", "SNOT"],
           "SQRTNOT": ["SQRTNOT"], "S": ["S"], "T": ["T"], "R": ["R"], "QASMU": ["QASMU"], "SWAP": ["SWAP"],
           "ISWAP": ["ISWAP"], "SQRTSWAP": ["SQRTSWAP"], "SQRTISWAP": ["SQRTISWAP"], "SWAPalpha": ["SWAPALPHA"],
           "MS": ["MS"], "TOFFOLI": ["TOFFOLI"], "FREDKIN": ["FREDKIN"], "BERKELEY": ["BERKELEY"], "CNOT": ["CNOT", "CX"],
           "CSIGN": ["CSIGN", "CZ"], "CZ": ["CZ", "CSIGN"], "CPHASE": ["CPHASE"], "CRX": ["CRX"], "CRY": ["CRY"],
           "CRZ": ["CRZ"], "CY": ["CY"], "CS": ["CS"], "CT": ["CT"], "RZX": ["RZX"]}
PARTIAL = {"CRX", "CRY", "CRZ", "CY", "CX", "CT", "CS"}          # functools.partial(_OneControlledGate, target_gate=..)
CTRL_TARGETS = ["X", "Y", "Z", "S", "T", "SNOT", "SQRTNOT", "RX", "RY", "RZ"]     # target_gate of a generic ControlledGate


def objname(via):
    """the `.name` attribute of an object built through the class `via` ("the class name" — Gate.__init__)"""
    if via in PARTIAL:
        return "_OneControlledGate"
    return "H" if via == "SNOT" else via


class G:
    """library gate (name, targets, controls, angle = p8*pi/8 exact, or float `val`) or user gate `user`.
    `via`: None = added by name (`add_gate("CNOT", ...)`), a class name of operations/gateclass.py = the gate OBJECT
    `Class(...)` handed to add_gate, "ControlledGate" = the generic `ControlledGate(controls, targets, control_value=cv,
    target_gate=<class of name>)` (then `name` is the target gate's name and `c` its controls)."""

    def __init__(self, name, t, c, p8=0, val=None, user=False, cn=None, arg=None, via=None, cv=None):
        self.name, self.t, self.c, self.p8, self.val, self.user = name, list(t), list(c), p8, val, user
        self.cn = (len(self.c) == 0) if cn is None else cn     # gate.controls is None
        self.arg = arg                                           # arg_value for user functions (int)
        self.via, self.cv = via, cv

    def exact(self):
        return self.val is None and self.via != "ControlledGate"

    def enc(self):
        d = lambda l: ".".join(map(str, l)) if l else "-"
        base = f"{self.name}/{d(self.t)}/{d(self.c)}/-1,0,1,{self.p8}/{1 if self.cn else 0}/{'-' if self.arg is None else self.arg}"
        on = self.lookup_name() if self.via else None
        if self.cv is not None:
            return base + f"/{on or '-'}/{self.cv}"
        return base + ("/" + on if on else "")

    def refusal_expected(self):
        """the library's matrices are fixed (documented: the gate acts on the targets when all control qubits are 1): an
        explicit control_value other than the all-ones mask 2^k - 1 of its k >= 1 listed controls has no documented matrix
        and must be refused; only the generic ControlledGate builds a matrix for a given value"""
        if self.cv is None or self.via == "ControlledGate" or self.user or self.name == "GLOBALPHASE":
            return False
        return self.cn or not self.c or self.cv != 2 ** len(self.c) - 1

    def js(self):
        return [self.name, self.t, self.c, self.p8 if self.val is None else self.val, self.user, self.cn, self.arg,
                self.via, self.cv]

    @staticmethod
    def from_js(j):
        name, t, c, a, user, cn, arg = j[:7]
        via, cv = (j[7], j[8]) if len(j) > 7 else (None, None)
        if isinstance(a, float):
            return G(name, t, c, val=a, user=user, cn=cn, arg=arg, via=via, cv=cv)
        if isinstance(a, (list, tuple)):
            return G(name, t, c, val=tuple(a), user=user, cn=cn, arg=arg, via=via, cv=cv)
        return G(name, t, c, p8=a, user=user, cn=cn, arg=arg, via=via, cv=cv)

    def arg_value(self):
        if self.user:
            return self.arg
        if self.val is not None:
            return self.val
        if self.name in ROT or self.name == "GLOBALPHASE":
            return self.p8 * PI8
        return None

    def qubits(self):
        return self.t if self.cn else self.c + self.t

    def lookup_name(self):
        """the key `_get_gate_unitary` looks up in user_gates"""
        if self.via == "Gate":
            return self.name
        return objname(self.via) if self.via else self.name

    def as_object(self, rng):
        """the same gate as an object built through one of its exported classes (None if there is none)"""
        if self.user or self.via or self.name not in CLASSES:
            return None
        via = rng.choice(CLASSES[self.name])
        if self.name in ("TOFFOLI", "FREDKIN"):      # TOFFOLI(targets=[c1, c2, t]): no `controls`
            return G(self.name, self.c + self.t, [], p8=self.p8, val=self.val, cn=True, via=via)
        return G(self.name, self.t, self.c, p8=self.p8, val=self.val, cn=self.cn, via=via)

    def make_object(self):
        """the gate object `Class(...)`"""
        from qutip_qip.operations import gateclass as ops
        av = self.arg_value()
        if self.via == "ControlledGate":
            kw = {} if av is None else {"arg_value": av}
            tg = getattr(ops, "H" if self.name == "SNOT" else self.name)
            return ops.ControlledGate(controls=list(self.c), targets=list(self.t), control_value=self.cv, target_gate=tg, **kw)
        if self.via == "Gate":
            # the generic class: Gate("TOFFOLI", controls=[a, b], targets=[t], control_value=v)
            return ops.Gate(self.name, targets=list(self.t), controls=(None if self.cn else list(self.c)), arg_value=av,
                            control_value=self.cv)
        cls = getattr(ops, self.via)
        if self.user:
            # an instance of the library class whose name the user table shadows: T(targets=[0]), RX(targets=[1], arg_value=a)
            return cls(targets=list(self.t), arg_value=self.arg)
        kw = {} if av is None else {"arg_value": av}
        if self.cv is not None:
            kw["control_value"] = self.cv
        if self.c:
            return cls(controls=list(self.c), targets=list(self.t), **kw)
        return cls(targets=list(self.t), **kw)


def maybe_object(rng, g, p=0.5):
    o = g.as_object(rng) if rng.random() < p else None
    return o if o is not None else g


class UG:
    """entry of user_gates: kind in oper fn0 fn1 fn2 other; exact matrix `mat` on m qubits."""

    def __init__(self, name, kind, m, mat):
        self.name, self.kind, self.m, self.mat = name, kind, m, mat

    def enc(self):
        return f"{self.name}~{self.kind}~{self.m}~{enc_mat(self.mat) if self.mat else '-'}"

    def js(self):
        return [self.name, self.kind, self.m, self.mat]

    def pyobj(self):
        import qutip
        M = qutip.Qobj(val_mat(self.mat), dims=[[2] * self.m, [2] * self.m]) if self.mat else None
        if self.kind == "oper":
            return M
        if self.kind == "fn0":
            def f0():
                return M
            return f0
        if self.kind == "fn1":
            return lambda a: a * M
        if self.kind == "fn2":
            def f2(a, b):
                return M
            return f2
        return functools.partial(lambda a: M, 1)     # callable, but not a Python function


def enc_ug(ugs):
    return "^".join(u.enc() for u in ugs) if ugs else "-"


def enc_ops(gs):
    return "@".join(g.enc() for g in gs) if gs else "-"


class UTable(list):
    """user-gate table + how it meets the gates: "normal" = given to the constructor before the gates are added;
    "late" = the gates are added first (library names then give library-class objects), the definitions are registered
    afterwards (`qc.user_gates[name] = ...`); "transfer" = the gates are created in another, table-less circuit and
    handed over with `add_gates(other.gates)`.  The defining matrix of a gate is what `user_gates` says for its name at
    the time of the run in all three."""
    mode = "normal"

    def __init__(self, it=(), mode="normal"):
        super().__init__(it)
        self.mode = mode


def table_mode(ugs):
    return getattr(ugs, "mode", "normal")


def build_circuit(N, gates, ugs=()):
    from qutip_qip.circuit import QubitCircuit
    table = {u.name: u.pyobj() for u in ugs}
    mode = table_mode(ugs) if ugs else "normal"
    if mode == "late":
        qc = QubitCircuit(N)
        for g in gates:
            add_to_circuit(qc, g)
        for name, obj in table.items():
            qc.user_gates[name] = obj
        return qc
    if mode == "transfer":
        donor = QubitCircuit(N)
        for g in gates:
            add_to_circuit(donor, g)
        qc = QubitCircuit(N, user_gates=table)
        qc.add_gates(donor.gates)
        return qc
    qc = QubitCircuit(N, user_gates=table) if ugs else QubitCircuit(N)
    for g in gates:
        add_to_circuit(qc, g)
    return qc


def add_to_circuit(qc, g):
    if g.via:
        qc.add_gate(g.make_object())
        return
    kw = {}
    av = g.arg_value()
    if av is not None:
        kw["arg_value"] = av
    if g.cv is not None:
        kw["control_value"] = g.cv
    if g.cn:
        qc.add_gate(g.name, targets=(g.t if g.t else None), **kw)
    else:
        qc.add_gate(g.name, targets=(g.t if g.t else None), controls=g.c, **kw)


def build_circuit_meas(N, gates, ugs, meas):
    """the circuit with a measurement (of qubit i mod N, stored in classical bit 0) inserted in front of gate number i
    for every i in `meas` (i = len(gates): at the end)"""
    from qutip_qip.circuit import QubitCircuit
    kw = {"user_gates": {u.name: u.pyobj() for u in ugs}} if ugs else {}
    qc = QubitCircuit(N, num_cbits=1, **kw)
    for i in range(len(gates) + 1):
        for _ in range(meas.count(i)):
            qc.add_measurement("M", targets=[i % N], classical_store=0)
        if i < len(gates):
            add_to_circuit(qc, gates[i])
    return qc


def classify_exc(e):
    msg = str(e)
    if isinstance(e, IndexError):
        return "index"
    if isinstance(e, UnboundLocalError):
        return "empty"
    if isinstance(e, NotImplementedError):
        return "unknownGate"
    if isinstance(e, TypeError) and "measurement" in msg:
        return "measurement"
    if isinstance(e, ValueError):
        if "control_value" in msg:
            return "controlValue"
        if "takes only" in msg:
            return "userControls"
        if "at most one" in msg:
            return "userParams"
        if "neither function" in msg:
            return "userNeither"
        if "target qutbis" in msg or "target qubits" in msg:
            return "embed-count"
        if "smaller than N" in msg:
            return "embed-range"
        if "do not match" in msg:
            return "embed-dims"
        if "einstein sum" in msg or "einsum" in msg or "broadcast" in msg or "subscripts" in msg:
            return "einsum"
        return "other:ValueError:" + msg[:60]
    return "other:" + type(e).__name__ + ":" + msg[:60]


def guarded(f):
    try:
        return "ok", f()
    except Exception as e:      # canonicalised
        return "err " + classify_exc(e), None


# ------------------------------------------------------------------------------------------------
# the specification, written directly (independent of expand_operator and of the model)
def compact_matrix(g, utab=None):
    """the defining matrix of the harness gate `g` (class G): for a user gate what the user supplied (the stored
    operator, f() or f(arg_value)), evaluated by the harness itself; for a library gate the DOCUMENTED matrix
    (props/c01_gatedoc.py, transcribed from the docstrings) — never a matrix computed by qutip_qip, and name,
    argument and placement are the harness's own, not read back from the circuit object"""
    if utab and g.lookup_name() in utab:
        u = utab[g.lookup_name()]
        M = val_mat(u.mat)
        return g.arg * M if u.kind == "fn1" else M
    if g.via == "ControlledGate":
        return ctrl_value(doc_matrix(g.name, g.arg_value()), len(g.c), g.cv)
    return doc_matrix(g.name, g.arg_value())


def embed_np(U, qs, N):
    k = len(qs)
    rest = [q for q in range(N) if q not in qs]
    M = np.kron(U, np.eye(2 ** (N - k))).reshape([2] * (2 * N))
    order = list(qs) + rest                      # axis i of M is qubit order[i]
    pos = {q: i for i, q in enumerate(order)}
    axes = [pos[q] for q in range(N)] + [N + pos[q] for q in range(N)]
    return np.transpose(M, axes).reshape(2 ** N, 2 ** N)


def apply_np(U, qs, N, psi):
    """(embed U) psi without building the big matrix; psi may have trailing columns"""
    k = len(qs)
    cols = psi.shape[1] if psi.ndim == 2 else 1
    T = psi.reshape([2] * N + [cols])
    Ut = U.reshape([2] * (2 * k))
    T = np.tensordot(Ut, T, axes=(list(range(k, 2 * k)), list(qs)))
    T = np.moveaxis(T, list(range(k)), list(qs))
    return T.reshape(psi.shape)


def dense_prefixes(N, gates, utab=None):
    """the ordered products of the first 1, 2, ... gates"""
    return [dense_product(N, gates[:k + 1], utab) for k in range(len(gates))]


def dense_product(N, gates, utab=None):
    """the ordered product of the documented / user matrices embedded on the qubits the harness named"""
    D = np.eye(2 ** N, dtype=complex)
    for g in gates:
        if g.name == "GLOBALPHASE":
            D = np.exp(1j * g.arg_value()) * D
        else:
            D = embed_np(compact_matrix(g, utab), g.qubits(), N) @ D
    return D


# ------------------------------------------------------------------------------------------------
class EinsumSpy:
    """records the index lists handed to np.einsum by circuitsimulator (no change to /repo)"""

    def __init__(self):
        self.calls = []

    def __enter__(self):
        import qutip_qip.circuit.circuitsimulator as cs
        self.cs, self.real = cs, cs.np
        spy = self

        class Proxy:
            def __getattr__(self, a):
                return getattr(spy.real, a)

            def einsum(self, *args, **kw):
                spy.calls.append((list(args[1]), list(args[3]), list(args[4]), len(args[2].shape)))
                return spy.real.einsum(*args, **kw)
        cs.np = Proxy()
        return self

    def __exit__(self, *a):
        self.cs.np = self.real


# ------------------------------------------------------------------------------------------------
def library_catalogue():
    """every library gate with an exact matrix: (name, p8)"""
    out = [(n, 0) for n in FIXED]
    for n in ROT:
        # pi/4, -3pi/4, the boundary 2pi (RX/RY/RZ = -1 there: period 4pi), a negative angle beyond -2pi
        out += [(n, 2), (n, -6), (n, 16), (n, -20)]
    return out


def placed_gates(N, rot_angles=True, objects=False):
    """every placed exact library gate on N qubits, added by name; with `objects` also as an object of every exported
    gate class that builds it"""
    out = []
    for name, p8 in library_catalogue():
        if p8 not in (0, 2) and not rot_angles:
            continue
        nc, nt = SHAPE[name]
        if nc + nt > N:
            continue
        for qs in itertools.permutations(range(N), nc + nt):
            g = G(name, qs[nc:], qs[:nc], p8=p8)
            out.append(g)
            if objects:
                for via in CLASSES.get(name, []):
                    if name in ("TOFFOLI", "FREDKIN"):
                        out.append(G(name, list(qs), [], p8=p8, cn=True, via=via))
                    else:
                        out.append(G(name, qs[nc:], qs[:nc], p8=p8, via=via))
    for p8 in (3, -4, 16, -19):
        out.append(G("GLOBALPHASE", [], [], p8=p8))
    return out


def partial_class_objects(N=2):
    """objects of the classes that are functools.partial(_OneControlledGate, ...): they all carry the same `.name`;
    the rotations with one common angle (pi/4), every placement on N qubits"""
    out = []
    for name in ["CNOT", "CY", "CS", "CT", "CRX", "CRY", "CRZ"]:
        via = "CX" if name == "CNOT" else name
        for qs in itertools.permutations(range(N), 2):
            out.append(G(name, [qs[1]], [qs[0]], p8=(2 if name in ROT else 0), via=via))
    return out


def random_controlled_gate(rng, N):
    """a generic ControlledGate object: 1-2 controls, any control_value, a one-qubit target gate (oracle only)"""
    nc = rng.choice([1, 1, 2]) if N >= 3 else 1
    qs = rng.sample(range(N), nc + 1)
    name = rng.choice(CTRL_TARGETS)
    val = float_angle(rng) if name in ROT else None
    return G(name, [qs[nc]], qs[:nc], val=val, cn=False, via="ControlledGate", cv=rng.randrange(2 ** nc))


def phase_after_circuits():
    """GLOBALPHASE steps following a gate (the tensor of the previous step is then often C-contiguous), consecutive
    phase steps, a phase first: [g, P, P'], [P, g, P'] for every placed exact gate on 2 qubits and the in-order ones on 3"""
    P = lambda p8: G("GLOBALPHASE", [], [], p8=p8)
    out = []
    for N, gs in ((1, placed_gates(1, rot_angles=False)), (2, placed_gates(2, rot_angles=False)),
                  (3, [g for g in placed_gates(3, rot_angles=False) if g.qubits() == sorted(g.qubits())])):
        for g in gs:
            if g.name == "GLOBALPHASE":
                continue
            out.append((N, [g, P(3), P(-4)]))
            out.append((N, [P(5), g, P(16)]))
    return out


def retarget_items(rng, i, g, N):
    """script items that move gate number i (harness gate g) to another placement of the same shape on N qubits"""
    k = len(g.qubits())
    cur = g.qubits()
    for _ in range(8):
        qs = rng.sample(range(N), k)
        if qs != cur:
            break
    if g.cn:
        return [["t", i, qs]]
    nc = len(g.c)
    return [["c", i, qs[:nc]], ["t", i, qs[nc:]]]


def random_script(rng, gates, N):
    """[e] (sometimes omitted: the objects are placed before the first evaluation), then 1-3 rounds of (move 1-2 gates, e)"""
    script = [["e"]] if rng.random() < 0.7 else []
    cur = [G.from_js(g.js()) for g in gates]
    movable = [i for i, g in enumerate(gates) if g.name != "GLOBALPHASE" and g.qubits()]
    for _ in range(rng.randint(1, 3)):
        for i in rng.sample(movable, min(len(movable), rng.randint(1, 2))) if movable else []:
            items = retarget_items(rng, i, cur[i], N)
            for it in items:
                if it[0] == "t":
                    cur[i].t = list(it[2])
                else:
                    cur[i].c = list(it[2])
            script += items
        script.append(["e"])
    return script


def enc_script(script):
    d = lambda l: ".".join(map(str, l)) if l else "-"
    return ";".join("e" if it[0] == "e" else f"{it[0]}{it[1]}:{d(it[2])}" for it in script)


def control_value_histories():
    """histories that assign `gate.control_value` on a live generic Gate(name, controls, targets) object between
    evaluations: every evaluation reads the current value (run_reads_current_fields), so a value without a documented
    matrix must be refused AT EVALUATION TIME, the all-ones value / None accepted"""
    ws = []
    for name in CONTROLLED:
        nc, nt = SHAPE[name]
        k = nc + nt
        ones = 2 ** nc - 1
        val = 0.7 if name in ROT else None
        g = G(name, list(range(nc, k)), list(range(nc)), val=val, via="Gate") if val is not None else \
            G(name, list(range(nc, k)), list(range(nc)), via="Gate")
        bad = [v for v in range(2 ** nc) if v != ones]
        scripts = [[["e"], ["v", 1, bad[0]], ["e"]],
                   [["v", 1, bad[-1]], ["e"]],
                   [["v", 1, ones], ["e"], ["v", 1, bad[-1]], ["e"], ["v", 1, None], ["e"]]]
        for sc in scripts:
            ws.append({"kind": "retarget", "N": k, "gates": [G("SNOT", [0], []).js(), g.js()], "ug": [], "mode": "normal",
                       "script": sc})
    return ws


def retarget_witnesses():
    """systematic re-targeting histories for the oracle: every gate class on its minimal register + 1, moved once, placed
    after construction and after a first evaluation; incl. float-only classes (RZX, MS, SWAPALPHA, R, QASMU)"""
    import random
    rng = random.Random(7)
    ws = []
    names = [n for n in SHAPE if n != "GLOBALPHASE"]
    for name in names:
        nc, nt = SHAPE[name]
        k = nc + nt
        N = k + 1
        if name in ROT or name in ("SWAPalpha", "RZX"):
            val = 0.7
        elif name in ("R", "MS"):
            val = (0.7, -0.4)
        elif name == "QASMU":
            val = (0.7, -0.4, 1.1)
        else:
            val = None
        base = G(name, list(range(nc, k)), list(range(nc)), val=val) if val is not None else G(name, list(range(nc, k)), list(range(nc)))
        forms = [base] + [f for f in [base.as_object(rng)] if f is not None]
        for g in forms:
            mv = retarget_items(rng, 0, g, N)
            for script in (mv + [["e"]], [["e"]] + mv + [["e"]]):
                ws.append({"kind": "retarget", "N": N, "gates": [g.js()], "ug": [], "mode": "normal", "script": script})
    return ws


def restart_trigger_circuits():
    """the compact product restarts on the remaining gates once its single block covers all qubits: first a full block
    (TOFFOLI on all three qubits, or three one-qubit gates merged by a TOFFOLI), then a two-qubit gate given with
    DESCENDING qubits, then a gate acting inside that block, then more gates on further qubits"""
    out = []
    two = [("CNOT", 1), ("CPHASE", 1), ("ISWAP", 0), ("SQRTSWAP", 0), ("CT", 1)]
    for (a, nca) in two:
        for qa in ([2, 1], [2, 0], [1, 0]):
            for b, qb in (("SNOT", [qa[0]]), ("T", [qa[1]]), ("CNOT", [qa[1], qa[0]])):
                rest = [q for q in range(3) if q not in qa][0]
                for (c, ncc) in (("SWAP", 0), ("CNOT", 1), ("BERKELEY", 0)):
                    qc_ = [qa[0], rest] if qa[0] > rest else [rest, qa[0]]
                    for head in ([G("TOFFOLI", [2], [0, 1])],
                                 [G("X", [0], []), G("S", [1], []), G("SNOT", [2], []), G("TOFFOLI", [0], [2, 1])]):
                        mk = lambda n, nc, qs: G(n, qs[nc:], qs[:nc], p8=(2 if n in ROT else 0))
                        gb = G(b, qb, []) if b != "CNOT" else G("CNOT", [qb[1]], [qb[0]])
                        out.append((3, head + [mk(a, nca, qa), gb, mk(c, ncc, qc_), G("SNOT", [rest], [])]))
    return out


def qft_circuits():
    """the library's own QFT circuits (2-6 qubits, with and without the final swaps) as inputs: SNOT / CPHASE(2pi/2^k) /
    SWAP lists whose compact product restarts in several shapes"""
    from qutip_qip.algorithms.qft import qft_gate_sequence
    out = []
    for N in range(2, 7):
        for sw in (True, False):
            qc = qft_gate_sequence(N, swapping=sw)
            gs = []
            for g in qc.gates:
                av = g.arg_value
                gs.append(G(g.name, list(g.targets or []), list(g.controls or []),
                            val=(float(av) if av is not None else None)))
            out.append((N, gs))
    return out


CONTROLLED = ["CNOT", "CSIGN", "CZ", "CY", "CS", "CT", "CRX", "CRY", "CRZ", "CPHASE", "FREDKIN", "TOFFOLI"]


def control_value_gates(N=None):
    """every library gate with >= 1 control x form (by name, every exported class that builds it, the generic
    Gate(name, ...)) x control_value (None and every value 0 .. 2^k - 1) x two placements"""
    out = []
    for name in CONTROLLED:
        nc, nt = SHAPE[name]
        k = nc + nt
        for qs in (list(range(k)), list(range(k))[::-1]):
            for via in [None] + CLASSES.get(name, []) + ["Gate"]:
                for cv in [None] + list(range(2 ** nc)):
                    out.append((k, G(name, qs[nc:], qs[:nc], p8=(2 if name in ROT else 0), via=via, cv=cv)))
    return out


def maybe_control_value(rng, g, p=0.08):
    """with probability p an explicit control_value: mostly the legal redundant all-ones value, sometimes another one"""
    if g.user or not g.c or g.cn or g.via == "ControlledGate" or rng.random() >= p:
        return g
    k = len(g.c)
    g.cv = 2 ** k - 1 if rng.random() < 0.7 else rng.randrange(2 ** k)
    return g


def exact_angle(rng):
    """p8 (angle = p8*pi/8, even): inside (-2pi, 2pi), beyond it up to +-6pi, and the boundaries 0, +-pi, +-2pi, +-4pi"""
    r = rng.random()
    if r < 0.5:
        return 2 * rng.randint(-8, 8)
    if r < 0.8:
        return 2 * rng.randint(-24, 24)
    return rng.choice([-32, -16, -8, 0, 8, 16, 32, 18, -18, 48])


BOUNDARY_ANGLES = [0.0, 1e-9, -1e-9, math.pi, -math.pi, 2 * math.pi, -2 * math.pi, 2 * math.pi + 0.5, -2 * math.pi - 0.5,
                   3 * math.pi, -3 * math.pi, 4 * math.pi, -4 * math.pi, 9.5, -7.0, 13.0, 6 * math.pi - 1e-9]


def float_angle(rng):
    """a float angle: uniform in (-7, 7), uniform in (-20, 20) (|angle| >= 2pi most of the time), or a boundary value"""
    r = rng.random()
    if r < 0.4:
        return rng.uniform(-7, 7)
    if r < 0.7:
        return rng.uniform(-20, 20)
    return rng.choice(BOUNDARY_ANGLES)


def random_exact_gate(rng, N):
    r = rng.random()
    if r < 0.08:
        return G("GLOBALPHASE", [], [], p8=rng.randint(-40, 40))
    while True:
        name, _ = rng.choice(library_catalogue())
        nc, nt = SHAPE[name]
        if nc + nt <= N:
            break
    qs = rng.sample(range(N), nc + nt)
    p8 = exact_angle(rng) if name in ROT else 0
    g = G(name, qs[nc:], qs[:nc], p8=p8)
    if nc and rng.random() < 0.08:
        g.via = "Gate"           # the generic class with a library name
    elif not (name in ("TOFFOLI", "FREDKIN") and rng.random() < 0.5):
        g = maybe_object(rng, g, 0.4)
    elif rng.random() < 0.5:
        g.via = name             # TOFFOLI(controls=[a, b], targets=[t]): the class, with its controls listed
    return maybe_control_value(rng, g)


def random_float_gate(rng, N):
    if N >= 2 and rng.random() < 0.12:
        return random_controlled_gate(rng, N)
    while True:
        name = rng.choice(ROT + FLOAT_ONLY + ["GLOBALPHASE"])
        nc, nt = SHAPE[name]
        if nc + nt <= N:
            break
    qs = rng.sample(range(N), nc + nt)
    ang = lambda: float_angle(rng)
    if name == "R" or name == "MS":
        val = (ang(), ang())
    elif name == "QASMU":
        val = (ang(), ang(), ang())
    else:
        val = ang()
    return maybe_object(rng, G(name, qs[nc:], qs[:nc], val=val), 0.4)


NARGS = {"R": 2, "MS": 2, "QASMU": 3}


def angle_sweep(angles=None, all_positions=True):
    """every parametric library gate on its minimal register (natural and reversed placement), each argument
    position swept over the boundary / large angles -> oracle witnesses"""
    ws = []
    for name in ROT + FLOAT_ONLY + ["GLOBALPHASE"]:
        nc, nt = SHAPE[name]
        k = nc + nt
        placements = [list(range(k))] + ([list(range(k))[::-1]] if k > 1 else [])
        na = NARGS.get(name, 1)
        for a in (BOUNDARY_ANGLES if angles is None else angles):
            for pos in range(na if all_positions else 1):
                if na == 1:
                    val = a
                else:
                    base = [0.7, -0.4, 1.1][:na]
                    base[pos] = a
                    val = tuple(base)
                for qs in placements:
                    ws.append({"kind": "circuit", "N": max(k, 1), "gates": [G(name, qs[nc:], qs[:nc], val=val).js()], "ug": []})
    return ws


SHADOW = {"X": 1, "T": 1, "S": 1, "RX": 1, "SWAP": 2}      # user-gate names that shadow a library gate (arity of its class)


def random_user_table(rng):
    names = ["UA", "UB", "UC"] + rng.sample(sorted(SHADOW), 2)
    rng.shuffle(names)
    ugs = UTable(mode=rng.choice(["normal", "normal", "normal", "late", "transfer"]))
    for name in names[:rng.randint(1, 3)]:
        m = SHADOW[name] if name in SHADOW else rng.choice([1, 1, 2, 2, 3])
        kind = rng.choice(["oper", "fn0", "fn1"])
        mat = [[rand_scalar(rng) for _ in range(2 ** m)] for _ in range(2 ** m)]
        ugs.append(UG(name, kind, m, mat))
    return ugs


def shadow_circuits():
    """a user gate that SHADOWS a library name (X T S RX SWAP), as stored operator / 0- / 1-parameter function, added by
    name or as an instance of the library class of that name, with the table registered before the adds, after them,
    or the gates taken over from another circuit: [SNOT, shadow, CNOT, shadow'] on 2 qubits"""
    out = []
    one = (0, [1, 0, 0, 0, 0, 0, 0, 0])
    zero = (0, [0] * 8)
    for name, m in sorted(SHADOW.items()):
        for kind in ("oper", "fn0", "fn1"):
            # a matrix that is neither the library's nor symmetric: [[1, 2], [0, i]] (x) ...
            base = [[one, (0, [2, 0, 0, 0, 0, 0, 0, 0])], [zero, (0, [0, 0, 0, 0, 1, 0, 0, 0])]]
            if m == 1:
                mat = base
            else:
                mat = [[zero] * 4 for _ in range(4)]
                for i, v in enumerate([one, (0, [0, 0, 0, 0, 1, 0, 0, 0]), (0, [3, 0, 0, 0, 0, 0, 0, 0]), (1, [1, 0, 0, 0, 0, 0, 0, 0])]):
                    mat[i][(i + 1) % 4] = v
            for via in (None, name):
                for mode in ("normal", "late", "transfer"):
                    arg = (lambda a: a if kind == "fn1" else None)
                    t1, t2 = ([0], [1]) if m == 1 else ([1, 0], [0, 1])
                    gates = [G("SNOT", [0], []), G(name, t1, [], user=True, arg=arg(2), via=via),
                             G("CNOT", [1], [0]), G(name, t2, [], user=True, arg=arg(-3), via=via)]
                    out.append((2, gates, UTable([UG(name, kind, m, mat)], mode=mode)))
    return out


def random_gate_list(rng, N, L, ugs):
    """up to L exact library gates / user gates of the table on N qubits"""
    gates = []
    for _ in range(L):
        usable = [u for u in ugs if u.m <= N]
        if usable and rng.random() < 0.4:
            u = rng.choice(usable)
            gates.append(G(u.name, rng.sample(range(N), u.m), [], user=True,
                           arg=(rng.randint(-3, 3) if u.kind == "fn1" else None),
                           via=(u.name if u.name in SHADOW and rng.random() < 0.5 else None)))
        else:
            g = random_exact_gate(rng, N)
            # a library name shadowed by the user table resolves to the user matrix: keep arities consistent
            sh = [u for u in ugs if u.name in (g.name, g.lookup_name())]
            if sh:
                continue
            gates.append(g)
    return gates


def random_state(rng, n, dense=False):
    v = [rand_scalar(rng, dense) for _ in range(n)]
    if all(all(x == 0 for x in c) for _, c in v):
        v[rng.randrange(n)] = (0, [1, 0, 0, 0, 0, 0, 0, 0])
    return v


# ------------------------------------------------------------------------------------------------
class C01(PropertyCheck):
    id = "C01"
    lean_modules = ["QipVerif.Props.C01"]
    drivers = ["drv_ket"]
    theorems = [
        "QipVerif.C01.einsum_lists_spec",
        "QipVerif.C01.stepKet_contraction",
        "QipVerif.C01.stepKet_eq_embed_mulVec",
        "QipVerif.C01.update_spec",
        "QipVerif.C01.stepOper_eq_embed_mul",
        "QipVerif.C01.stepKet_model_eq_embed_mulVec",
        "QipVerif.C01.ket_run_eq_den",
        "QipVerif.C01.oper_run_eq_den",
        "QipVerif.C01.unitary_eq_den",
        "QipVerif.C01.dm_run_eq_den",
        "QipVerif.C01.ket2dm_spec",
        "QipVerif.C01.propagators_expand_eq",
        "QipVerif.C01.propagators_product_eq_den",
        "QipVerif.C01.den_eq_denG",
        "QipVerif.C01.getGateUnitary_spec",
        "QipVerif.C01.embL_spec",
        "QipVerif.C01.compact_product_eq_den",
        "QipVerif.C01.compact_circuit_eq_den",
        "QipVerif.C01.sortDedup_spec",
        "QipVerif.C01.oracles_legal",
        "QipVerif.C01.C01_counterexample_unsorted_order",
        "QipVerif.C01.resolve_user_spec",
        "QipVerif.C01.resolve_library_spec",
        "QipVerif.C01.control_value_spec",
        "QipVerif.C01.user_circuit_run_eq_den",
        "QipVerif.C01.propagators_measurement_spec",
        "QipVerif.C01.propagators_ignore_product_eq_den",
        "QipVerif.C01.propagators_product_rtl_eq_den_reverse",
        "QipVerif.C01.propagators_compact_eq",
        "QipVerif.C01.compact_pipeline_eq_den",
        "QipVerif.C01.library_circuit_eq_denG",
        "QipVerif.C01.trajectory_prefix",
        "QipVerif.C01.trajectory_eq_den",
        "QipVerif.C01.trajectory_oper_eq_den",
        "QipVerif.C01.run_reads_current_fields",
        "QipVerif.C01.retargeted_run_eq_den",
    ]
    technique = ("Lean 4 proof (list combinatorics of the einsum index lists; contraction = embedded operator via the split "
                 "equivalence; induction over the gate list; invariant of the block list of the compact product; decision logic "
                 "of the gate lookup with opaque user functions) + exact model/implementation correspondence + an oracle that "
                 "judges the real code against documented gate matrices written independently of operations/gates.py")
    level_text = ("Lean 4 theorems over the executable model (the same definitions the driver runs, instantiated with C), for every "
                  "register size, every injective in-range placement, every measurement-free circuit of library or user gates "
                  "(GLOBALPHASE as a scalar) and every input state: the index lists of the einsum call are characterised; one step is "
                  "the contraction they prescribe (over arbitrary scalars) and equals multiplication by the embedded gate matrix; "
                  "ket, operator-valued and density-matrix runs, compute_unitary, the expanded propagators and their left-to-right "
                  "product (right-to-left: the product of the reversed circuit), propagators(expand=False) handed to the compact "
                  "product (block-merging heuristic with the sorting oracle, all recursion depths; returned index list = sorted "
                  "distinct qubits) equal the ordered product denP of the embedded gate matrices. The step from gate objects to "
                  "matrix steps is part of the model (get_all_qubits, GLOBALPHASE name test, _get_gate_unitary): the lookup returns "
                  "exactly what the user supplied (stored operator, f(), f(arg_value) for an arbitrary function f; shadowing of "
                  "library names; refusals), circuits of user gates run to the product of the user's matrices, and circuits of "
                  "library gates given in the circuit IR run to denG (the shared specification object built from the matrices "
                  "generated from the source, whose documented forms are C09) for every real angle. propagators with "
                  "ignore_measurement drop exactly the measurements, without it a measurement is refused. An explicit control_value "
                  "of a library gate is accepted iff it is the all-ones mask of its listed controls, otherwise refused "
                  "(control_value_spec; every gate with controls x form x value on the code). Stepping: the state "
                  "recorded after step k is the product of the first k gates applied to the input whatever steps follow "
                  "(trajectory_prefix / trajectory_eq_den); on the code every object returned by sim.state is kept and the "
                  "trajectory is compared after the last step (no-aliasing contract, cf. C16 no_alias). Gate objects have mutable "
                  "targets / controls: after any history of re-assignments every evaluation is that of fresh objects with the "
                  "current fields (run_reads_current_fields, retargeted_run_eq_den; checked on one live circuit object along "
                  "re-targeting histories). An unsorted set order "
                  "breaks the compact product (counter-example proved in the kernel; repaired in /repo by cbd9b48). The model is "
                  "tied to the code by an exact correspondence (amplitudes in Z[zeta16][1/2]) over every placed library gate on 1-3 "
                  "qubits (angles incl. 2pi and -5pi/2; added by name and as objects of every exported gate class), pairs of placed "
                  "gates incl. all pairs of same-name objects of the partial(_OneControlledGate) classes, seeded random circuits up to 6 qubits with user "
                  "gates and angles up to +-6pi, circuits with measurements, and 9-11(12) qubit compact products.")
    level_note = ("The theorems describe /repo as repaired by the fix commits cbd9b48 (sorted merged indices), 26a687b (scalar conjugate "
                  "for GLOBALPHASE in density-matrix mode) and c6903aa (state getter). Trusted: Lean kernel; the meaning of np.einsum / "
                  "reshape / tensor / permute / dag / ket2dm as written in the model (validated by the correspondence); that the "
                  "driver's exact library matrices (Model/Circuit.lean gateE at multiples of pi/8) and compactC of Lemmas/Sem.lean "
                  "are the code's gate functions is C09's statement, here it is checked by the correspondence (exact angles) and by "
                  "the oracle against the documented matrices of py/props/c01_gatedoc.py (float angles, |angle| >= 2pi, negative and "
                  "boundary angles). precompute_unitary=True only emits a warning in this version and is compared as a path.")
    trusted_base = [
        "Lean 4.33 kernel; axioms propext, Classical.choice, Quot.sound",
        "meaning of np.einsum with explicit index lists, ndarray.reshape (row-major), qutip.tensor, Qobj.permute, "
        "Qobj.dag, ket2dm as written in Model/SimKet.lean and Model/Embed.lean (validated by this correspondence, not proved)",
        "Python set iteration order: modelled as an arbitrary order oracle; the repaired code sorts",
        "py/props/c01.py (harness; evaluation of exact cyclotomic numbers in floating point, band 1e-12)",
        "py/props/c01_gatedoc.py (the documented matrices of the library gates, transcribed by hand from the docstrings; "
        "the oracle's notion of 'defining matrix'); user matrices are opaque and evaluated by the harness itself",
        "the exact library matrices of the driver are those of C09 (Model/Circuit.lean gateE)",
    ]
    assumptions = ["register of qubits (dims = [2]*N); measurement-free circuits without classical controls "
                   "(measurements only as elements dropped / refused by propagators)"]
    rule = ("case = (N, gate list with placements and exact angles — each gate added by name or as an object of an exported "
            "gate class —, user-gate table, exact input state, evaluation path); "
            "non-trivial = at least one gate that is not placed on the leading qubits in natural order, or >= 2 gates; "
            "parametric (float-angle) circuits (angles uniform in (-7,7) and (-20,20) and boundary values 0, +-pi, +-2pi, "
            "+-4pi ...) are compared with the dense product of the documented matrices only and tagged oracle-only")

    # --------------------------------------------------------------------------------------------
    def _impl_paths(self, N, gates, ugs, ket, rho, oper, paths=None):
        """every (requested) evaluation path of the real code on one circuit -> dict name -> (status, array/list)"""
        import qutip
        from qutip_qip.circuit import CircuitSimulator
        from qutip_qip.operations import gate_sequence_product
        out = {}
        dims = [[2] * N, [2] * N]
        qket = qutip.Qobj(val_vec(ket).reshape(-1, 1), dims=[[2] * N, [1] * N])
        qrho = qutip.Qobj(val_mat(rho), dims=dims)
        qop = qutip.Qobj(val_mat(oper), dims=dims)
        st, qc = guarded(lambda: build_circuit(N, gates, ugs))
        if st != "ok":
            return {"build": (st, None)}, None
        want = lambda name: paths is None or name in paths
        with EinsumSpy() as spy:
            out["ket"] = guarded(lambda: qc.run(qket).full().ravel())
        out["einsum_lists"] = ("ok", spy.calls)

        def steps(mode, state):
            # the trajectory is KEPT as the objects sim.state returned and read only after the last step: a returned
            # state must never change afterwards (no aliasing of the simulator's buffer; cf. C16 no_alias)
            sim = CircuitSimulator(qc, mode=mode)
            sim.initialize(state)
            kept = []
            for _ in range(len(qc.gates)):
                sim.step()
                kept.append(sim.state)
            return [k.full().copy() for k in kept]
        if paths is None:
            def pre():
                import warnings
                with warnings.catch_warnings():
                    warnings.simplefilter("ignore")
                    return CircuitSimulator(qc, precompute_unitary=True).run(qket).get_final_states(0).full().ravel()
            out["ketpre"] = guarded(pre)
        if want("ket2nd"):
            def second():
                sim = CircuitSimulator(qc)
                sim.run(qutip.Qobj(val_vec(ket)[::-1].reshape(-1, 1).copy(), dims=[[2] * N, [1] * N]))
                return sim.run(qket).get_final_states(0).full().ravel()
            out["ket2nd"] = guarded(second)
        if want("ket_steps"):
            out["ket_steps"] = guarded(lambda: [s.ravel() for s in steps("state_vector_simulator", qket)])
        if want("oper"):
            out["oper"] = guarded(lambda: CircuitSimulator(qc, mode="state_vector_simulator").run(qop).get_final_states(0).full())
        if want("oper_steps"):
            out["oper_steps"] = guarded(lambda: steps("state_vector_simulator", qop))
        if want("dm"):
            out["dm"] = guarded(lambda: qc.run(qrho).full())
        if want("dm_steps"):
            out["dm_steps"] = guarded(lambda: steps("density_matrix_simulator", qrho))
        if want("dmket"):
            out["dmket"] = guarded(lambda: CircuitSimulator(qc, mode="density_matrix_simulator").run(qket).get_final_states(0).full())
        if want("unitary"):
            out["unitary"] = guarded(lambda: qc.compute_unitary().full())
        if want("props1"):
            out["props1"] = guarded(lambda: [p.full() for p in qc.propagators(expand=True)])
        if want("props0"):
            out["props0"] = guarded(lambda: [p.full() for p in qc.propagators(expand=False)])

        def prod(ltr):
            r = gate_sequence_product(qc.propagators(expand=True), left_to_right=ltr)
            return "int1" if isinstance(r, int) else r.full()
        if want("prod_ltr"):
            out["prod_ltr"] = guarded(lambda: prod(True))
        if want("prod_rtl"):
            out["prod_rtl"] = guarded(lambda: prod(False))

        def compact():
            Us = qc.propagators(expand=False)
            inds = [g.qubits() if g.name != "GLOBALPHASE" else list(range(N)) for g in gates]
            U, oi = gate_sequence_product(Us, inds_list=inds, expand=True)
            return [list(oi), U.full()]
        if want("compact"):
            out["compact"] = guarded(compact)
        return out, qc

    @staticmethod
    def _model_lines(N, gates, ugs, ket, rho, oper, paths=None):
        base = f"N={N} ug={enc_ug(ugs)} ops={enc_ops(gates)}"
        allp = [
            ("ket", f"ket {base} state={enc_vec(ket)} trace=0"),
            ("ketpre", f"ket {base} state={enc_vec(ket)} trace=0"),      # precompute_unitary=True: a warning, same run
            ("ket2nd", f"ket {base} state={enc_vec(ket)} trace=0"),      # second run on one CircuitSimulator: no history
            ("ket_steps", f"ket {base} state={enc_vec(ket)} trace=1"),
            ("oper", f"oper {base} state={enc_mat(oper)} trace=0"),
            ("oper_steps", f"oper {base} state={enc_mat(oper)} trace=1"),
            ("dm", f"dm {base} state={enc_mat(rho)} trace=0"),
            ("dm_steps", f"dm {base} state={enc_mat(rho)} trace=1"),
            ("dmket", f"dmket {base} state={enc_vec(ket)}"),
            ("unitary", f"unitary {base}"),
            ("props1", f"props {base} expand=1"),
            ("props0", f"props {base} expand=0"),
            ("prod_ltr", f"prod {base} ltr=1"),
            ("prod_rtl", f"prod {base} ltr=0"),
            ("compact", f"compact {base} ord=sorted"),
        ]
        sel = [(n, l) for n, l in allp if paths is None or (n in paths and n != "ketpre")]
        sel += [("lists", f"lists n={N} targets={','.join(map(str, g.qubits()))}") for g in gates if g.name != "GLOBALPHASE"]
        return sel

    def _model_paths(self, ctx, N, gates, ugs, ket, rho, oper):
        sel = self._model_lines(N, gates, ugs, ket, rho, oper)
        outs = ctx.driver("drv_ket").run([l for _, l in sel])
        return {n: o for (n, _), o in zip(sel, outs) if n != "lists"}

    @staticmethod
    def _decode(name, ans):
        """model answer -> (status, value) in the same shape as the implementation's"""
        if not ans.startswith("ok"):
            return ans.replace("embed-index", "index"), None     # both are IndexError
        body = ans[3:].strip()
        if name in ("ket", "ketpre", "ket2nd"):
            return "ok", parse_vec(body)
        if name == "ket_steps":
            return "ok", [parse_vec(b) for b in body.split("#")] if body else []
        if name in ("oper", "dm", "dmket", "unitary"):
            return "ok", parse_mat(body)
        if name in ("oper_steps", "dm_steps", "props1", "props0"):
            return "ok", ([] if body in ("", "-") else [parse_mat(b) for b in body.split("#")])
        if name in ("prod_ltr", "prod_rtl"):
            return "ok", ("int1" if body == "int1" else parse_mat(body))
        if name == "compact":
            inds, m = body.split("|")
            return "ok", [[] if inds == "-" else [int(x) for x in inds.split(".")], parse_mat(m)]
        raise ValueError(name)

    @staticmethod
    def _same(name, mv, iv):
        if isinstance(mv, str) or isinstance(iv, str):
            return isinstance(mv, str) and isinstance(iv, str) and mv == iv
        if name == "compact":
            return mv[0] == iv[0] and close(iv[1], mv[1])
        if isinstance(mv, list):
            return len(mv) == len(iv) and all(close(b, a) for a, b in zip(mv, iv))
        return close(iv, mv)

    def _exact_case(self, ctx, res, N, gates, ugs, tags, inp_extra=None, paths=None):
        self._exact_batch(ctx, res, [(N, gates, ugs, tags, paths)])

    def _exact_batch(self, ctx, res, cases, oracle_every=1, chunk=40):
        """circuits (N, gates, ugs, tags, paths): all requested paths, exact comparison with the model (one driver run
        per chunk) + the oracle on the same circuits"""
        for c0 in range(0, len(cases), chunk):
            preps, lines = [], []
            for (N, gates, ugs, tags, paths) in cases[c0:c0 + chunk]:
                rng = ctx.rng
                D = 2 ** N
                ket = random_state(rng, D, dense=rng.random() < 0.3)
                rho = [[rand_scalar(rng) for _ in range(D)] for _ in range(D)]
                oper = [[rand_scalar(rng) for _ in range(D)] for _ in range(D)]
                sel = self._model_lines(N, gates, ugs, ket, rho, oper, paths)
                preps.append((N, gates, ugs, tags, paths, ket, rho, oper, [n for n, _ in sel], len(lines)))
                lines += [l for _, l in sel]
            outs = ctx.driver("drv_ket").run(lines)
            for k, (N, gates, ugs, tags, paths, ket, rho, oper, names, off) in enumerate(preps):
                answers = outs[off:off + len(names)]
                self._compare_case(ctx, res, N, gates, ugs, tags, paths, ket, rho, oper, names, answers,
                                   with_oracle=((c0 + k) % oracle_every == 0))

    def _compare_case(self, ctx, res, N, gates, ugs, tags, paths, ket, rho, oper, names, answers, with_oracle=True):
        inp = {"N": N, "gates": [g.js() for g in gates], "ug": [[u.name, u.kind, u.m] for u in ugs], "ket": enc_vec(ket)[:80]}
        if ugs:
            inp["mode"] = table_mode(ugs)
        witness = {"kind": "circuit", "N": N, "gates": [g.js() for g in gates], "ug": [u.js() for u in ugs],
                   "mode": table_mode(ugs)}
        nontrivial = len(gates) >= 2 or any(g.qubits() != list(range(len(g.qubits()))) for g in gates)
        impl, qc = self._impl_paths(N, gates, ugs, ket, rho, oper, paths)
        if "build" in impl and impl["build"][0] == "err controlValue":
            # the object is refused when it is built (class forms); the model refuses every evaluation
            impl = {n: impl["build"] for n in names}
            impl["einsum_lists"] = ("ok", [])
        if "build" in impl:
            res.case(inp, nontrivial, tags + ["build-error"])
            res.disagree(inp, "circuit", impl["build"][0], "circuit construction failed", witness)
            return
        list_answers = []
        for name, ans in zip(names, answers):
            if name == "lists":
                list_answers.append(ans)
                continue
            ms, mv = self._decode(name, ans)
            ist, iv = impl[name]
            res.case(dict(inp, path=name), nontrivial, tags + ["path=" + name, "verdict=" + ms.split(":")[0]])
            if ms != ist or (ms == "ok" and not self._same(name, mv, iv)):
                res.disagree(dict(inp, path=name), ms if ms != "ok" else "value", ist if ist != "ok" else "value",
                             f"path {name}: model and implementation differ", witness)
        # index lists handed to einsum (ket run): one call per non-phase gate
        calls = impl["einsum_lists"][1]
        if impl["ket"][0] == "ok":
            got = [[c[0], c[1], c[2]] for c in calls]
            exp = []
            for o in list_answers:
                anc, tgt, idx, new = [[int(x) for x in p.split(",") if x] for p in o[3:].split("|")]
                exp.append([anc + tgt, idx, new])
            res.case(dict(inp, path="einsum_lists"), nontrivial, tags + ["path=einsum_lists"])
            if got != exp:
                res.disagree(dict(inp, path="einsum_lists"), exp, got, "index lists handed to np.einsum", witness)
        # the property itself on the same circuit (dense product)
        if with_oracle:
            fails, detail = self._oracle_circuit(N, gates, ugs, ctx.rng)
            if fails:
                res.disagree(dict(inp, path="oracle"), "dense product", detail, "an evaluation path leaves the dense product", witness)

    def _float_case(self, ctx, res, N, gates, tags):
        inp = {"N": N, "gates": [g.js() for g in gates]}
        witness = {"kind": "circuit", "N": N, "gates": [g.js() for g in gates], "ug": []}
        res.case(inp, True, tags + ["oracle-only"])
        fails, detail = self._oracle_circuit(N, gates, [], ctx.rng)
        if fails:
            res.disagree(inp, "dense product", detail, "an evaluation path leaves the dense product", witness)

    # --------------------------------------------------------------------------------------------
    def _big_compact(self, ctx, res, N, gates, tags):
        """9-12 qubits: compact product, sampled columns, exact against the model"""
        rng = ctx.rng
        from qutip_qip.operations import gate_sequence_product
        inp = {"N": N, "gates": [g.js() for g in gates], "path": "compact-big"}
        witness = {"kind": "compact", "N": N, "gates": [g.js() for g in gates]}
        res.case(inp, True, tags + ["path=compact-big", f"N={N}"])
        qc = build_circuit(N, gates)
        st, r = guarded(lambda: gate_sequence_product(qc.propagators(expand=False),
                                                      inds_list=[g.qubits() for g in gates], expand=True))
        if st != "ok":
            res.disagree(inp, "ok", st, "compact product raised", witness)
            return
        U, oi = r
        used = sorted(set(q for g in gates for q in g.qubits()))
        n = len(used)
        full = U.full()
        cols = rng.sample(range(2 ** n), 3)
        rows = rng.sample(range(2 ** n), 24)
        ents = [(x, y) for y in cols for x in rows]
        line = (f"compact N={N} ug=- ops={enc_ops(gates)} ord=sorted entries=" + ",".join(f"{x}.{y}" for x, y in ents))
        o = ctx.driver("drv_ket").run([line])[0]
        if not o.startswith("ok"):
            res.disagree(inp, o, "ok", "model refused", witness)
            return
        inds, vals = o[3:].split("|")
        minds = [int(x) for x in inds.split(".")]
        mv = parse_vec(vals)
        iv = np.array([full[x, y] for x, y in ents])
        if minds != list(oi) or not close(iv, mv):
            res.disagree(inp, [minds, "entries"], [list(oi), "entries"], "compact product (sampled entries)", witness)
        fails, detail = self._oracle_compact(N, gates, rng)
        if fails:
            res.disagree(inp, "dense product", detail, "compact product leaves the dense product", witness)

    def _random_big(self, rng, N):
        gates = []
        for q in range(N):
            name = rng.choice(["X", "Y", "T", "S", "SNOT", "SQRTNOT", "RX", "RY"])
            gates.append(maybe_object(rng, G(name, [q], [], p8=2 * rng.randint(-3, 3) if name in ROT else 0), 0.3))
        rng.shuffle(gates)
        for _ in range(rng.randint(1, 3)):
            name = rng.choice(["CNOT", "CSIGN", "SWAP", "ISWAP", "BERKELEY", "SQRTSWAP", "TOFFOLI", "FREDKIN", "CT"])
            nc, nt = SHAPE[name]
            hi = [q for q in range(N) if q >= 4]
            qs = rng.sample(range(N), nc + nt)
            if rng.random() < 0.7:                 # descending, high indices: the set-order-sensitive shape
                qs = sorted(rng.sample(hi, min(len(hi), nc + nt)) if len(hi) >= nc + nt else qs, reverse=True)
            gates.append(maybe_object(rng, G(name, qs[nc:], qs[:nc]), 0.3))
        return gates

    # --------------------------------------------------------------------------------------------
    def _malformed(self, ctx, res):
        rng = ctx.rng
        import qutip
        Z, ONE = (0, [0] * 8), (0, [1, 0, 0, 0, 0, 0, 0, 0])
        cases = []
        # out-of-range target, duplicate targets, wrong-arity user gate, user-gate lookup errors
        cases.append(("range", 2, [G("X", [2], [])], []))
        cases.append(("range", 3, [G("CNOT", [3], [0])], []))
        cases.append(("dup", 2, [G("SWAP", [0, 0], [])], []))
        cases.append(("dup", 3, [G("CNOT", [1], [1])], []))
        m2 = [[rand_scalar(rng) for _ in range(4)] for _ in range(4)]
        m1 = [[rand_scalar(rng) for _ in range(2)] for _ in range(2)]
        cases.append(("arity", 2, [G("UA", [0], [], user=True)], [UG("UA", "oper", 2, m2)]))
        cases.append(("arity", 2, [G("UA", [0, 1], [], user=True)], [UG("UA", "fn0", 1, m1)]))
        cases.append(("user-controls", 2, [G("UA", [0], [1], user=True)], [UG("UA", "oper", 1, m1)]))
        cases.append(("user-controls", 2, [G("UA", [0], [], user=True, cn=False)], [UG("UA", "oper", 1, m1)]))
        cases.append(("user-fn2", 2, [G("UA", [1], [], user=True)], [UG("UA", "fn2", 1, m1)]))
        cases.append(("user-other", 2, [G("UA", [1], [], user=True)], [UG("UA", "other", 1, m1)]))
        cases.append(("unknown", 2, [G("NOPE", [1], [])], []))
        cases.append(("user-phase", 1, [G("GLOBALPHASE", [], [], p8=4)], [UG("GLOBALPHASE", "oper", 1, m1)]))
        for kind, N, gates, ugs in cases:
            D = 2 ** N
            ket = random_state(rng, D)
            rho = [[rand_scalar(rng) for _ in range(D)] for _ in range(D)]
            inp = {"malformed": kind, "N": N, "gates": [g.js() for g in gates], "ug": [[u.name, u.kind, u.m] for u in ugs]}
            impl, qc = self._impl_paths(N, gates, ugs, ket, rho, rho)
            model = self._model_paths(ctx, N, gates, ugs, ket, rho, rho)
            for name in ("ket", "dm", "unitary", "props1", "props0"):
                if "build" in impl:
                    break
                ms, mv = self._decode(name, model[name])
                ist, iv = impl[name]
                res.case(dict(inp, path=name), True, ["malformed=" + kind, "verdict=" + ms])
                if ms != ist or (ms == "ok" and not self._same(name, mv, iv)):
                    res.disagree(dict(inp, path=name), ms if ms != "ok" else "value", ist if ist != "ok" else "value",
                                 f"malformed input, path {name}", None)
        # lookup table
        kinds = ["oper", "fn0", "fn1", "fn2", "other"]
        lines, exp = [], []
        for k in kinds:
            for cn in (0, 1):
                for present in (True, False):
                    u = UG("UA", k, 1, m1)
                    lines.append(f"lookup ug={u.enc()} name={'UA' if present else 'X'} cn={cn}")
                    from qutip_qip.circuit import QubitCircuit
                    from qutip_qip.operations import Gate
                    qc = QubitCircuit(2, user_gates={"UA": u.pyobj()})
                    g = Gate("UA" if present else "X", targets=[0], controls=(None if cn else [1]), arg_value=2)
                    calls = []
                    st, r = guarded(lambda: qc._get_gate_unitary(g))
                    if st == "ok":
                        M = val_mat(m1)
                        if not present:
                            st = "ok library"
                        elif k == "oper":
                            st = "ok userOper" if np.allclose(r.full(), M) else "ok ?"
                        elif k == "fn0":
                            st = "ok userCall0" if np.allclose(r.full(), M) else "ok ?"
                        elif k == "fn1":
                            st = "ok userCall1" if np.allclose(r.full(), 2 * M) else "ok ?"
                    exp.append(st)
        outs = ctx.driver("drv_ket").run(lines)
        for l, o, e in zip(lines, outs, exp):
            res.case({"lookup": l[:60]}, True, ["lookup", "verdict=" + o])
            if o != e:
                res.disagree({"lookup": l}, o, e, "_get_gate_unitary lookup", None)
        # the empty compact product
        from qutip_qip.operations import gate_sequence_product
        st, _r = guarded(lambda: gate_sequence_product([], inds_list=[], expand=True))
        o = ctx.driver("drv_ket").run(["compact N=1 ug=- ops=- ord=sorted"])[0]
        res.case({"malformed": "empty-compact"}, True, ["malformed=empty"])
        if o != st:
            res.disagree({"malformed": "empty-compact"}, o, st, "empty compact product", None)

    # --------------------------------------------------------------------------------------------
    def _measurement_stream(self, ctx, res):
        """propagators(expand, ignore_measurement) on circuits with measurements: model `propsm` against the code, and
        the property (product of the propagators with ignore_measurement=True = ordered product of the gates)"""
        rng = ctx.rng
        from qutip_qip.operations import gate_sequence_product
        cases, lines = [], []
        for i in range(120 if ctx.thorough else 36):
            N = rng.choice([1, 2, 2, 3])
            ugs = random_user_table(rng) if rng.random() < 0.3 else []
            gates = random_gate_list(rng, N, rng.randint(0, 4), ugs)
            for g in gates:
                g.cv = None          # the control_value dimension has its own streams
            meas = sorted(rng.randint(0, len(gates)) for _ in range(rng.choice([0, 1, 1, 2, 3])))
            for e in (0, 1):
                for ig in (0, 1):
                    cases.append((N, gates, ugs, meas, e, ig))
                    lines.append(f"propsm N={N} expand={e} ignore={ig} ug={enc_ug(ugs)} ops={enc_ops(gates)} "
                                 f"meas={','.join(map(str, meas)) if meas else '-'}")
        outs = ctx.driver("drv_ket").run(lines)
        for (N, gates, ugs, meas, e, ig), o in zip(cases, outs):
            inp = {"N": N, "gates": [g.js() for g in gates], "ug": [[u.name, u.kind, u.m] for u in ugs], "meas": meas,
                   "path": f"propagators(expand={bool(e)}, ignore_measurement={bool(ig)})"}
            witness = {"kind": "meas", "N": N, "gates": [g.js() for g in gates], "ug": [u.js() for u in ugs], "meas": meas}
            st, qc = guarded(lambda: build_circuit_meas(N, gates, ugs, meas))
            if st != "ok":
                res.case(inp, True, ["meas", "build-error"])
                res.disagree(inp, "circuit", st, "circuit construction failed", witness)
                continue
            ist, iv = guarded(lambda: [p.full() for p in qc.propagators(expand=bool(e), ignore_measurement=bool(ig))])
            ms, mv = self._decode("props1", o)
            res.case(inp, True, ["meas", f"nmeas={len(meas)}", f"ignore={ig}", f"expand={e}", "verdict=" + ms])
            if ms != ist or (ms == "ok" and not self._same("props1", mv, iv)):
                res.disagree(inp, ms if ms != "ok" else "value", ist if ist != "ok" else "value",
                             "propagators on a circuit with measurements", witness)
            if e == 1 and ig == 1:
                fails, detail = self._oracle_meas(N, gates, ugs, meas)
                if fails:
                    res.disagree(dict(inp, path="oracle"), "dense product", detail,
                                 "propagators(ignore_measurement=True) leave the ordered product of the gates", witness)

    def _oracle_meas(self, N, gates, ugs, meas):
        """the property on a circuit with measurements: the propagators with ignore_measurement=True are those of the
        gates alone (their product = the ordered product of the documented / user matrices); without the flag a
        circuit containing a measurement is refused"""
        from qutip_qip.operations import gate_sequence_product
        utab = {u.name: u for u in ugs}
        try:
            qc = build_circuit_meas(N, gates, ugs, meas)
            D = dense_product(N, gates, utab)
            Us = qc.propagators(expand=True, ignore_measurement=True)
        except Exception as e:
            return True, "propagators(ignore_measurement=True) raised " + repr(e)
        if len(Us) != len(gates):
            return True, f"{len(Us)} propagators for {len(gates)} gates"
        if gates:
            P = gate_sequence_product(Us).full()
            d = float(np.abs(P - D).max())
            if not d <= 1e-9 * max(1.0, float(np.abs(D).max())):
                return True, f"product of propagators(ignore_measurement=True) deviates from the ordered product by {d:.3g}"
        if meas:
            try:
                qc.propagators(expand=True)
                return True, "propagators() accepted a circuit with a measurement"
            except TypeError:
                pass
            except Exception as e:
                return True, "propagators() on a circuit with a measurement raised " + repr(e)
        return False, "propagators with ignore_measurement agree with the ordered product of the gates"

    # --------------------------------------------------------------------------------------------
    def correspondence(self, ctx, res):
        rng = ctx.rng
        t0 = time.time()
        # 1. exhaustive: every placed library gate on 3 qubits (and 1, 2 qubits)
        singles = placed_gates(3, objects=True)
        batch = []
        tag = lambda g: "object" if g.via else "by-name"
        for N in (1, 2):
            for g in placed_gates(N, rot_angles=False, objects=True):
                batch.append((N, [g], [], ["single", f"N={N}", tag(g)], None))
        for g in singles:
            batch.append((3, [g], [], ["single", "N=3", tag(g)], None))
        self._exact_batch(ctx, res, batch)
        res.notes.append(f"exhaustive: every placed exact library gate on 1, 2 and 3 qubits ({len(singles)} on 3 qubits), added by "
                         "name and as an object of every exported gate class that builds it, all paths")
        # every ordered pair of objects of the partial(_OneControlledGate) classes (equal .name, equal arg_value) on 2 qubits
        pobj = partial_class_objects(2)
        self._exact_batch(ctx, res, [(2, [a, b], [], ["pair", "N=2", "same-name-objects"], None) for a in pobj for b in pobj])
        res.notes.append(f"exhaustive: every ordered pair of placed objects of the classes CX CY CS CT CRX CRY CRZ on 2 qubits "
                         f"({len(pobj) ** 2} pairs; the objects share .name and arg_value), all paths")
        # user gates shadowing library names: by name / as class instance, table registered before / after / gates transferred
        sc = shadow_circuits()
        self._exact_batch(ctx, res, [(N, gs, ugs, ["shadow", "mode=" + ugs.mode, "instance" if gs[1].via else "by-name",
                                                   "kind=" + ugs[0].kind], None) for N, gs, ugs in sc])
        res.notes.append(f"exhaustive: user gate shadowing a library name ({', '.join(sorted(SHADOW))}) x (oper, fn0, fn1) x (added by "
                         f"name, instance of the library class) x (table before the adds, after them, gates taken from another "
                         f"circuit): {len(sc)} circuits, all paths")
        # control_value: every library gate with controls x form x value
        cvg = control_value_gates()
        self._exact_batch(ctx, res, [(N, [g], [], ["control-value", "cv=" + str(g.cv), "form=" + (g.via or "by-name"),
                                                   "refusal" if g.refusal_expected() else "accepted"], None) for N, g in cvg])
        res.notes.append(f"exhaustive: every library gate with controls ({', '.join(CONTROLLED)}) x (by name, exported classes, generic "
                         f"Gate) x control_value (None, 0 .. 2^k - 1) x 2 placements: {len(cvg)} gates, all paths")
        # compact product: restart after a full block, then a descending two-qubit gate, a gate inside it, more gates
        rt = restart_trigger_circuits()
        self._exact_batch(ctx, res, [(N, gs, [], ["compact-restart"], {"compact", "unitary", "ket", "props0"}) for N, gs in rt])
        res.notes.append(f"compact product: {len(rt)} circuits 'full block, descending two-qubit gate, gate inside it, further gates' "
                         "on 3 qubits; QFT circuits of 2-6 qubits with / without swaps (oracle only)")
        for N, gs in qft_circuits():
            self._float_case(ctx, res, N, gs, ["qft", f"N={N}"])
        # GLOBALPHASE after a gate / consecutive phases, stepped with the trajectory kept
        pa = phase_after_circuits()
        self._exact_batch(ctx, res, [(N, gs, [], ["phase-after", f"N={N}"], {"ket", "ket_steps", "oper_steps", "dm_steps"})
                                     for N, gs in pa])
        res.notes.append(f"exhaustive: [g, phase, phase'] and [phase, g, phase'] for every placed exact gate on 1-2 qubits and the "
                         f"in-order ones on 3 ({len(pa)} circuits), stepped with every returned state kept and compared at the end")
        ctx.log(f"  singles done at {time.time() - t0:.1f}s")
        # 2. every ordered pair of placed gates on 3 qubits (thorough), sampled (quick)
        light = placed_gates(3, rot_angles=False)
        mixed = placed_gates(3, rot_angles=False, objects=True)
        pair_paths = {"ket", "dm", "unitary", "prod_ltr", "compact", "ket_steps", "ket2nd"}
        if ctx.thorough:
            pairs = [(a, b) for a in light for b in light]
            pairs += [(rng.choice(mixed), rng.choice(mixed)) for _ in range(4000)]
            res.notes.append(f"exhaustive: every ordered pair of placed exact library gates (by name) on 3 qubits ({len(light) ** 2} "
                             "pairs) + 4000 sampled pairs of gates by name / class objects, paths ket/steps/dm/unitary/product/compact")
        else:
            pairs = [(rng.choice(mixed), rng.choice(mixed)) for _ in range(400)]
            res.notes.append("ordered pairs of placed gates (by name / class objects) on 3 qubits: 400 sampled "
                             "(by-name pairs exhaustive in the thorough tier)")
        self._exact_batch(ctx, res, [(3, [a, b], [], ["pair", "N=3"], pair_paths) for a, b in pairs],
                          oracle_every=(8 if ctx.thorough else 1))
        res.exhaustive = True
        ctx.log(f"  pairs done at {time.time() - t0:.1f}s")
        # 3. seeded random exact circuits up to 6 qubits, with user gates
        n_rand = 400 if ctx.thorough else 110
        for i in range(n_rand):
            N = rng.choice([1, 2, 2, 3, 3, 4, 4, 5]) if i % 10 else 6
            L = rng.randint(0, 8) if N < 6 else rng.randint(1, 4)
            ugs = random_user_table(rng) if rng.random() < 0.45 else []
            gates = random_gate_list(rng, N, L, ugs)
            paths = None if N <= 4 else {"ket", "ket2nd", "ket_steps", "dm", "unitary", "prod_ltr", "compact", "props0", "dmket"}
            if N == 6:
                paths = {"ket", "ket_steps", "dm", "unitary", "compact"}
            self._exact_case(ctx, res, N, gates, ugs, ["random", f"N={N}", f"len={len(gates)}", ("ug-" + table_mode(ugs)) if ugs else "noug"],
                             paths=paths)
        ctx.log(f"  random done at {time.time() - t0:.1f}s")
        # 4. parametric circuits: oracle only
        for i in range(300 if ctx.thorough else 60):
            N = rng.choice([1, 2, 3, 3, 4, 5, 6])
            gates = [random_float_gate(rng, N) if rng.random() < 0.7 else random_exact_gate(rng, N) for _ in range(rng.randint(1, 7))]
            self._float_case(ctx, res, N, gates, ["float", f"N={N}"])
        ctx.log(f"  float done at {time.time() - t0:.1f}s")
        # 5. compact product on 9-12 qubits (set-order-sensitive shapes)
        for i in range(24 if ctx.thorough else 6):
            N = rng.choice([9, 10, 11, 12] if ctx.thorough else [9, 10, 11])
            self._big_compact(ctx, res, N, self._random_big(rng, N), ["big"])
        ctx.log(f"  big done at {time.time() - t0:.1f}s")
        # 6. circuits with measurements: propagators(expand, ignore_measurement)
        self._measurement_stream(ctx, res)
        # 6b. re-targeting histories on live gate objects
        self._retarget_stream(ctx, res)
        ctx.log(f"  retarget done at {time.time() - t0:.1f}s")
        # 7. malformed stream
        self._malformed(ctx, res)
        ctx.log(f"correspondence took {time.time() - t0:.1f}s")

    # --------------------------------------------------------------------------------------------
    # the property itself on the real code
    def _oracle_circuit(self, N, gates, ugs, rng, qc=None):
        """`qc`: a live circuit object whose gate objects currently carry the fields of `gates` (re-targeting histories)"""
        import qutip
        from qutip_qip.circuit import CircuitSimulator
        from qutip_qip.operations import gate_sequence_product
        utab = {u.name: u for u in ugs}
        refused = [g for g in gates if g.refusal_expected()]
        try:
            if qc is None:
                qc = build_circuit(N, gates, ugs)
            D = dense_product(N, gates, utab)
        except Exception as e:
            if refused and classify_exc(e) == "controlValue":
                return False, "control_value without a documented matrix refused when the gate is built"
            return True, "building the circuit / its dense product raised " + repr(e)
        dim = 2 ** N
        r = np.random.RandomState(rng.randrange(2 ** 31))
        psi = r.randn(dim) + 1j * r.randn(dim)
        A = r.randn(dim, dim) + 1j * r.randn(dim, dim)
        rho = A @ A.conj().T
        dims = [[2] * N, [2] * N]
        qket = qutip.Qobj(psi.reshape(-1, 1), dims=[[2] * N, [1] * N])
        qrho = qutip.Qobj(rho, dims=dims)
        qop = qutip.Qobj(A, dims=dims)
        tol = 1e-9 * max(1.0, float(np.abs(D).max()) ** 2) * max(1.0, float(np.abs(rho).max()))

        def chk(name, got, exp):
            got = np.asarray(got)
            if got.shape != exp.shape:
                return f"{name}: shape {got.shape} instead of {exp.shape}"
            d = float(np.abs(got - exp).max())
            if not d <= tol:
                return f"{name}: deviates from the ordered product by {d:.3g}"
            return None

        def steps(mode, state):
            sim = CircuitSimulator(qc, mode=mode)
            sim.initialize(state)
            last = state.full()
            for _ in range(len(qc.gates)):
                sim.step()
                last = sim.state.full()      # read between the steps, as the documentation does
            return last

        def trajectory(mode, state, expected):
            """every sim.state object is kept and all are compared only after the last step with the product of the
            first k gates: a state that was handed out must not change when later steps are taken"""
            sim = CircuitSimulator(qc, mode=mode)
            sim.initialize(state)
            kept = []
            for _ in range(len(qc.gates)):
                sim.step()
                kept.append(sim.state)
            Ds = dense_prefixes(N, gates, utab)
            # user matrices need not be unitary: every recorded state is compared relative to ITS OWN expected size
            # (the final product may be tiny or zero while an intermediate one is huge)
            exps = [expected(Dk) for Dk in Ds]
            scale = [max(1.0, float(np.abs(e).max())) for e in exps]
            got = np.stack([k.full() / sc for k, sc in zip(kept, scale)]) if kept else np.zeros((0,))
            exp = np.stack([e / sc for e, sc in zip(exps, scale)]) if kept else np.zeros((0,))
            return got, exp

        def pre():
            import warnings
            with warnings.catch_warnings():
                warnings.simplefilter("ignore")
                return CircuitSimulator(qc, precompute_unitary=True).run(qket).get_final_states(0).full().ravel()

        def second():
            sim = CircuitSimulator(qc)
            sim.run(qutip.Qobj(psi[::-1].reshape(-1, 1).copy(), dims=[[2] * N, [1] * N]))
            return sim.run(qket).get_final_states(0).full().ravel()

        def changed():
            # histories: the simulator holds the circuit, not a copy of its matrices; what it applies is what the
            # circuit says at the time of the run
            qh = build_circuit(N, gates, ugs)
            sim = CircuitSimulator(qh)
            sim.run(qket)
            qh.gates.reverse()
            ugs2 = [UG(u.name, u.kind, u.m, [list(r) for r in zip(*u.mat)] if u.mat else u.mat) for u in ugs]
            for u in ugs2:
                qh.user_gates[u.name] = u.pyobj()
            D2 = dense_product(N, gates[::-1], {u.name: u for u in ugs2})
            return sim.run(qket).get_final_states(0).full().ravel(), D2 @ psi

        def compact():
            Us = qc.propagators(expand=False)
            inds = [g.qubits() if g.name != "GLOBALPHASE" else list(range(N)) for g in gates]
            U, oi = gate_sequence_product(Us, inds_list=inds, expand=True)
            used = sorted(set(q for i in inds for q in i))
            if list(oi) != used:
                raise AssertionError(f"compact product reports qubits {oi}, used {used}")
            # compare on the used qubits: the dense product restricted to them
            Dc = np.eye(2 ** len(used), dtype=complex)
            for g, i in zip(gates, inds):
                M = np.exp(1j * g.arg_value()) * np.eye(2 ** N) if g.name == "GLOBALPHASE" else compact_matrix(g, utab)
                Dc = embed_np(M, [used.index(q) for q in i], len(used)) @ Dc
            return U.full(), Dc

        paths = [
            ("run(ket)", lambda: (qc.run(qket).full().ravel(), D @ psi)),
            ("step-by-step(ket)", lambda: (steps("state_vector_simulator", qket).ravel(), D @ psi)),
            ("run(density matrix)", lambda: (qc.run(qrho).full(), D @ rho @ D.conj().T)),
            ("step-by-step(density matrix)", lambda: (steps("density_matrix_simulator", qrho), D @ rho @ D.conj().T)),
            ("density-matrix mode, ket input", lambda: (CircuitSimulator(qc, mode="density_matrix_simulator").run(qket)
                                                        .get_final_states(0).full(), D @ np.outer(psi, psi.conj()) @ D.conj().T)),
            ("state-vector mode, operator input", lambda: (CircuitSimulator(qc, mode="state_vector_simulator").run(qop)
                                                           .get_final_states(0).full(), D @ A)),
            ("compute_unitary", lambda: (qc.compute_unitary().full(), D)),
            ("CircuitSimulator(precompute_unitary=True).run(ket)", lambda: (pre(), D @ psi)),
            ("second run on one CircuitSimulator (another ket first)", lambda: (second(), D @ psi)),
            ("run on one CircuitSimulator after its circuit was changed (gate list reversed, user gates redefined)", changed),
        ]
        if gates:
            paths += [
            ("trajectory of kept sim.state objects (ket), compared after the last step",
             lambda: trajectory("state_vector_simulator", qket, lambda Dk: (Dk @ psi).reshape(-1, 1))),
            ("trajectory of kept sim.state objects (operator), compared after the last step",
             lambda: trajectory("state_vector_simulator", qop, lambda Dk: Dk @ A)),
            ("trajectory of kept sim.state objects (density matrix), compared after the last step",
             lambda: trajectory("density_matrix_simulator", qrho, lambda Dk: Dk @ rho @ Dk.conj().T)),
                ("product of propagators(expand=True), left to right",
                 lambda: (gate_sequence_product(qc.propagators(expand=True)).full(), D)),
                ("gate_sequence_product(propagators(expand=False), expand=True)", compact),
            ]
        if refused:
            # a fixed-matrix gate with a control_value other than "all controls 1" has no documented matrix: every
            # evaluation route must refuse it (ValueError naming control_value), none may return a result
            g0 = refused[0]
            for name, f in paths:
                try:
                    f()
                except Exception as e:
                    if classify_exc(e) == "controlValue":
                        continue
                    return True, f"{name}: raised {type(e).__name__}: {str(e)[:120]} instead of refusing the control_value"
                return True, (f"{name}: returned a result for {g0.name} (controls {g0.c}) with control_value={g0.cv} — the "
                              "fixed-matrix gate has no documented matrix for that value and must be refused")
            return False, "control_value without a documented matrix refused by every evaluation route"
        for name, f in paths:
            try:
                got, exp = f()
            except Exception as e:
                return True, f"{name}: raised {type(e).__name__}: {str(e)[:120]}"
            bad = chk(name, got, exp)
            if bad:
                return True, bad
        return False, "all evaluation paths equal the ordered product"

    def _oracle_compact(self, N, gates, rng):
        from qutip_qip.operations import gate_sequence_product
        try:
            qc = build_circuit(N, gates)
            inds = [g.qubits() for g in gates]
            U, oi = gate_sequence_product(qc.propagators(expand=False), inds_list=inds, expand=True)
        except Exception as e:
            return True, f"gate_sequence_product(expand=True) raised {type(e).__name__}: {str(e)[:120]}"
        used = sorted(set(q for i in inds for q in i))
        if list(oi) != used:
            return True, f"reports qubits {list(oi)}, used {used}"
        n = len(used)
        full = U.full()
        if full.shape != (2 ** n, 2 ** n):
            return True, f"shape {full.shape}"
        cols = [0, 2 ** n - 1] + [rng.randrange(2 ** n) for _ in range(3)]
        E = np.zeros((2 ** n, len(cols)), dtype=complex)
        for j, c in enumerate(cols):
            E[c, j] = 1
        for g, i in zip(gates, inds):
            E = apply_np(compact_matrix(g), [used.index(q) for q in i], n, E)
        d = float(np.abs(full[:, cols] - E).max())
        if not d <= 1e-9:
            return True, f"compact product deviates from the ordered product by {d:.3g} (columns {cols})"
        return False, "compact product equals the ordered product on the sampled columns"

    def _oracle_retarget(self, N, gates, ugs, script, rng):
        """the property along a history on LIVE gate objects: `targets` / `controls` are plain public attributes; after
        every re-assignment each evaluation route must equal the ordered product on the qubits the gates name NOW"""
        try:
            qc = build_circuit(N, gates, ugs)
        except Exception as e:
            if any(g.refusal_expected() for g in gates) and classify_exc(e) == "controlValue":
                return False, "control_value without a documented matrix refused when the gate is built"
            return True, "building the circuit raised " + repr(e)
        cur = [G.from_js(g.js()) for g in gates]
        moved = 0
        for item in script:
            if item[0] == "e":
                fails, detail = self._oracle_circuit(N, cur, ugs, rng, qc=qc)
                if fails:
                    return True, f"after {moved} re-assignment(s) of targets/controls on the live gate objects: {detail}"
            else:
                _, i, v = item
                try:
                    if item[0] == "t":
                        qc.gates[i].targets = list(v)
                        cur[i].t = list(v)
                    elif item[0] == "v":
                        # gate.control_value = v on the live object: the refusal (or acceptance) must follow the CURRENT value
                        qc.gates[i].control_value = v
                        cur[i].cv = v
                    else:
                        qc.gates[i].controls = list(v)
                        cur[i].c = list(v)
                except Exception as e:
                    return True, "assigning targets/controls raised " + repr(e)
                moved += 1
        return False, "every evaluation follows the qubits the gates name at that moment"

    def _retarget_stream(self, ctx, res):
        """re-targeting histories: model `histket` (Model/SimKet.lean (h)) against qc.run(ket) on one live circuit object,
        + the oracle on all evaluation routes after every re-assignment"""
        import qutip
        rng = ctx.rng
        cases = []
        # every placed exact gate (by name and per class) on 3 qubits, moved once: placed after construction / after a run
        for g in placed_gates(3, rot_angles=False, objects=True):
            if g.name == "GLOBALPHASE":
                continue
            mv = retarget_items(rng, 0, g, 3)
            cases.append((3, [g], UTable(), mv + [["e"]], ["retarget", "single", "placed-after-construction"]))
            cases.append((3, [g], UTable(), [["e"]] + mv + [["e"]], ["retarget", "single", "moved-after-run"]))
        for i in range(160 if ctx.thorough else 40):
            N = rng.choice([2, 3, 3, 4])
            ugs = random_user_table(rng) if rng.random() < 0.3 else UTable()
            gates = random_gate_list(rng, N, rng.randint(1, 5), ugs)
            if not gates:
                continue
            cases.append((N, gates, ugs, random_script(rng, gates, N), ["retarget", "random", f"N={N}"]))
        # control_value assigned on live generic Gate objects (oracle: the refusal follows the current value)
        for w in control_value_histories():
            inp = {"N": w["N"], "gates": w["gates"], "script": w["script"], "path": "control-value-history"}
            res.case(inp, True, ["retarget", "control-value-history"])
            fails, detail = self.oracle_replay(ctx, w)
            if fails:
                res.disagree(inp, "refusal / documented matrix for the current control_value", detail,
                             "an evaluation does not follow the gate's current control_value", w)
        lines, kets = [], []
        for (N, gates, ugs, script, tags) in cases:
            ket = random_state(rng, 2 ** N)
            kets.append(ket)
            lines.append(f"histket N={N} ug={enc_ug(ugs)} ops={enc_ops(gates)} state={enc_vec(ket)} script={enc_script(script)}")
        outs = ctx.driver("drv_ket").run(lines)
        for k, ((N, gates, ugs, script, tags), ket, o) in enumerate(zip(cases, kets, outs)):
            inp = {"N": N, "gates": [g.js() for g in gates], "ug": [[u.name, u.kind, u.m] for u in ugs], "script": script,
                   "path": "retarget-history"}
            witness = {"kind": "retarget", "N": N, "gates": [g.js() for g in gates], "ug": [u.js() for u in ugs],
                       "mode": table_mode(ugs), "script": script}
            res.case(inp, True, tags + [f"evals={sum(1 for it in script if it[0] == 'e')}"])
            if not o.startswith("ok "):
                res.disagree(inp, o, "ok", "model refused the history", witness)
                continue
            manswers = o[3:].split("#")
            st, qc = guarded(lambda: build_circuit(N, gates, ugs))
            if st == "err controlValue":
                # refused when the object is built (class forms): the model refuses every evaluation
                if any(not a.startswith("err controlValue") for a in manswers):
                    res.disagree(inp, manswers, st, "control_value refused at construction, accepted by the model", witness)
                continue
            if st != "ok":
                res.disagree(inp, "circuit", st, "circuit construction failed", witness)
                continue
            qket = qutip.Qobj(val_vec(ket).reshape(-1, 1), dims=[[2] * N, [1] * N])
            ianswers = []
            for item in script:
                if item[0] == "e":
                    ianswers.append(guarded(lambda: qc.run(qket).full().ravel()))
                elif item[0] == "t":
                    qc.gates[item[1]].targets = list(item[2])
                else:
                    qc.gates[item[1]].controls = list(item[2])
            bad = len(manswers) != len(ianswers)
            for ma, (ist, iv) in zip(manswers, ianswers):
                ms, mv = self._decode("ket", ma)
                if ms != ist or (ms == "ok" and not self._same("ket", mv, iv)):
                    bad = True
            if bad:
                res.disagree(inp, "value", "value", "run(ket) along a re-targeting history on live gate objects", witness)
            if k % 3 == 0 or bad:
                fails, detail = self._oracle_retarget(N, gates, ugs, script, rng)
                if fails:
                    res.disagree(dict(inp, path="oracle"), "dense product", detail,
                                 "an evaluation does not follow the gates' current targets/controls", witness)

    def oracle_replay(self, ctx, w):
        gates = [G.from_js(j) for j in w["gates"]]
        if w["kind"] == "compact":
            return self._oracle_compact(w["N"], gates, ctx.rng)
        ugs = UTable([UG(*u) for u in w.get("ug", [])], mode=w.get("mode", "normal"))
        if w["kind"] == "meas":
            return self._oracle_meas(w["N"], gates, ugs, w["meas"])
        if w["kind"] == "retarget":
            return self._oracle_retarget(w["N"], gates, ugs, w["script"], ctx.rng)
        return self._oracle_circuit(w["N"], gates, ugs, ctx.rng)

    def _random_witness(self, rng):
        r = rng.random()
        if r < 0.12:
            N = rng.choice([9, 9, 10, 11])
            return {"kind": "compact", "N": N, "gates": [g.js() for g in self._random_big(rng, N)]}
        N = rng.choice([1, 2, 3, 3, 4, 5])
        gates = [random_float_gate(rng, N) if rng.random() < 0.5 else random_exact_gate(rng, N) for _ in range(rng.randint(1, 6))]
        return {"kind": "circuit", "N": N, "gates": [g.js() for g in gates], "ug": []}

    @staticmethod
    def _controlled_witnesses():
        """pairs of generic ControlledGate objects (equal .name "ControlledGate", equal arg_value) that differ in
        control_value or target gate, on 2 and 3 qubits"""
        ws = []
        mk = lambda name, t, c, cv: G(name, [t], c, cn=False, via="ControlledGate", cv=cv)
        for a, b in [(("X", 1, [0], 1), ("X", 1, [0], 0)), (("Z", 0, [1], 0), ("Y", 1, [0], 1)),
                     (("S", 1, [0], 1), ("T", 0, [1], 1)), (("SNOT", 1, [0], 0), ("SQRTNOT", 1, [0], 0))]:
            ws.append({"kind": "circuit", "N": 2, "gates": [mk(*a).js(), mk(*b).js()], "ug": []})
        for cv1 in range(4):
            for cv2 in range(4):
                ws.append({"kind": "circuit", "N": 3, "ug": [],
                           "gates": [mk("X", 2, [0, 1], cv1).js(), mk("Y", 0, [2, 1], cv2).js()]})
        return ws

    def oracle_search(self, ctx, budget_s):
        t0 = time.time()
        # systematic: every placed library gate on 1, 2 qubits; every parametric gate at the boundary / large
        # angles (each argument position); every placed library gate on 3 qubits (incl. 2pi and -5pi/2)
        systematic = [{"kind": "circuit", "N": N, "gates": [g.js()], "ug": []} for N in (1, 2)
                      for g in placed_gates(N, objects=True)]
        pobj = partial_class_objects(2)
        systematic += [{"kind": "circuit", "N": 2, "gates": [a.js(), b.js()], "ug": []} for a in pobj for b in pobj]
        systematic += [{"kind": "circuit", "N": N, "gates": [g.js() for g in gs], "ug": []} for N, gs in phase_after_circuits()
                       if N <= 2]
        systematic += [{"kind": "circuit", "N": N, "gates": [g.js() for g in gs], "ug": [u.js() for u in ugs], "mode": ugs.mode}
                       for N, gs, ugs in shadow_circuits()]
        systematic += [{"kind": "circuit", "N": N, "gates": [g.js()], "ug": []} for N, g in control_value_gates()]
        systematic += [{"kind": "circuit", "N": N, "gates": [g.js() for g in gs], "ug": []}
                       for N, gs in qft_circuits() + restart_trigger_circuits()[::7]]
        systematic += control_value_histories()
        systematic += retarget_witnesses()
        systematic += self._controlled_witnesses()
        systematic += angle_sweep()
        systematic += [{"kind": "circuit", "N": 3, "gates": [g.js()], "ug": []} for g in placed_gates(3, objects=True)]
        for w in systematic:
            f, d = self.oracle_replay(ctx, w)
            if f:
                yield w, d
            if time.time() - t0 > budget_s:
                return
        while time.time() - t0 < budget_s:
            w = self._random_witness(ctx.rng)
            f, d = self.oracle_replay(ctx, w)
            if f:
                yield w, d

    def oracle_always(self, ctx):
        ws = [{"kind": "circuit", "N": 1, "gates": [G("GLOBALPHASE", [], [], p8=2).js()], "ug": []},
              {"kind": "compact", "N": 9, "gates": [G("X", [4], []).js()] + [G("IDLE", [q], []).js() for q in range(9) if q != 4]
               + [G("CNOT", [4], [8]).js()]}]
        ws.append({"kind": "circuit", "N": 2, "gates": [G("X", [1], []).js(), G("SNOT", [1], []).js()], "ug": []})
        # user gates shadowing a library name: instance of the library class / registered after the add / transferred
        sc = shadow_circuits()
        for N_, gs, ugs in (sc[1], sc[4], sc[5], sc[6 * 9 + 4], sc[6 * 12 + 2]):
            ws.append({"kind": "circuit", "N": N_, "gates": [g.js() for g in gs], "ug": [u.js() for u in ugs], "mode": ugs.mode})
        # compact product restarting after a full block (QFT on 3 qubits with swaps, the generic trigger)
        ws.append({"kind": "circuit", "N": 3, "ug": [], "gates": [g.js() for g in qft_circuits()[2][1]]})
        ws.append({"kind": "circuit", "N": 3, "ug": [], "gates": [g.js() for g in restart_trigger_circuits()[0][1]]})
        # control_value of two-control fixed-matrix gates: 3 is legal (redundant), 0..2 must be refused; all three forms
        for via in (None, "TOFFOLI", "Gate"):
            for cv in (3, 2, 1):
                ws.append({"kind": "circuit", "N": 3, "ug": [], "gates": [G("TOFFOLI", [2], [0, 1], via=via, cv=cv).js()]})
        ws.append({"kind": "circuit", "N": 2, "ug": [], "gates": [G("CNOT", [1], [0], via="Gate", cv=0).js()]})
        ws.append({"kind": "circuit", "N": 3, "ug": [], "gates": [G("FREDKIN", [1, 2], [0], cv=1).js(), G("FREDKIN", [0, 2], [1], via="Gate", cv=1).js()]})
        # control_value assigned on live generic Gate objects between evaluations (CNOT, TOFFOLI)
        cvh = control_value_histories()
        ws += cvh[0:3] + cvh[-3:]
        # re-targeted live gate objects: RZX / SWAP objects placed after construction, RY / CNOT / TOFFOLI moved after a run
        ws.append({"kind": "retarget", "N": 3, "ug": [], "mode": "normal",
                   "gates": [G("SNOT", [0], []).js(), G("RZX", [0, 1], [], val=0.7, via="RZX").js(), G("SWAP", [0, 1], [], via="SWAP").js()],
                   "script": [["t", 1, [2, 0]], ["t", 2, [1, 2]], ["e"]]})
        ws.append({"kind": "retarget", "N": 3, "ug": [], "mode": "normal",
                   "gates": [G("RX", [0], [], val=0.4).js(), G("CNOT", [1], [0]).js(), G("RY", [1], [], val=1.1).js(),
                             G("TOFFOLI", [2], [0, 1]).js()],
                   "script": [["e"], ["t", 2, [2]], ["e"], ["c", 1, [2]], ["t", 1, [0]], ["e"], ["c", 3, [2, 0]], ["t", 3, [1]], ["e"]]})
        # a phase step after a gate, consecutive phase steps: the kept trajectory must not change
        Pg = lambda p8: G("GLOBALPHASE", [], [], p8=p8).js()
        ws.append({"kind": "circuit", "N": 1, "ug": [], "gates": [G("X", [0], []).js(), Pg(4), Pg(3)]})
        ws.append({"kind": "circuit", "N": 2, "ug": [], "gates": [G("RX", [0], [], p8=2).js(), Pg(4), G("CNOT", [1], [0]).js(), Pg(-6),
                                                                   Pg(1), G("SNOT", [1], []).js()]})
        # objects of different classes with equal .name and arg_value in one circuit
        ws.append({"kind": "circuit", "N": 2, "ug": [], "gates": [G("CY", [1], [0], via="CY").js(), G("CS", [0], [1], via="CS").js(),
                                                                   G("CNOT", [1], [0], via="CX").js()]})
        ws.append({"kind": "circuit", "N": 2, "ug": [], "gates": [G("CRX", [1], [0], val=0.7, via="CRX").js(),
                                                                   G("CRY", [0], [1], val=0.7, via="CRY").js(),
                                                                   G("CRZ", [1], [0], val=0.7, via="CRZ").js()]})
        ws += self._controlled_witnesses()[:6]
        # every parametric library gate at 2pi, beyond -2pi and at 4pi against its documented matrix
        ws += angle_sweep([2 * math.pi, -2 * math.pi - 0.5, 4 * math.pi], all_positions=False)
        ws += [self._random_witness(ctx.rng) for _ in range(40)]
        for w in ws:
            f, d = self.oracle_replay(ctx, w)
            if f:
                yield w, d


CHECK = C01()
