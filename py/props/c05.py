"""C05 -- gate scheduling preserves the circuit's unitary and qubit exclusivity.

Correspondence of lean/QipVerif/Model/Sched.lean (exe drv_sched) with
qutip_qip.compiler.scheduler.Scheduler.schedule (gate schedule), and the direct numerical
statement of the property on the real code (dense unitaries, exclusivity, partition, order)."""
import itertools, random, time
import numpy as np

from vlib.core import PropertyCheck
from . import sched_common as sc

KNOWN_WITNESS = {"N": 1, "gates": [["QASMU", [0], [], [1, 0, 0]], ["QASMU", [0], [], [0, 0, 1]]],
                 "method": "ALAP", "perm": True, "shuf": None, "repeat": 0, "scope": "full"}

_GATES = {}


def gate_obj(spec):
    key = (spec[0], tuple(spec[1]), tuple(spec[2]), repr(spec[3]))
    g = _GATES.get(key)
    if g is None:
        g = sc.make_gate(spec)
        if len(_GATES) > 50000:
            _GATES.clear()
        _GATES[key] = g
    return g


_FIELDS = {}


USED_MISMATCH = {}       # spec key -> (model's used set, implementation's used_qubits or exception)


def fields_of(spec):
    """(name, sorted targets, sorted controls) as the real Instruction class presents them.  The model derives
    `used` = targets | controls from them; a different `used_qubits` on the real object (or an exception of
    `Instruction()`) is remembered in USED_MISMATCH and reported as a disagreement by the callers."""
    key = (spec[0], tuple(spec[1]), tuple(spec[2]))
    f = _FIELDS.get(key)
    if f is None:
        _, Instruction, _, _, _ = sc._mods()
        try:
            ins = Instruction(gate_obj(spec))
            f = sc.ins_fields(ins)
            used = set(f[1]) | set(f[2])
            if used != set(ins.used_qubits):
                USED_MISMATCH[key] = (sorted(used), sorted(ins.used_qubits))
        except Exception as e:          # the constructor is part of the code under test
            f = (spec[0], sorted(spec[1]), sorted(spec[2]))
            USED_MISMATCH[key] = (sorted(set(f[1]) | set(f[2])), "Instruction() raised " + type(e).__name__)
        _FIELDS[key] = f
    return f


def used_mismatch(specs):
    for s in specs:
        m = USED_MISMATCH.get((s[0], tuple(s[1]), tuple(s[2])))
        if m:
            return m
    return None


def specs_from(seq):
    return [[n, t, c, sc.arg_for(n, k) if n in sc.LIBRARY else (0.4 if n == "GLOBALPHASE" else None)]
            for k, (n, t, c) in enumerate(seq)]


def cycles_checks(specs, cycles, perm, cons=None, ordered=True):
    """partition / exclusivity / order-without-permutation on a cycles list of the real code.  `cons`: the constraint
    descriptors the Scheduler was built with (None = default): exclusivity -- the property's clause "no two gates of a cycle
    share a qubit" -- is required when `qubit_constraint` is among them (first, last, anywhere).  Whether the other user
    functions are respected is NOT judged here (it is no clause of the property; the correspondence compares it with the
    model, theorem cycle_respects_constraints)."""
    n = len(specs)
    flat = [i for c in cycles for i in c]
    if sorted(flat) != list(range(n)):
        return f"cycles {cycles} are not a partition of 0..{n - 1}"
    where = {}
    for ci, c in enumerate(cycles):
        for i in c:
            where[i] = ci
    used = [sc.used_of(s) for s in specs]
    for c in cycles:
        for a, b in itertools.combinations(c, 2):
            if sc.cons_has_qubit(cons) and used[a] & used[b]:
                return f"gates {a} and {b} share a qubit inside one cycle ({cycles})" + (
                    f" although qubit_constraint is among the constraint functions {cons}" if cons is not None else "")
    if not perm:
        for i in range(n):
            for j in range(i + 1, n):
                if used[i] & used[j] and not where[i] < where[j]:
                    return f"permutation disabled but qubit-sharing gates {i},{j} are in cycles {where[i]},{where[j]}"
    return None


def order_note(specs, cycles):
    """NOT an oracle clause -- a note attached to a correspondence disagreement: does the cycles list of the code reorder a
    qubit-sharing pair that the DOCUMENTED rule (`sc.documented_rule`, fixed reference copy) does not declare commuting?
    Then the model theorem order_respected no longer applies to the code; whether the PROPERTY is violated is decided by
    the oracle alone (unitary, exclusivity), e.g. X and RX on one qubit commute physically."""
    try:
        where = {i: ci for ci, c in enumerate(cycles) for i in c}
        used = [sc.used_of(x) for x in specs]
        for i in range(len(specs)):
            for j in range(i + 1, len(specs)):
                if used[i] & used[j] and not sc.documented_rule(specs[i], specs[j]) and not where[i] < where[j]:
                    phys = sc.truly_commute(specs[i], specs[j])
                    return (f"; note: model theorem order_respected no longer applies to the code: gates {i} ({specs[i][0]} {specs[i][1]} "
                            f"{specs[i][2]}) and {j} ({specs[j][0]} {specs[j][1]} {specs[j][2]}), not declared commuting by the documented "
                            f"rule, are in cycles {where[i]} and {where[j]}; "
                            + ("the two gates commute physically, the property is not violated by this pair" if phys else
                               "the two gates do not commute physically"))
    except Exception:
        pass
    return ""


class C05(PropertyCheck):
    id = "C05"

    def regenerate(self, ctx):
        return sc.regenerate()

    lean_modules = ["QipVerif.Props.C05"]
    drivers = ["drv_sched"]
    theorems = [
        "QipVerif.C05.gateCycles_eq",
        "QipVerif.C05.real_oracle_perm",
        "QipVerif.C05.cycles_partition",
        "QipVerif.C05.dep_edges_forward",
        "QipVerif.C05.cycle_disjoint",
        "QipVerif.C05.order_respected",
        "QipVerif.C05.order_kept_without_permutation",
        "QipVerif.C05.comm_rules_symm",
        "QipVerif.C05.trace_lemma",
        "QipVerif.C05.schedule_den_partial",
        "QipVerif.C05.schedule_den_partial_rev",
        "QipVerif.C05.schedule_den_partial_ins",
        "QipVerif.C05.schedule_den_C",
        "QipVerif.C05.schedule_den_C_rev",
        "QipVerif.C05.schedule_den_C_safe",
        "QipVerif.C05.safe_pair_commute",
        "QipVerif.C05.schedule_den_C_fixed",
        "QipVerif.C05.schedule_den_C_patch",
        "QipVerif.C05.declared_pairs_are_safe",
        "QipVerif.C05.C05_counterexample_order",
        "QipVerif.C05.C05_counterexample_den",
        "QipVerif.C05.comm_rule_table",
        "QipVerif.C05.comm_rule_abstraction",
        "QipVerif.C05.comm_rule_abs_table",
        "QipVerif.C05.comm_rules_regenerated",
        "QipVerif.C05.tree_set_present",
        "QipVerif.C05.tree_set_without_fredkin",
        "QipVerif.C05.tree_set_interpreted",
        "QipVerif.C05.self_commuting_names_realised",
        "QipVerif.C05.declared_never_opaque",
        "QipVerif.C05.tree_unflagged_never_declared",
        "QipVerif.C05.C05_counterexample_targets_only",
        "QipVerif.C05.schedule_den_C_full",
        "QipVerif.C05.schedule_den_C_full_fwd",
        "QipVerif.C05.schedule_den_C_tree",
        "QipVerif.C05.schedule_den_C_tree_circuit",
        "QipVerif.C05.method_tests_uniform",
        "QipVerif.C05.method_contract",
        "QipVerif.C05.method_not_alap_is_asap",
        "QipVerif.C05.apply_constraint_is_conjunction",
        "QipVerif.C05.default_constraints",
        "QipVerif.C05.cycles_partition_cons",
        "QipVerif.C05.cycle_respects_constraints",
        "QipVerif.C05.cycle_disjoint_cons",
        "QipVerif.C05.order_respected_cons",
        "QipVerif.C05.schedule_den_C_full_cons",
        "QipVerif.C05.C05_constraints_absent",
    ]
    level_text = ("Lean 4 theorems about the model of the gate scheduler, for every gate list, ASAP and ALAP, permutation "
                  "allowed or not, and every permutation-valued re-ordering oracle of the scheduling pass (covers random_shuffle, "
                  "the priority sort and the iteration order of the successor sets): the cycles partition the gate indices, gates "
                  "in one cycle share no qubit, a qubit-sharing pair that commutation_rules does not declare commuting keeps its "
                  "order (every qubit-sharing pair when permutation is disabled). SAME UNITARY, headline for the repaired rule "
                  "(schedule_den_C_full / schedule_den_C_tree; operators on Matrix (St N) (St N) C, every register size, every "
                  "valuation of the angles): if every position of the circuit is (1) a library gate in canonical shape -- an IR gate "
                  "with complex semantics (X Y Z S T SNOT SQRTNOT IDLE RX RY RZ PHASEGATE; CNOT CSIGN CZ CY CS CT CRX CRY CRZ CPHASE; "
                  "SWAP ISWAP SQRTSWAP SQRTISWAP BERKELEY; TOFFOLI; FREDKIN; GLOBALPHASE) under its own name or the spelling H / CX / "
                  "iSWAP --, (2) a SWAPALPHA / SWAPalpha gate with any alpha, or (3) ANY operator supported on the used qubits whose "
                  "instruction is not flagged self-commuting and is not named CNOT X RX Z RZ (QASMU, R, MS, RZX, user-defined gates), "
                  "and no FREDKIN instruction is flagged self-commuting, then the product of the operators in scheduled order equals "
                  "the product in the original order. No commutation hypothesis and no decidable side condition is left: every pair "
                  "the rule can declare commuting is proved to commute (same one-qubit name on one target; same controlled name with "
                  "equal control or equal target; CNOT with X/RX on its target, with Z/RZ on its control; exchange-symmetric two-qubit "
                  "names and SWAPALPHA on the same two targets in either order; TOFFOLI with equal target or equal control pair; all "
                  "angles). schedule_den_C_fixed / schedule_den_C_tree_circuit: the same for circuits of IR gates as an equality of "
                  "circuit denotations (hypotheses: every gate well-formed on the register, wfG, and canonically shaped, shapeOK; the "
                  "set of self-commuting names does not contain FREDKIN). The rule and the set these theorems are about are REGENERATED "
                  "from scheduler.py with ast on every check (lean/QipVerif/Gen/SchedRule.lean): comm_rules_regenerated (on "
                  "instructions flagged by membership in the tree's set the model's rule IS the regenerated function), "
                  "tree_set_present, tree_set_without_fredkin, tree_set_interpreted (every name of _SELF_COMMUTING_GATES is one of the "
                  "proved self-commuting families, each realised by a gate: self_commuting_names_realised) stop building when the rule "
                  "or the set is edited. Statements about the code BEFORE the repair are kept as theorems about the old variant (every "
                  "instruction flagged self-commuting): schedule_den_partial (arbitrary monoid, H1 and H2 explicit), schedule_den_C "
                  "(H1 discharged), schedule_den_C_safe (decidable side condition safeComm), and the refutation "
                  "C05_counterexample_order / _den (two QASMU gates on one qubit are exchanged by ALAP); the witness is replayed on "
                  "the code on every check as a regression test of the fixed finding. The model is tied to the code by an exact "
                  "correspondence of cycles lists, cycle indices and dependency edges (exhaustive short sequences, random sequences "
                  "up to length 14 on 5 qubits, recorded shuffles, repeat_num, histories of up to 6 calls on one Scheduler object) "
                  "and an exhaustive comparison of commutation_rules -- model rule and regenerated rule -- over its abstraction. "
                  "CONSTRUCTOR ARGUMENTS: the three string literals self.method is compared with in Scheduler.schedule and the body of "
                  "apply_constraint are regenerated too; method_tests_uniform / method_contract / method_not_alap_is_asap: the ALAP "
                  "branch is taken at each of the three places iff method == 'ALAP', every other argument (other casing, other string, "
                  "None, a number) is ASAP at all three places; apply_constraint_is_conjunction; for EVERY list of constraint functions "
                  "(model: the library's qubit_constraint, allow-all, forbid an ordered index pair, forbid equal names; 0-3 functions) "
                  "cycles_partition_cons, order_respected_cons, schedule_den_C_full_cons and cycle_respects_constraints (inside a cycle "
                  "every later member was approved against every earlier one by every function) hold, cycle_disjoint_cons holds whenever "
                  "qubit_constraint is in the list (first, last, anywhere), and C05_constraints_absent shows that without it two commuting "
                  "gates sharing a qubit are put into one cycle; the correspondence and the oracles run 21 method values x 21 constraint "
                  "lists, and repeat_num with both gate-level output forms (return_cycles_list=True with repeat_num > 0 raises TypeError "
                  "on a tree without fixes/C05-3.patch; the model's verdict follows the variant read from the source).")
    level_note = ("Full strength on the repaired tree: partition, exclusivity, order and same-unitary are theorems without side "
                  "conditions. What remains a hypothesis of the unitary clause is what each position IS (GateOK: which operator a gate "
                  "object denotes): for IR gates the semantics semD (exact Z[zeta16] library / generated rotation matrices, tied to the "
                  "code by C09), for H / CX / iSWAP / SWAPALPHA the harness compares the real matrices with their IR counterpart / the "
                  "documented formula on every check; gates outside the library are arbitrary supported operators. The *_partial / "
                  "_safe theorems and the counter-examples describe the old rule only. Trusted: Lean kernel; the translator "
                  "py/translate/sched.py (small statement language, validated by comparing the regenerated rule with the code on "
                  "270 400 instruction pairs); the harness (which shadows `set` with an ascending-iteration subclass and `shuffle` "
                  "with a recorder in the scheduler module's namespace); stability of Python's list.sort.")
    technique = ("Lean 4 proof (invariants of the dependency-graph loops and of list scheduling for an arbitrary re-ordering "
                 "oracle; trace-monoid lemma; operator algebra of embedded controlled / exchange-symmetric gates over C) + "
                 "commutation rule and self-commuting set regenerated from the source + model/implementation correspondence")
    trusted_base = [
        "Lean 4.33 kernel; axioms propext, Classical.choice, Quot.sound",
        "py/translate/sched.py (ast translator of commutation_rules, _SELF_COMMUTING_GATES, the conflict-edge flag, the three "
        "tests of self.method and apply_constraint into Gen/SchedRule.lean; anything outside its statement language is refused; "
        "the regenerated rule is compared with the code on every check)",
        "py/props/sched_common.py, py/props/c05.py (harness; shadows `set` (ascending iteration) and `shuffle` "
        "(recording) in the scheduler module's namespace, /repo itself is untouched)",
        "Python's list.sort is a stable sort for the total preorder _compare_priority (modelled by a stable insertion sort)",
        "deepcopy / set semantics of CPython as modelled in Model/Sched.lean (validated by the correspondence)",
        "operator semantics of gate objects: Lemmas/Sem.lean (semD, tied to the library by C09) for IR gates; H = SNOT, CX = CNOT, "
        "iSWAP = ISWAP and the SWAPALPHA matrix are compared with the real library numerically on every check",
    ]
    assumptions = [
        "schedule_den_C_full / _tree: every position is a library gate in canonical shape, a SWAPALPHA gate, or an arbitrary "
        "operator on its used qubits under a name that is neither flagged self-commuting nor one of CNOT X RX Z RZ (GateOK)",
        "gates are built by the library's gate classes / QubitCircuit.add_gate, which refuse non-canonical shapes (checked on every "
        "run for every name of _SELF_COMMUTING_GATES); the bare constructor Gate('CNOT', targets=[0, 1]) (no controls) is outside "
        "the theorem: for such objects the rule compares sorted target lists that do not determine the operator",
        "the targets-only form of the three-qubit gates that the library's own classes build (TOFFOLI([c1, c2, t]), "
        "FREDKIN([c, t1, t2]): all qubits in `targets`, controls None) is NOT a canonical shape: on a tree whose rule has the guard "
        "on gates with more than two targets (lenBound, fixes/C05-2.patch) such an instruction is never flagged "
        "(tree_long_targets_never_declared) and is covered by the opaque clause of GateOK; on a tree without the guard two "
        "such TOFFOLI gates with equal sorted targets are declared commuting although they do not commute (finding, "
        "C05_counterexample_targets_only; the oracles skip the unitary clause exactly for circuits containing such a pair until "
        "the repair is applied)",
        "user-defined gates do not reuse a name of _SELF_COMMUTING_GATES or CNOT / X / RX / Z / RZ (QubitCircuit.user_gates takes "
        "precedence over the library for such a name, the scheduler only sees the name)",
        "Scheduler.schedule is a function of its arguments, the constructor settings and the shuffle outcomes (the model is "
        "stateless); checked by histories of several calls on one Scheduler object, also on the same circuit / list object "
        "edited in place between the calls",
        "user constraint functions are modelled for four kinds (qubit_constraint, allow everything, forbid one ordered pair of "
        "indices, forbid equal names); the *_cons theorems hold for any relation, the correspondence covers these kinds; qubit "
        "exclusivity is provided by qubit_constraint and is claimed only when it is among the functions",
        "schedule_den_partial / schedule_den_C (old rule): H1 / H2 are explicit hypotheses; H2 is false for the old rule "
        "(C05_counterexample_den)",
    ]
    rule = ("case = (gate sequence as (name, targets, controls), method, allow_permutation, recorded shuffles, calls made before "
            "on the same Scheduler object); non-trivial = at least two gates sharing a qubit; cycles lists, gate_cycle_indices "
            "and dependency edges are compared exactly; plus every ordered pair of instructions over 13 names x 5 control lists x "
            "8 target lists for commutation_rules (model rule and regenerated rule)")

    # ----------------------------------------------------------------------------------
    def _run_batch(self, ctx, res, batch, tag):
        """batch: list of (specs, N, method, perm, shuffle:bool, repeat:int).  About a third of the cases are run on a
        Scheduler object shared with the preceding cases of the same setting (a history of up to 8 calls on one object);
        half of those are followed by a second case that re-schedules the SAME QubitCircuit / gate-list object after it
        was edited in place (gate replaced / inserted / removed, qubits of a gate object re-assigned).  The model is
        stateless, so each result must still be what the model answers for the content of the object at that call."""
        rng = ctx.rng
        lines, impl, cases = [], [], []
        chain = self._chain

        def chained(specs, N, method, perm, shuffle, repeat, sch, hist, store, oid, as_circuit, edits):  # noqa: E306
            """idx call (+ cycles call) on the persistent object `oid` of the history"""
            log = sc.ShuffleLog(rng) if (shuffle or repeat) else None
            c1 = {"kind": "gate", "N": N, "gates": specs, "shuf": None, "repeat": repeat, "cycles": False,
                  "as_circuit": as_circuit, "obj": oid, "edits": edits}
            st, idx = sc.run_call(sch, c1, method, perm, store=store, log=log)
            shuf = log.log if log else None
            c1["shuf"] = shuf
            hist.append(c1)
            cyc = None
            if st == "ok" and not repeat:
                c2 = dict(c1, cycles=True, edits=[])
                st, cyc = sc.run_call(sch, c2, method, perm, store=store)
                hist.append(c2)
            return st, idx, cyc, shuf, list(hist)

        for specs, N, method, perm, shuffle, repeat, *rest in batch:
            cons = rest[0] if rest else None
            derived = None
            if specs and rng.random() < 0.35:
                sch, hist = chain.get(method, perm, 4, cons)
                store, oid, as_circuit = chain.objects(method, perm, cons), chain.new_id(), rng.random() < 0.4
                r = chained(specs, N, method, perm, shuffle, repeat, sch, hist, store, oid, as_circuit, [])
                if r[0] == "ok" and not repeat and rng.random() < 0.5:
                    if N not in self._pools:
                        self._pools[N] = sc.placements(N)
                    edits = sc.random_edits(rng, specs, N, self._pools[N])
                    specs2 = sc.edited_specs(specs, edits)
                    if specs2 and any(sc.used_of(x) for x in specs2):
                        derived = (specs2, chained(specs2, N, method, perm, shuffle, 0, sch, hist, store, oid, as_circuit, edits))
            else:
                u = rng.random()
                form = "npint" if u < 0.1 else (rng.choice(sc.OBJECT_FORMS) if u < 0.25 else "list")
                gates = [gate_obj(s) for s in specs] if form == "list" else [sc.make_gate(s, form) for s in specs]
                fld = None
                if form in sc.OBJECT_FORMS:          # what the scheduler sees of these objects (their own names)
                    _, Instruction, _, _, _ = sc._mods()
                    fld = [sc.ins_fields(Instruction(g)) + (sc.DEN,) for g in gates]
                log = sc.ShuffleLog(rng) if (shuffle or repeat) else None
                kw = {"random_shuffle": bool(shuffle)}
                if repeat:
                    kw["repeat_num"] = repeat
                obj = sc.make_circuit(N, specs) if (form == "list" and rng.random() < 0.15) else gates
                st, idx = sc.impl_schedule(obj, method, perm, log, cons=cons, **kw)
                shuf = log.log if log else None
                cyc = None
                if st == "ok" and not repeat:
                    log2 = sc.ShuffleLog(replay=log.log) if log else None     # the cycles list itself, same shuffles
                    st, cyc = sc.impl_schedule(obj, method, perm, log2, cons=cons, return_cycles_list=True, **kw)
                elif st == "ok" and repeat and shuf is not None:
                    # the argument combination return_cycles_list=True with repeat_num > 0, on the same shuffles
                    cyc = sc.impl_schedule(obj, method, perm, sc.ShuffleLog(replay=shuf), cons=cons,
                                           return_cycles_list=True, **kw)
                r = (st, idx, cyc, shuf, None if form == "list" else ("form", form, fld))
            for sp, rr, rep, edited in ((specs, r, repeat, False),) + (((derived[0], derived[1], 0, True),) if derived else ()):
                cases.append((sp, N, method, perm, shuffle, rep, edited, cons))
                impl.append(rr)
                if rep and rr[3] is not None:
                    lines.append(None)            # several model runs, issued below
                else:
                    fo = rr[4][2] if isinstance(rr[4], tuple) and rr[4][2] else [fields_of(x) + (sc.DEN,) for x in sp]
                    lines.append(sc.model_line(method, perm, fo, rr[3], cons))
        outs = ctx.driver("drv_sched").run([l for l in lines if l is not None])
        it = iter(outs)
        for (specs, N, method, perm, shuffle, repeat, edited, cons), line, (st, idx, cyc, shuf, hist) in zip(cases, lines, impl):
            used = [sc.used_of(s) for s in specs]
            nontriv = any(used[i] & used[j] for i in range(len(specs)) for j in range(i + 1, len(specs)))
            inp = {"gates": [[s[0], s[1], s[2]] for s in specs], "method": method, "perm": perm, "shuf": shuf,
                   "repeat": repeat}
            if cons is not None:
                inp["constraint_functions"] = cons
            form = "list"
            fld_override = None
            if isinstance(hist, tuple):          # container / object form of the gates of a non-chained case
                form, fld_override, hist = hist[1], hist[2], None
                inp["form"] = form
            if hist is not None:
                inp["calls_before_on_this_scheduler"] = [
                    [[g[0], g[1], g[2]] for g in c["gates"]] + [c["cycles"], c["repeat"], c["obj"], c["edits"]]
                    for c in hist[:-1 if repeat else -2]]
            res.case(inp, nontrivial=nontriv,
                     tags=[tag, f"len={len(specs)}", f"method={method!r}", f"perm={int(perm)}",
                           f"shuffle={int(bool(shuffle or repeat))}",
                           "history=%d" % (0 if hist is None else min(len(hist), 8)),
                           "constraints=" + ("default" if cons is None else "+".join(c if isinstance(c, str) else "f" for c in cons) or "none")]
                     + (["edited-in-place"] if edited else []))
            if hist is None:
                w = {"N": N, "gates": specs, "method": method, "perm": perm, "shuf": shuf, "repeat": repeat,
                     "scope": "covered"}
            else:
                w = {"history": hist, "method": method, "perm": perm, "scope": "covered"}
            if cons is not None:
                w["cons"] = cons
            if form != "list":
                w["form"] = form
            mm = used_mismatch(specs)
            if mm:
                res.disagree(inp, mm[0], mm[1], "used_qubits of an instruction", w)
            if line is None:
                self._compare_repeat(ctx, res, inp, w, specs, method, perm, repeat, st, idx, shuf, cyc, fld_override)
                continue
            m = sc.parse_model(next(it))
            if m["status"] != "ok" or st != "ok":
                if m["status"] != st:
                    res.disagree(inp, m["status"], st, "verdict", w)
                continue
            if m["cycles"] != cyc:
                res.disagree(inp, m["cycles"], cyc, "cycles list" + (order_note(specs, cyc) if perm and cyc else ""), w)
            elif m["idx"] != list(idx):
                res.disagree(inp, m["idx"], list(idx), "gate_cycle_indices", w)
            elif shuf is not None and m["used"] != len(shuf):
                res.disagree(inp, m["used"], len(shuf), "number of shuffle calls", w)

    def _cross_object(self, ctx, res, n):
        """several Scheduler objects in one process: scheduler 0 is used, a public attribute of it is edited in place
        (constraint_functions.clear() / .append() / .pop(), method, allow_permutation), then a NEW scheduler is constructed and
        used, then possibly scheduler 0 again.  Each call must equal the stateless model for the settings the scheduler has."""
        rng = ctx.rng
        P3 = sc.placements(3, sc.FEW_NAMES)
        cases = []
        for _ in range(n):
            def call():
                specs = specs_from([rng.choice(P3) for _ in range(rng.randint(2, 6))])
                return {"kind": "gate", "N": 3, "gates": specs, "shuf": None, "repeat": 0, "cycles": True, "as_circuit": rng.random() < 0.3}
            steps = sc.cross_object_steps(rng, call)
            form = rng.choice(["list", "list", "npint"])
            for k, (c, eff, st, r) in enumerate(sc.run_steps(steps, form)):
                cases.append((steps, form, k, c, eff, st, r))
        lines = [sc.model_line(eff["method"], eff["perm"], [fields_of(x) + (sc.DEN,) for x in c["gates"]], None, eff["cons"])
                 for (_, _, _, c, eff, _, _) in cases]
        for (steps, form, k, c, eff, st, r), o in zip(cases, ctx.driver("drv_sched").run(lines)):
            inp = {"steps": [x if x["op"] != "call" else {"op": "call", "id": x["id"], "gates": [[g[0], g[1], g[2]] for g in x["call"]["gates"]]}
                             for x in steps], "call": k, "form": form}
            res.case(inp, nontrivial=True, tags=["cross-object", f"form={form}"])
            w = {"steps": steps, "scope": "covered", "form": form}
            m = sc.parse_model(o)
            if m["status"] != "ok" or st != "ok":
                if m["status"] != st:
                    res.disagree(inp, m["status"], st, "verdict (cross-object history)", w)
            elif m["cycles"] != r:
                res.disagree(inp, m["cycles"], r, f"cycles list of call {k + 1} (scheduler settings {eff})", w)

    def _compare_repeat(self, ctx, res, inp, w, specs, method, perm, repeat, st, idx, shuf, cyc_call=None, fields=None):
        """repeat_num: the model is run once per repetition on the shuffles that repetition consumed;
        the selection rule of `schedule` (first result with the smallest maximal cycle index) is applied here.
        `cyc_call`: (status, result) of the same call with return_cycles_list=True -- the cycles list of the selected
        repetition on a tree whose repeat loop measures a cycles list by its length, a TypeError otherwise (the variant is
        read from the source, sc.repeat_cycles_ok)."""
        if st != "ok":
            res.disagree(inp, "ok", st, "verdict (repeat_num)", w)
            return
        fields = fields or [fields_of(s) + (sc.DEN,) for s in specs]
        rest, best, best_len, best_cyc = list(shuf), [0], 4294967296, None
        drv = ctx.driver("drv_sched")
        for _ in range(repeat):
            m = sc.parse_model(drv.run([sc.model_line(method, perm, fields, rest, w.get("cons"))])[0])
            if m["status"] != "ok":
                res.disagree(inp, m["status"], st, "verdict (repeat_num)", w)
                return
            rest = rest[m["used"]:]
            if max(m["idx"]) < best_len:
                best, best_len, best_cyc = m["idx"], max(m["idx"]), m["cycles"]
        if cyc_call is not None and not rest:
            res.case(dict(inp, return_cycles_list=True), nontrivial=True, tags=["repeat+cycles"])
            w2 = dict(w, repeat_cycles=True)
            if sc.repeat_cycles_ok():
                if cyc_call[0] != "ok" or cyc_call[1] != best_cyc:
                    res.disagree(dict(inp, return_cycles_list=True), best_cyc, list(cyc_call), "cycles list (repeat_num)", w2)
            elif not cyc_call[0].startswith("other:TypeError"):
                res.disagree(dict(inp, return_cycles_list=True), "TypeError (max of a list of lists compared with an int)",
                             list(cyc_call), "verdict (repeat_num, return_cycles_list)", w2)
        if rest:
            res.disagree(inp, "shuffles left over", len(rest), "number of shuffle calls (repeat_num)", w)
        elif best != list(idx):
            res.disagree(inp, best, list(idx), "gate_cycle_indices (repeat_num)", w)

    def _comm_exhaustive(self, ctx, res):
        """commutation_rules over the abstraction it depends on: names (the five it tests for, names sorting
        before / between / after them, equal or different) x controls x targets"""
        _, Instruction, Scheduler, Gate, _ = sc._mods()
        names = ["CNOT", "X", "RX", "Z", "RZ", "BERKELEY", "SNOT", "TOFFOLI", "a", "CNOT2", "QASMU", "FREDKIN", "H"]
        ctrls = [None, [0], [1], [0, 1], [1, 0]]
        tgts = [[0], [1], [2], [0, 1], [1, 2], [2, 1], [0, 1, 2], [0, 2, 1]]
        items = []
        for nm in names:
            for c in ctrls:
                for t in tgts:
                    items.append(Instruction(Gate(nm, targets=list(t), controls=None if c is None else list(c))))
        sch = Scheduler("ASAP")
        pairs, exp = [], []
        for a in range(len(items)):
            fa = sc.enc_ins(*sc.ins_fields(items[a]), 1)
            for b in range(len(items)):
                pairs.append(fa + "|" + sc.enc_ins(*sc.ins_fields(items[b]), 1))
                exp.append(bool(sch.commutation_rules(a, b, items)))
        drv = ctx.driver("drv_sched")
        outs = drv.run(["comm g=" + p for p in pairs])          # the rule of the model (`commRules`)
        outs_gen = drv.run(["commgen g=" + p for p in pairs])   # the rule regenerated from the source
        nb = 0
        for k, (o, og, e) in enumerate(zip(outs, outs_gen, exp)):
            a, b = divmod(k, len(items))
            res.case({"comm": [sc.ins_fields(items[a]), sc.ins_fields(items[b])]}, nontrivial=True,
                     tags=["comm-rules", f"answer={int(e)}"])
            if o != f"ok {int(e)}" or og != f"ok {int(e)}":
                nb += 1
                if nb <= 3:
                    res.disagree({"comm": [sc.ins_fields(items[a]), sc.ins_fields(items[b])]},
                                 {"commRules": o, "regenerated": og}, e, "commutation_rules", None)
        res.notes.append(f"commutation_rules compared (model rule and regenerated rule) on all {len(pairs)} ordered pairs "
                         f"over {len(names)} names x {len(ctrls)} control lists x {len(tgts)} target lists")

    def _semantics_of_names(self, ctx, res):
        """What `schedule_den_C_full` assumes about names beyond the IR library, checked on the real library: the other
        spellings denote the same operator (`aliasOf`: H = SNOT, CX = CNOT, iSWAP = ISWAP, SWAPalpha = SWAPALPHA), the
        SWAPALPHA matrix is the documented one (`Gen.G.swapalpha_`, `GateDoc.swapalpha_eq`), every name of the tree's
        set is known to the library, and the library refuses the non-canonical shapes `shapeOK` excludes."""
        import cmath
        for alias, base in sc.SAME_OPERATOR.items():
            nc, nt, npar = sc.LIBRARY[alias]
            ts, cs = list(range(nc, nc + nt)), list(range(nc))
            arg = 0.37 if npar else None
            A = sc.gate_matrix([alias, ts, cs, arg], nc + nt)
            B = sc.gate_matrix([base, ts, cs, arg], nc + nt)
            res.case({"alias": [alias, base]}, nontrivial=True, tags=["name-semantics"])
            if np.abs(A - B).max() > 1e-12:
                res.disagree({"alias": [alias, base]}, "same operator", float(np.abs(A - B).max()),
                             "another spelling of a library gate has a different matrix", None)
        for al in (0.0, 0.37, 1.0, -2.25):
            e = cmath.exp(1j * cmath.pi * al)
            M = np.array([[1, 0, 0, 0], [0, (1 + e) / 2, (1 - e) / 2, 0], [0, (1 - e) / 2, (1 + e) / 2, 0], [0, 0, 0, 1]])
            A = sc.gate_matrix(["SWAPALPHA", [0, 1], [], al], 2)
            res.case({"swapalpha": al}, nontrivial=True, tags=["name-semantics"])
            if np.abs(A - M).max() > 1e-12:
                res.disagree({"swapalpha": al}, M.tolist(), A.tolist(), "SWAPALPHA matrix", None)
        tree_set = sc.self_commuting_names()
        _, _, _, Gate, QubitCircuit = sc._mods()
        for name in sorted(tree_set or []):
            res.case({"set-name": name}, nontrivial=True, tags=["name-semantics"])
            if name not in sc.LIBRARY:
                res.disagree({"set-name": name}, "a gate of the harness table", "unknown",
                             "_SELF_COMMUTING_GATES lists a name the harness has no gate for", None)
                continue
            if name not in sc.LIBRARY:
                continue
            nc, nt, npar = sc.LIBRARY[name]
            # one control / target too many or too few must be refused by the library's gate classes
            shapes = [(list(range(nt)), list(range(nt, nt + nc + 1))), (list(range(nt + 1)), list(range(nt + 1, nt + 1 + nc))),
                      (list(range(nt - 1)), list(range(nt, nt + nc)))]
            if nc:
                shapes.append((list(range(nt)), list(range(nt, nt + nc - 1))))
            for ts, cs in shapes:
                try:
                    qc = QubitCircuit(6)
                    qc.add_gate(name, targets=list(ts) or None, controls=list(cs) or None, arg_value=sc.arg_for(name, 0))
                    qc.gates[0].get_qobj(num_qubits=6, dims=[2] * 6)
                    ok = False
                except Exception:
                    ok = True
                res.case({"shape": [name, ts, cs]}, nontrivial=True, tags=["name-semantics"])
                if not ok:
                    res.disagree({"shape": [name, ts, cs]}, "refused", "accepted",
                                 "the library accepts a non-canonical shape of a self-commuting name", None)

    def correspondence(self, ctx, res):
        rng = ctx.rng
        self._chain = sc.SchedulerChain(maxlen=8)
        self._pools = {}
        res.notes.append("about a third of the schedule cases are calls on a Scheduler object already used for up to 7 earlier "
                         "calls of the same setting (tag history=k); half of them are followed by a case that re-schedules the "
                         "same circuit / list object after in-place edits (tag edited-in-place); the model is stateless")
        missing, extra = sc.library_check()
        if missing or extra:
            res.notes.append(f"gate library differs from the harness table: unknown {missing}, absent {extra}")
        self._comm_exhaustive(ctx, res)
        self._semantics_of_names(ctx, res)
        tree_set = sc.self_commuting_names()
        ans = ctx.driver("drv_sched").run(["scnames"])[0]
        model_set = None if ans == "none" else set(ans[3:].split(","))
        res.case({"scnames": sorted(tree_set) if tree_set is not None else None}, nontrivial=True, tags=["name-semantics"])
        if model_set != (None if tree_set is None else set(tree_set)):
            res.disagree({"scnames": None}, sorted(model_set or []), sorted(tree_set or []),
                         "_SELF_COMMUTING_GATES regenerated into Gen/SchedRule.lean differs from the set of the tree", None)
        res.notes.append("the same-name rule is restricted to _SELF_COMMUTING_GATES (%s names, regenerated into "
                         "Gen/SchedRule.lean; tree_set_interpreted / tree_set_without_fredkin are proved about this set)"
                         % (len(tree_set) if tree_set is not None else "no set:"))
        settings = [(m, p) for m in ("ASAP", "ALAP") for p in (True, False)]
        # exhaustive small enumerations ------------------------------------------------------
        P_all = sc.placements(3)
        P_cls = sc.placements(3, sc.CLASS_REPS)
        batch = []
        maxlen_cls = 3 if ctx.thorough else 2
        for L in range(1, maxlen_cls + 1):
            for seq in itertools.product(P_cls, repeat=L):
                specs = specs_from(seq)
                for m, p in settings:
                    batch.append((specs, 3, m, p, False, 0))
        if ctx.thorough:
            for L in (1, 2):
                for seq in itertools.product(P_all, repeat=L):
                    specs = specs_from(seq)
                    for m, p in settings:
                        batch.append((specs, 3, m, p, False, 0))
        self._flush(ctx, res, batch, "exhaustive")
        res.exhaustive = True
        res.notes.append(
            f"exhaustive: all sequences of length <= {maxlen_cls} over the {len(P_cls)} placements on 3 qubits of one "
            f"representative per scheduler-distinguishable gate class {sc.CLASS_REPS}, 4 settings"
            + (f"; all sequences of length <= 2 over all {len(P_all)} placed library gates on 3 qubits" if ctx.thorough else "")
            + f"; length-3 sequences over all {len(P_all)} placed library gates are sampled")
        # sampled length-3 over every placed library gate on 3 qubits --------------------------
        batch = []
        for _ in range(60000 if ctx.thorough else 2500):
            L = rng.choice([2, 3, 3, 3])
            specs = specs_from([rng.choice(P_all) for _ in range(L)])
            m, p = rng.choice(settings)
            batch.append((specs, 3, m, p, rng.random() < 0.3, 0))
        self._flush(ctx, res, batch, "sampled3")
        # random sequences up to length 14 on up to 5 qubits ------------------------------------
        batch = []
        P5 = {N: sc.placements(N) for N in (2, 3, 4, 5)}
        for k in range(40000 if ctx.thorough else 2500):
            N = rng.choice([2, 3, 4, 5, 5, 5])
            L = rng.randint(1, 14)
            pool = P5[N]
            if rng.random() < 0.4:      # few names / few qubits: many commuting pairs and ties
                names = rng.sample(sc.FEW_NAMES, 3)
                pool = sc.placements(N, [n for n in names if sum(sc.LIBRARY[n][:2]) <= N] or ["X"])
            seq = [rng.choice(pool) for _ in range(L)]
            if rng.random() < 0.05:
                seq.insert(rng.randrange(len(seq) + 1), ("GLOBALPHASE", [], []))
            if rng.random() < 0.05:
                seq.append(("MYGATE", [rng.randrange(N)], []))
            specs = specs_from(seq)
            m, p = rng.choice(settings)
            repeat = rng.choice([1, 2, 3]) if rng.random() < 0.08 else 0
            batch.append((specs, N, m, p, rng.random() < 0.5, repeat))
        self._flush(ctx, res, batch, "random")
        # a gate between two non-commuting gates on one qubit (every one-qubit name as the gate in between) ---------
        shapes = list(sc.interleave_shapes(full=ctx.thorough))
        if not ctx.thorough:
            shapes = shapes[:105] + rng.sample(shapes[105:], 600)
        batch = [(specs_from(seq), 2, m, p, k % 5 == 0, 0) for k, seq in enumerate(shapes) for m, p in settings]
        self._flush(ctx, res, batch, "interleaved")
        self._cross_object(ctx, res, 1500 if ctx.thorough else 250)
        res.notes.append("cross-object histories: an earlier Scheduler's public attributes are edited in place, then a freshly "
                         "constructed Scheduler must behave like one in a fresh process (tag cross-object); container forms of "
                         "targets / controls: lists and numpy integers in the correspondence (tag form=), one-element numpy "
                         "arrays in the oracles")
        # triples on which the rule is not transitive (H commutes with A and B, A and B are not related), all orders ---------
        batch = [(specs_from(seq), 2, m, p, k % 4 == 0, 0) for k, seq in enumerate(sc.nontransitive_shapes()) for m, p in settings]
        self._flush(ctx, res, batch, "nontransitive")
        # constructor arguments: every `method` value x every constraint list on fixed circuits, then random ----------
        batch = []
        for seq in self.CTOR_CIRCUITS:
            for m in sc.METHODS:
                for cons in sc.CONS_LISTS:
                    for p in (True, False):
                        batch.append((specs_from(seq), 3, m, p, False, 0, cons))
        P3 = sc.placements(3, sc.FEW_NAMES)
        for k in range(6000 if ctx.thorough else 1200):
            specs = specs_from([rng.choice(P3) for _ in range(rng.randint(2, 8))])
            batch.append((specs, 3, rng.choice(sc.METHODS), rng.random() < 0.8, rng.random() < 0.3,
                          rng.choice([0, 0, 0, 0, 2]), rng.choice(sc.CONS_LISTS)))
        self._flush(ctx, res, batch, "constructor")
        ans = ctx.driver("drv_sched").run(["methodtests"])[0]
        res.notes.append(f"constructor arguments: {len(sc.METHODS)} method values (strings the code compares with {ans[3:]!r} at three "
                         f"places; everything else must behave as ASAP) x {len(sc.CONS_LISTS)} constraint function lists (0-3 "
                         "functions, qubit_constraint first / last / in the middle / absent) exhaustively on "
                         f"{len(self.CTOR_CIRCUITS)} circuits, both permutation settings, and at random")
        # degenerate / malformed -----------------------------------------------------------
        batch = [([], 2, m, p, False, 0) for m, p in settings]
        batch += [(specs_from([("GLOBALPHASE", [], [])] * k), 2, m, p, False, 0) for k in (1, 2) for m, p in settings]
        self._flush(ctx, res, batch, "degenerate")
        self._edges(ctx, res, 4000 if ctx.thorough else 400)

    def _flush(self, ctx, res, batch, tag):
        for i in range(0, len(batch), 5000):
            self._run_batch(ctx, res, batch[i:i + 5000], tag)

    def _edges(self, ctx, res, n):
        """dependency edges of generate_dependency_graph, compared exactly"""
        rng = ctx.rng
        _, Instruction, _, _, _ = sc._mods()
        P = {N: sc.placements(N) for N in (3, 5)}
        lines, exp, inps = [], [], []
        for _ in range(n):
            N = rng.choice([3, 5])
            specs = specs_from([rng.choice(P[N]) for _ in range(rng.randint(1, 12))])
            perm = rng.random() < 0.8
            ins = [Instruction(gate_obj(s)) for s in specs]
            exp.append(sc.impl_edges(ins, perm))
            lines.append(sc.model_line("ASAP", perm, [fields_of(s) + (sc.DEN,) for s in specs]))
            inps.append({"edges-of": [[s[0], s[1], s[2]] for s in specs], "perm": perm})
        for o, e, inp in zip(ctx.driver("drv_sched").run(lines), exp, inps):
            m = sc.parse_model(o)
            res.case(inp, nontrivial=bool(e), tags=["dependency-edges"])
            if m.get("edges") != e:
                res.disagree(inp, m.get("edges"), e, "dependency edges", None)

    # ----------------------------------------------------------------------------------
    def _judge(self, specs, N, perm, cycles, scope, cons=None, ordered=True):
        """the property on one returned cycles list -> (fails, detail)"""
        bad = cycles_checks(specs, cycles, perm, cons, ordered)
        if bad:
            return True, bad
        if scope == "covered" and perm:
            pair = sc.known_class_pair(specs, N)
            if pair is not None:
                return False, (f"structure holds; unitary clause not evaluated: gates {pair} have the same name and equal "
                               "targets / controls but do not commute (the class of the finding recorded for trees without "
                               "_SELF_COMMUTING_GATES, excluded by hypothesis H2 of schedule_den_partial)")
        order = [i for c in cycles for i in c]
        U0 = sc.product(specs, list(range(len(specs))), N)
        U1 = sc.product(specs, order, N)
        err = float(np.abs(U0 - U1).max())
        if err > 1e-9:
            return True, f"scheduled order {cycles} changes the unitary (max entry difference {err:.3g})"
        return False, f"cycles {cycles}: partition, exclusive, same unitary"

    def _replay_history(self, ctx, w):
        """several schedule() calls on ONE Scheduler object; the property is evaluated on every gate-mode result"""
        _, _, Scheduler, _, _ = sc._mods()
        method, perm, cons = w["method"], w["perm"], w.get("cons")
        sch = sc.new_scheduler(method, perm, cons)
        n = len(w["history"])
        store = {}
        for k, call in enumerate(w["history"]):
            st, r = sc.run_call(sch, call, method, perm, store=store,
                                gate_of=gate_obj if w.get("form", "list") == "list" else (lambda x: sc.make_gate(x, w["form"])))
            if call["kind"] != "gate":
                continue
            specs = call["gates"]
            if not specs:
                if st != "ok" or r != []:
                    return True, f"call {k + 1} of {n} on one Scheduler object: empty input -> {st} {r}"
                continue
            if all(not sc.used_of(s) for s in specs):
                continue
            if st != "ok":
                return True, f"call {k + 1} of {n} on one Scheduler object: schedule raised: {st}"
            f, d = self._judge(specs, call["N"], perm, sc.cycles_of(call, r), w.get("scope"), cons,
                               ordered=bool(call.get("cycles")))
            if f:
                return True, (f"call {k + 1} of {n} on one Scheduler object (circuit "
                              f"{[[g[0], g[1], g[2]] for g in specs]}): " + d)
        return False, f"{n} calls on one Scheduler object: every result is a partition into exclusive cycles with the same unitary"

    def _replay_steps(self, ctx, w):
        """several Scheduler objects in one process, public attributes of earlier ones edited in place; every gate-mode
        result is judged by the property for the settings its scheduler has at the time of the call"""
        results = sc.run_steps(w["steps"], w.get("form", "list"))
        n = len(results)
        for k, (call, eff, st, r) in enumerate(results):
            if call["kind"] != "gate" or not call["gates"] or all(not sc.used_of(x) for x in call["gates"]):
                continue
            if st != "ok":
                return True, f"call {k + 1} of {n} (scheduler settings {eff}): schedule raised: {st}"
            f, d = self._judge(call["gates"], call["N"], eff["perm"], sc.cycles_of(call, r), w.get("scope"), eff["cons"],
                               ordered=bool(call.get("cycles")))
            if f:
                return True, (f"call {k + 1} of {n}, on a Scheduler with settings {eff} created after / next to other Scheduler "
                              f"objects of the process (circuit {[[g[0], g[1], g[2]] for g in call['gates']]}): " + d)
        return False, f"{n} calls on several Scheduler objects: every result is a partition into exclusive cycles with the same unitary"

    def oracle_replay(self, ctx, w):
        if "steps" in w:
            return self._replay_steps(ctx, w)
        if "history" in w:
            return self._replay_history(ctx, w)
        specs, N, method, perm = w["gates"], w["N"], w["method"], w["perm"]
        shuf, repeat, cons = w.get("shuf"), w.get("repeat", 0), w.get("cons")
        if not specs:
            st, r = sc.impl_schedule([], method, perm, cons=cons)
            return (st != "ok" or r != []), f"empty input -> {st} {r}"
        if all(not sc.used_of(s) for s in specs):
            return False, "no instruction uses a qubit (the code raises on max() of an empty set; not a gate circuit)"
        form = w.get("form", "list")
        qc = sc.make_circuit(N, specs) if form == "list" else [sc.make_gate(x, form) for x in specs]
        if repeat:
            log = sc.ShuffleLog(replay=shuf) if shuf is not None else sc.ShuffleLog(random.Random(w.get("shuffle_seed", 0)))
            if w.get("repeat_cycles"):
                if w.get("scope") == "covered" and not sc.repeat_cycles_ok():
                    return False, ("not evaluated: return_cycles_list=True with repeat_num > 0 raises TypeError on a tree whose "
                                   "repeat loop takes max() of the cycles list (finding repaired by fixes/C05-3.patch)")
                st, cycles = sc.impl_schedule(qc, method, perm, log, cons=cons, return_cycles_list=True, repeat_num=repeat)
                if st != "ok":
                    return True, f"schedule(return_cycles_list=True, repeat_num={repeat}) raised: {st}"
            else:
                st, idx = sc.impl_schedule(qc, method, perm, log, cons=cons, repeat_num=repeat)
                if st != "ok":
                    return True, f"schedule raised: {st}"
                cycles = [[i for i, c in enumerate(idx) if c == k] for k in range(max(idx) + 1)]
        else:
            log = None
            if shuf is not None:
                log = sc.ShuffleLog(replay=shuf)
            elif w.get("shuffle_seed") is not None:
                log = sc.ShuffleLog(random.Random(w["shuffle_seed"]))
            st, cycles = sc.impl_schedule(qc, method, perm, log, cons=cons, return_cycles_list=True,
                                          random_shuffle=log is not None)
            if st != "ok":
                return True, f"schedule raised: {st}"
            if w.get("also_indices"):        # the other gate-level output path (gate_cycle_indices)
                log3 = sc.ShuffleLog(replay=log.log) if log is not None else None
                st3, idx = sc.impl_schedule(qc, method, perm, log3, cons=cons, random_shuffle=log is not None)
                if st3 != "ok":
                    return True, f"schedule (gate_cycle_indices) raised: {st3}"
                by_idx = [sorted(i for i, c in enumerate(idx) if c == k) for k in range(max(idx) + 1)]
                if by_idx != [sorted(c) for c in cycles]:      # the second output form is judged by the property as well
                    f2, d2 = self._judge(specs, N, perm, by_idx, w.get("scope"), cons, ordered=False)
                    if f2:
                        return True, f"gate_cycle_indices {list(idx)}: " + d2
        return self._judge(specs, N, perm, cycles, w.get("scope"), cons,
                           ordered=not (repeat and not w.get("repeat_cycles")))

    HIST_POOL = [("CNOT", [1], [0]), ("CNOT", [2], [0]), ("CNOT", [0], [1]), ("SNOT", [0], []), ("X", [1], []),
                 ("RZ", [0], []), ("RX", [0], []), ("Z", [1], []), ("SWAP", [0, 1], [])]

    def _history_witnesses(self, rng=None, count=None):
        """two or three short circuits scheduled one after the other on ONE Scheduler object: all ordered pairs of
        two-gate circuits over HIST_POOL (or `count` random histories of 2-3 circuits of length 2-4 when `rng` is given)"""
        pool = self.HIST_POOL

        def call(seq, cycles=True):
            return {"kind": "gate", "N": 3, "gates": specs_from(seq), "shuf": None, "repeat": 0, "cycles": cycles,
                    "as_circuit": False}
        def spec(g, k):
            return [g[0], list(g[1]), list(g[2]), sc.arg_for(g[0], k)]
        if rng is None:
            two = list(itertools.product(pool, repeat=2))
            # the SAME object scheduled twice, one gate replaced in place in between (list and QubitCircuit)
            for a in two:
                for i in (0, 1):
                    for k, x in enumerate(pool):
                        ed = [["set", i, spec(x, 3 + k)]]
                        c1 = dict(call(a), obj=1, edits=[], as_circuit=bool((i + k) % 2))
                        c2 = dict(c1, gates=sc.edited_specs(c1["gates"], ed), edits=ed)
                        for m in ("ASAP", "ALAP"):
                            yield {"history": [c1, c2], "method": m, "perm": True, "scope": "covered"}
            for a in two:
                for b in two:
                    for m in ("ASAP", "ALAP"):
                        yield {"history": [call(a), call(b)], "method": m, "perm": True, "scope": "covered"}
        else:
            placed = [(g[0], list(g[1]), list(g[2])) for g in pool]
            for _ in range(count):
                if rng.random() < 0.5:          # one persistent object, edited in place between the calls
                    c = dict(call([rng.choice(pool) for _ in range(rng.randint(2, 4))], cycles=rng.random() < 0.7),
                             obj=1, edits=[], as_circuit=rng.random() < 0.5)
                    calls = [c]
                    for _ in range(rng.randint(1, 2)):
                        ed = sc.random_edits(rng, c["gates"], 3, placed)
                        c = dict(c, gates=sc.edited_specs(c["gates"], ed), edits=ed, cycles=rng.random() < 0.7)
                        if not c["gates"]:
                            break
                        calls.append(c)
                else:
                    calls = [call([rng.choice(pool) for _ in range(rng.randint(2, 4))], cycles=rng.random() < 0.7)
                             for _ in range(rng.randint(2, 3))]
                yield {"history": calls, "method": rng.choice(["ASAP", "ALAP"]), "perm": True, "scope": "covered"}

    def _interleaved(self, full=False):
        for seq in sc.interleave_shapes(full=full):
            for m in ("ASAP", "ALAP"):
                yield {"N": 2, "gates": specs_from(seq), "method": m, "perm": True, "shuf": None, "repeat": 0,
                       "scope": "covered"}
            yield {"N": 2, "gates": specs_from(seq), "method": "ASAP", "perm": True, "shuf": None, "shuffle_seed": len(seq),
                   "repeat": 0, "scope": "covered"}

    CTOR_CIRCUITS = [
        [("X", [0], []), ("SNOT", [0], [])],
        [("CNOT", [1], [0]), ("CNOT", [2], [0])],
        [("CNOT", [1], [0]), ("CNOT", [2], [0]), ("SNOT", [2], [])],
        [("RX", [0], []), ("IDLE", [0], []), ("RZ", [0], [])],
        [("CZ", [1], [0]), ("CZ", [2], [0]), ("CZ", [2], [1]), ("X", [0], [])],
        [("SNOT", [1], []), ("CNOT", [1], [0]), ("CNOT", [2], [0]), ("RZ", [0], []), ("SWAP", [1, 2], [])],
    ]

    def _constructor_witnesses(self):
        """every kind of constructor argument: all `method` values x all constraint lists on a few small circuits"""
        for seq in self.CTOR_CIRCUITS:
            for m in sc.METHODS:
                for cons in sc.CONS_LISTS:
                    if m in ("ASAP", "ALAP") and cons is None:
                        continue
                    yield {"N": 3, "gates": specs_from(seq), "method": m, "perm": True, "shuf": None, "repeat": 0,
                           "scope": "covered", "cons": cons, "also_indices": True}
            # the other arguments of schedule(): repeat_num with both gate-level output forms
            for m in ("ASAP", "ALAP"):
                for rc in (False, True):
                    yield {"N": 3, "gates": specs_from(seq), "method": m, "perm": True, "shuf": None, "shuffle_seed": 1,
                           "repeat": 2, "repeat_cycles": rc, "scope": "covered"}

    def _cross_object_witnesses(self, rng=None, count=0):
        """histories over several Scheduler objects: the minimal ones first (use / edit scheduler 0 in place, then a fresh
        default scheduler), then random ones"""
        def call(seq, cycles=True):
            return {"kind": "gate", "N": 3, "gates": specs_from(seq), "shuf": None, "repeat": 0, "cycles": cycles,
                    "as_circuit": False}
        if rng is None:
            for seq in self.CTOR_CIRCUITS:
                # attribute edits on ONE object: constructed without permutation / with the other method, then switched
                for m in ("ASAP", "ALAP"):
                    for what in ("perm:1", "method:" + ("ALAP" if m == "ASAP" else "ASAP"), ["assign", ["q"]], ["assign", None]):
                        yield {"steps": [{"op": "new", "id": 0, "method": m, "perm": what != "perm:1", "cons": None},
                                         {"op": "mutate", "id": 0, "what": what},
                                         {"op": "call", "id": 0, "call": call(seq)}], "scope": "covered"}
                for what in ("clear", "pop", "append_a", "method:ALAP", "perm:0"):
                    for m in ("ASAP", "ALAP"):
                        yield {"steps": [{"op": "new", "id": 0, "method": m, "perm": True, "cons": None},
                                         {"op": "call", "id": 0, "call": call(seq)},
                                         {"op": "mutate", "id": 0, "what": what},
                                         {"op": "new", "id": 1, "method": m, "perm": True, "cons": None},
                                         {"op": "call", "id": 1, "call": call(seq)},
                                         {"op": "call", "id": 0, "call": call(seq)}], "scope": "covered"}
        else:
            for _ in range(count):
                yield {"steps": sc.cross_object_steps(rng, lambda: call([rng.choice(self.HIST_POOL) for _ in range(rng.randint(2, 4))],
                                                                          cycles=rng.random() < 0.7)),
                       "scope": "covered", "form": rng.choice(["list", "list", "npint", "array1"])}

    def _form_witnesses(self):
        """container forms of targets / controls (numpy integers, one-element numpy arrays) on small circuits"""
        seqs = self.CTOR_CIRCUITS + [[("CNOT", [1], [0]), ("X", [0], [])], [("X", [0], []), ("CNOT", [1], [0])],
                                     [("CNOT", [1], [0]), ("SNOT", [0], []), ("CNOT", [2], [0])],
                                     [("CZ", [1], [0]), ("RX", [0], []), ("RZ", [1], [])]]
        # gates of DIFFERENT one-control families sharing a control or a target: as class instances they carry one name
        seqs += [[("CRX", [1], [0]), ("CRY", [1], [0])], [("CX", [2], [0]), ("CY", [2], [1])], [("CT", [0], [1]), ("CY", [0], [2])],
                 [("CS", [1], [0]), ("CRZ", [1], [0]), ("CRX", [1], [0])], [("CRY", [2], [0]), ("CZ", [1], [0]), ("CX", [1], [0])],
                 [("SWAP", [1], [0]), ("SWAP", [2], [0])], [("ISWAP", [0], [1]), ("ISWAP", [0], [2]), ("X", [0], [])]]
        for seq in seqs:
            for form in sc.FORMS[1:] + sc.OBJECT_FORMS:
                for m in ("ASAP", "ALAP"):
                    yield {"N": 3, "gates": specs_from(seq), "method": m, "perm": True, "shuf": None, "repeat": 0,
                           "scope": "covered", "form": form, "also_indices": True}
                yield {"N": 3, "gates": specs_from(seq), "method": "ASAP", "perm": True, "shuf": None, "shuffle_seed": 3,
                       "repeat": 0, "scope": "covered", "form": form}

    def _nontransitive(self):
        """all orders of the triples on which the documented rule is not transitive (+ priority-changing tails)"""
        for seq in sc.nontransitive_shapes():
            for m in ("ASAP", "ALAP"):
                yield {"N": 2, "gates": specs_from(seq), "method": m, "perm": True, "shuf": None, "repeat": 0,
                       "scope": "covered"}
            yield {"N": 2, "gates": specs_from(seq), "method": "ASAP", "perm": True, "shuf": None, "shuffle_seed": len(seq),
                   "repeat": 0, "scope": "covered"}

    def _systematic(self):
        yield from self._shared_parameter_witnesses()
        yield from self._form_witnesses()
        yield from self._cross_object_witnesses()
        yield from self._nontransitive()
        yield from self._constructor_witnesses()
        yield from self._interleaved()
        P = sc.placements(3)
        for L in (1, 2):
            for seq in itertools.product(P, repeat=L):
                for m in ("ASAP", "ALAP"):
                    for p in (True, False):
                        yield {"N": 3, "gates": specs_from(seq), "method": m, "perm": p, "shuf": None, "repeat": 0,
                               "scope": "covered"}

    def _random_witness(self, rng):
        N = rng.choice([2, 3, 4, 5])
        P = sc.placements(N)
        if rng.random() < 0.5:
            names = rng.sample(sc.FEW_NAMES, 4)
            P = sc.placements(N, [n for n in names if sum(sc.LIBRARY[n][:2]) <= N] or ["X"])
        specs = specs_from([rng.choice(P) for _ in range(rng.randint(2, 12))])
        w = {"N": N, "gates": specs, "method": rng.choice(["ASAP", "ALAP"]), "perm": rng.random() < 0.75,
             "shuf": None, "shuffle_seed": rng.choice([None, rng.randrange(10 ** 6)]),
             "repeat": rng.choice([0, 0, 0, 2]), "scope": "covered"}
        if rng.random() < 0.15:
            w["method"] = rng.choice(sc.METHODS_ODD)
        if rng.random() < 0.25:
            w["cons"] = rng.choice(sc.CONS_LISTS)
        if w["repeat"] and rng.random() < 0.5:
            w["repeat_cycles"] = True
        if rng.random() < 0.35:
            w["form"] = rng.choice(sc.FORMS[1:] + sc.OBJECT_FORMS)
        return w

    def oracle_search(self, ctx, budget_s):
        t0 = time.time()
        for w in self._systematic():
            if time.time() - t0 > budget_s * 0.45:
                break
            f, d = self.oracle_replay(ctx, w)
            if f:
                yield w, d
        for w in self._history_witnesses():
            if time.time() - t0 > budget_s * 0.7:
                break
            f, d = self.oracle_replay(ctx, w)
            if f:
                yield w, d
        for w in self._interleaved(full=True):
            if time.time() - t0 > budget_s * 0.9:
                break
            f, d = self.oracle_replay(ctx, w)
            if f:
                yield w, d
        while time.time() - t0 < budget_s:
            w = self._random_witness(ctx.rng)
            f, d = self.oracle_replay(ctx, w)
            if f:
                yield w, d

    def _family_witnesses(self):
        """same-name pairs of the families that do NOT commute with themselves (the class of the known finding on a tree
        without the repair; ordinary circuits on a repaired tree)"""
        pairs = [[("QASMU", [0], []), ("QASMU", [0], [])], [("R", [0], []), ("R", [0], [])],
                 [("MS", [0, 1], []), ("MS", [0, 1], [])], [("RZX", [0, 1], []), ("RZX", [1, 0], [])],
                 [("FREDKIN", [1, 2], [0]), ("FREDKIN", [2, 3], [0])],
                 [("TOFFOLI", [0, 1, 2], []), ("TOFFOLI", [0, 2, 1], [])], [("TOFFOLI", [0, 1, 2], []), ("TOFFOLI", [1, 0, 2], [])],
                 [("TOFFOLI", [2, 0, 1], []), ("TOFFOLI", [1], [0, 2])], [("FREDKIN", [0, 1, 2], []), ("FREDKIN", [1, 0, 2], [])],
                 [("X", [2], []), ("TOFFOLI", [0, 1, 2], []), ("TOFFOLI", [2, 1, 0], []), ("X", [0], [])],
                 [("TOFFOLI", [1, 2], [0]), ("TOFFOLI", [2, 1], [0])], [("TOFFOLI", [1, 2], [0]), ("TOFFOLI", [2], [0, 1])],
                 [("TOFFOLI", [0, 2], [1]), ("TOFFOLI", [1, 2], [0]), ("TOFFOLI", [2, 0], [1])],
                 [("X", [1], []), ("MS", [0, 1], []), ("MS", [1, 0], []), ("X", [0], [])]]
        for seq in pairs:
            N = 1 + max(q for g in seq for q in g[1] + g[2])
            for m in ("ASAP", "ALAP"):
                yield {"N": N, "gates": specs_from(seq), "method": m, "perm": True, "shuf": None, "repeat": 0,
                       "scope": "covered"}

    def _shared_parameter_witnesses(self):
        """two gates of one multi-parameter family (R, MS, QASMU) on the same qubit(s) whose parameter lists AGREE in some
        components and differ in another (the generic streams give every position different values in every component)"""
        import math
        vals = [0.0, math.pi / 2, 0.7, math.pi, 2 * math.pi + 0.7]
        for name, qs in (("R", [0]), ("MS", [0, 1]), ("QASMU", [0])):
            npar = sc.LIBRARY[name][2]
            for keep in range(npar):
                for a in vals[:4]:
                    for b, c in ((0.0, math.pi / 2), (0.7, 2.3), (math.pi / 2, math.pi)):
                        p1 = [b] * npar
                        p2 = [c] * npar
                        p1[keep] = p2[keep] = a
                        for extra in ([], [("X", [qs[0]], [])]):
                            gates = [[name, list(qs), [], p1], [name, list(qs), [], p2]] + \
                                    [[g[0], g[1], g[2], None] for g in extra]
                            for m in ("ASAP", "ALAP"):
                                yield {"N": 2, "gates": gates, "method": m, "perm": True, "shuf": None, "repeat": 0,
                                       "scope": "covered"}

    def oracle_always(self, ctx):
        for w in self._shared_parameter_witnesses():
            f, d = self.oracle_replay(ctx, w)
            if f:
                yield w, d
        # constructor arguments: every kind of `method`, user constraint function lists
        ctor = list(self._constructor_witnesses())
        for w in ctor[:len(sc.METHODS) * len(sc.CONS_LISTS)] + ctx.rng.sample(ctor, 400):
            f, d = self.oracle_replay(ctx, w)
            if f:
                yield w, d
        for w in self._family_witnesses():
            f, d = self.oracle_replay(ctx, w)
            if f:
                yield w, d
        for w in self._nontransitive():
            f, d = self.oracle_replay(ctx, w)
            if f:
                yield w, d
        # container forms of targets / controls; several Scheduler objects with in-place edits of public attributes
        for w in itertools.chain(self._form_witnesses(), self._cross_object_witnesses(),
                                 self._cross_object_witnesses(ctx.rng, 200)):
            f, d = self.oracle_replay(ctx, w)
            if f:
                yield w, d
        # restricted to the class the theorems cover: scope "covered" skips the unitary clause exactly for circuits
        # containing a pair of the known finding's class (sc.known_class_pair); see notes/C05.md
        for _ in range(250):
            w = self._random_witness(ctx.rng)
            w["repeat"] = 0
            f, d = self.oracle_replay(ctx, w)
            if f:
                yield w, d
        # a gate (every one-qubit name, IDLE included) between two non-commuting gates on one qubit
        inter = list(self._interleaved())
        for w in inter[:315] + ctx.rng.sample(inter[315:], 300):
            f, d = self.oracle_replay(ctx, w)
            if f:
                yield w, d
        # histories: one Scheduler object used for several circuits
        for w in self._history_witnesses(ctx.rng, 400):
            f, d = self.oracle_replay(ctx, w)
            if f:
                yield w, d


CHECK = C05()
