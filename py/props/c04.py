"""C04 — imported OpenQASM 2.0 programs mean what the standard says.

Correspondence: programs GENERATED from the grammar of the supported subset (and systematically
malformed variants) are rendered one statement per line; the text goes to read_qasm (string and file
mode), the AST goes to lean/QipVerif/Model/QasmImport.lean (driver drv_qasm); the resulting gate lists
(names, targets, controls, classical controls and value exactly; arguments numerically) or exception
classes are compared.  Oracle (independent of the model): props/qasm_std.py evaluates the standard's
semantics in numpy (everything expanded to U/CX) and is compared with the imported circuit's unitary
up to one global phase, per classical state for `if`."""
import itertools, json, math, os, tempfile, time, warnings
import numpy as np

from vlib.core import PropertyCheck
from props import qasm_tables, qasm_std, qasm_tok

QELIB = {"u3": (3, 1), "u2": (2, 1), "u1": (1, 1), "cx": (0, 2), "id": (0, 1), "x": (0, 1), "y": (0, 1), "z": (0, 1),
         "h": (0, 1), "s": (0, 1), "sdg": (0, 1), "t": (0, 1), "tdg": (0, 1), "rx": (1, 1), "ry": (1, 1), "rz": (1, 1),
         "cz": (0, 2), "cy": (0, 2), "ch": (0, 2), "ccx": (0, 3), "crz": (1, 2), "cu1": (1, 2), "cu3": (3, 2)}
LITS = ["0", "1", "2", "3", "4", "7", "0.5", "1.25", "2.0", "0.1", "3.14159", "10", "0.001", "8"]
NZ_LITS = [l for l in LITS if float(l) != 0]


# ---- rendering (mirrors Model/QasmSpec.lean: Expr.render … renderProgram; cross-checked with the driver) ----
def level(e):
    return {"+": 1, "-": 1, "*": 2, "/": 2, "neg": 3, "^": 4}.get(e[0], 5)


def rexpr(e):
    k = e[0]
    if k == "pi":
        return "pi"
    if k in ("lit", "id"):
        return e[1]
    if k == "neg":
        s = rexpr(e[1])
        return "-" + ("(" + s + ")" if level(e[1]) < 3 else s)
    if k == "fn":
        return e[1] + "(" + rexpr(e[2]) + ")"
    la, lb = {"+": (1, 2), "-": (1, 2), "*": (2, 3), "/": (2, 3), "^": (5, 4)}[k]
    a, b = rexpr(e[1]), rexpr(e[2])
    if level(e[1]) < la:
        a = "(" + a + ")"
    if level(e[2]) < lb:
        b = "(" + b + ")"
    return a + k + b


def rarg(a):
    return a[0] if a[1] is None else "%s[%d]" % (a[0], a[1])


def rparams(ps):
    return "(" + ",".join(rexpr(p) for p in ps) + ")" if ps else ""


def rqop(op):
    o = op["o"]
    if o == "U":
        return "U(" + ",".join(rexpr(e) for e in op["e"]) + ") " + rarg(op["q"]) + ";"
    if o == "CX":
        return "CX " + rarg(op["a"]) + "," + rarg(op["b"]) + ";"
    if o == "call":
        return op["n"] + rparams(op["ps"]) + " " + ",".join(rarg(a) for a in op["qs"]) + ";"
    if o == "measure":
        return "measure " + rarg(op["q"]) + " -> " + rarg(op["c"]) + ";"
    if o == "reset":
        return "reset " + rarg(op["q"]) + ";"
    raise ValueError(o)


def rgop(g):
    o = g["o"]
    if o == "U":
        return "U(" + ",".join(rexpr(e) for e in g["e"]) + ") " + g["q"] + ";"
    if o == "CX":
        return "CX " + g["a"] + "," + g["b"] + ";"
    if o == "call":
        return g["n"] + rparams(g["ps"]) + " " + ",".join(g["qs"]) + ";"
    return "barrier " + ",".join(g["qs"]) + ";"


def rformals(ps):
    return "(" + ",".join(ps) + ")" if ps else ""


def render(prog):
    out = []
    for s in prog:
        t = s["t"]
        if t == "version":
            out.append("OPENQASM 2.0;")
        elif t == "incl":
            out.append('include "%s";' % s["f"])
        elif t in ("qreg", "creg"):
            out.append("%s %s[%d];" % (t, s["n"], s["k"]))
        elif t == "gate":
            out.append("gate " + s["n"] + rformals(s["ps"]) + " " + ",".join(s["qs"]) + " {")
            out += [rgop(g) for g in s["body"]]
            out.append("}")
        elif t == "opaque":
            out.append("opaque " + s["n"] + rformals(s["ps"]) + " " + ",".join(s["qs"]) + ";")
        elif t == "qop":
            out.append(rqop(s["op"]))
        elif t == "if":
            out.append("if(%s==%d) " % (s["c"], s["k"]) + rqop(s["op"]))
        elif t == "barrier":
            out.append("barrier " + ",".join(rarg(a) for a in s["qs"]) + ";")
        else:
            raise ValueError(t)
    return out


# ---- encoding for the driver ------------------------------------------------------------------------
def hx(s):
    return s.encode("ascii").hex()


def eexpr(e):
    k = e[0]
    if k == "pi":
        return "P"
    if k == "lit":
        return "L" + hx(e[1])
    if k == "id":
        return "I" + hx(e[1])
    if k == "neg":
        return "N." + eexpr(e[1])
    if k == "fn":
        return "F" + hx(e[1]) + "." + eexpr(e[2])
    return {"+": "A", "-": "S", "*": "M", "/": "D", "^": "W"}[k] + "." + eexpr(e[1]) + "." + eexpr(e[2])


def earg(a):
    return "w" + hx(a[0]) if a[1] is None else "i%s:%d" % (hx(a[0]), a[1])


def eqop(op):
    o = op["o"]
    if o == "U":
        return "|".join(["U"] + [eexpr(e) for e in op["e"]] + [earg(op["q"])])
    if o == "CX":
        return "|".join(["X", earg(op["a"]), earg(op["b"])])
    if o == "call":
        return "|".join(["A", hx(op["n"]), ",".join(eexpr(p) for p in op["ps"]), ",".join(earg(a) for a in op["qs"])])
    if o == "measure":
        return "|".join(["M", earg(op["q"]), earg(op["c"])])
    return "|".join(["R", earg(op["q"])])


def egop(g):
    o = g["o"]
    if o == "U":
        return "~".join(["u"] + [eexpr(e) for e in g["e"]] + [hx(g["q"])])
    if o == "CX":
        return "~".join(["c", hx(g["a"]), hx(g["b"])])
    if o == "call":
        return "~".join(["g", hx(g["n"]), ",".join(eexpr(p) for p in g["ps"]), ",".join(hx(q) for q in g["qs"])])
    return "~".join(["b", ",".join(hx(q) for q in g["qs"])])


def encode(prog):
    out = []
    for s in prog:
        t = s["t"]
        if t == "version":
            out.append("V")
        elif t == "incl":
            out.append("C|" + hx(s["f"]))
        elif t == "qreg":
            out.append("Q|%s|%d" % (hx(s["n"]), s["k"]))
        elif t == "creg":
            out.append("K|%s|%d" % (hx(s["n"]), s["k"]))
        elif t == "gate":
            out.append("|".join(["G", hx(s["n"]), ",".join(hx(p) for p in s["ps"]), ",".join(hx(q) for q in s["qs"]),
                                 "/".join(egop(g) for g in s["body"])]))
        elif t == "opaque":
            out.append("|".join(["O", hx(s["n"]), ",".join(hx(p) for p in s["ps"]), ",".join(hx(q) for q in s["qs"])]))
        elif t == "qop":
            out.append(eqop(s["op"]))
        elif t == "if":
            out.append("I|%s|%d|" % (hx(s["c"]), s["k"]) + eqop(s["op"]))
        elif t == "barrier":
            out.append("B|" + ",".join(earg(a) for a in s["qs"]))
    return ";".join(out)


def unhx(h):
    return bytes.fromhex(h).decode("ascii")


def ev_text(t):
    return eval(t, {"__builtins__": {}}, {"pi": math.pi})


def dec_idx(s):
    if s == "N":
        return None
    return [int(x) for x in s[1:].split(".")] if len(s) > 1 else []


def dec_iarg(s):
    if s == "N":
        return None
    if s[0] == "O":
        return ("one", unhx(s[1:]))
    return ("many", [unhx(h) for h in s[1:].split(",")] if len(s) > 1 else [])


def dec_igate(fs):
    return {"name": unhx(fs[1]), "targets": dec_idx(fs[2]), "controls": dec_idx(fs[3]), "arg": dec_iarg(fs[4]),
            "cc": dec_idx(fs[5]), "cv": None if fs[6] == "N" else int(fs[6])}


def dec_import(o):
    """driver answer -> (verdict, nq, nc, ops, text lines)"""
    fields = dict(f.split("=", 1) for f in o.split(" ")[1:] if "=" in f)
    text = [unhx(h) for h in fields.get("text", "").split(",")] if fields.get("text") else []
    if o.startswith("err"):
        return o.split(" ")[1], None, None, None, text
    ops = []
    if fields.get("ops"):
        for s in fields["ops"].split(";"):
            fs = s.split(":")
            if fs[0] == "g":
                ops.append(("gate", dec_igate(fs)))
            elif fs[0] == "m":
                ops.append(("meas", int(fs[1]), int(fs[2])))
            else:
                inner = [dec_igate(x.split("~")) for x in fs[5].split("+")] if fs[5] else []
                ops.append(("custom", {"name": unhx(fs[1]), "targets": dec_idx(fs[2]), "cc": dec_idx(fs[3]),
                                       "cv": None if fs[4] == "N" else int(fs[4]), "inner": inner}))
    return "ok", int(fields["nq"]), int(fields["nc"]), ops, text


# ---- implementation side ----------------------------------------------------------------------------
EXC = {KeyError: "key", ValueError: "value", SyntaxError: "syntax", NotImplementedError: "notImpl", NameError: "name",
       ZeroDivisionError: "zeroDiv", IndexError: "index", RecursionError: "recursion", TypeError: "type"}
QISKIT_USER = {"ch", "cu3", "id", "sdg", "tdg", "u2"}


def impl_import(text, via_file=False):
    """-> (verdict, qc, {user gate name: gates of its temporary circuit})"""
    from qutip_qip import qasm
    rec = {}
    depth = [0]
    orig = qasm.QasmProcessor._custom_gate

    def wrapped(self, qc_temp, gate_call):
        depth[0] += 1
        try:
            return orig(self, qc_temp, gate_call)
        finally:
            depth[0] -= 1
            if depth[0] == 0:
                # the name under which `_gate_add` stores the unitary of this temporary circuit
                name, args = gate_call[0], gate_call[1]
                key = "{}({})".format(name, ",".join(args)) if args else name
                rec[key] = list(qc_temp.gates)

    qasm.QasmProcessor._custom_gate = wrapped
    cwd = os.getcwd()
    try:
        with warnings.catch_warnings():
            warnings.simplefilter("ignore")
            with tempfile.TemporaryDirectory() as d:
                os.chdir(d)                     # no qelib1.inc is found: the predefined gates are used
                if via_file:
                    p = os.path.join(d, "prog.qasm")
                    with open(p, "w") as f:
                        f.write(text)
                    qc = qasm.read_qasm(p)
                else:
                    qc = qasm.read_qasm(text, strmode=True)
        return "ok", qc, rec
    except Exception as e:
        return EXC.get(type(e), "other:" + type(e).__name__), None, None
    finally:
        os.chdir(cwd)
        qasm.QasmProcessor._custom_gate = orig


def canon_gate(g):
    return {"name": g.name, "targets": list(g.targets) if g.targets is not None else None,
            "controls": list(g.controls) if g.controls is not None else None, "arg": g.arg_value,
            "cc": list(g.classical_controls) if g.classical_controls is not None else None,
            "cv": g.classical_control_value}


def impl_ops(qc, inners):
    from qutip_qip.operations import Measurement
    ops = []
    for g in qc.gates:
        if isinstance(g, Measurement):
            ops.append(("meas", g.targets[0], g.classical_store))
        elif g.name in qc.user_gates and g.name not in QISKIT_USER:
            ops.append(("custom", {"name": g.name, "targets": list(g.targets),
                                   "cc": list(g.classical_controls) if g.classical_controls is not None else None,
                                   "cv": g.classical_control_value,
                                   "inner": [canon_gate(x) for x in inners.get(g.name, [])]}))
        else:
            ops.append(("gate", canon_gate(g)))
    return ops


def close(a, b):
    return abs(a - b) <= 1e-12 * max(1.0, abs(a), abs(b))


def arg_agree(m, v):
    """model argument (symbolic text) against the implementation's arg_value"""
    if m is None:
        return v is None
    if m[0] == "one":
        return isinstance(v, (int, float)) and not isinstance(v, bool) and close(ev_text(m[1]), v)
    return isinstance(v, list) and len(v) == len(m[1]) and all(close(ev_text(a), b) for a, b in zip(m[1], v))


def gate_agree(m, i):
    return (m["name"] == i["name"] and m["targets"] == i["targets"] and m["controls"] == i["controls"]
            and m["cc"] == i["cc"] and m["cv"] == i["cv"] and arg_agree(m["arg"], i["arg"]))


def ops_agree(mops, iops):
    if len(mops) != len(iops):
        return "number of operations %d vs %d" % (len(mops), len(iops))
    for k, (m, i) in enumerate(zip(mops, iops)):
        if m[0] != i[0]:
            return "operation %d: kind %s vs %s" % (k, m[0], i[0])
        if m[0] == "meas":
            if m[1:] != i[1:]:
                return "operation %d: measurement %s vs %s" % (k, m[1:], i[1:])
        elif m[0] == "gate":
            if not gate_agree(m[1], i[1]):
                return "operation %d: gate %s vs %s" % (k, m[1], i[1])
        else:
            a, b = m[1], i[1]
            if (a["name"], a["targets"], a["cc"], a["cv"]) != (b["name"], b["targets"], b["cc"], b["cv"]):
                return "operation %d: user gate %s vs %s" % (k, {x: a[x] for x in a if x != "inner"},
                                                            {x: b[x] for x in b if x != "inner"})
            if len(a["inner"]) != len(b["inner"]) or not all(gate_agree(x, y) for x, y in zip(a["inner"], b["inner"])):
                return "operation %d: expansion of user gate %s differs: %s vs %s" % (k, a["name"], a["inner"], b["inner"])
    return None


# ---- generator ----------------------------------------------------------------------------------------
class Gen:
    def __init__(self, rng, allow_multibit_if=True, allow_if_measure=False):
        self.rng = rng
        self.allow_multibit_if = allow_multibit_if

    def expr(self, depth, formals=()):
        rng = self.rng
        if depth <= 0 or rng.random() < 0.3:
            r = rng.random()
            if formals and r < 0.45:
                return ["id", rng.choice(formals)]
            if r < 0.7:
                return ["pi"]
            return ["lit", rng.choice(LITS)]
        k = rng.choice(["+", "-", "*", "/", "neg", "+", "*"])
        if k == "neg":
            return ["neg", self.expr(depth - 1, formals)]
        a = self.expr(depth - 1, formals)
        if k == "/":
            b = rng.choice([["lit", rng.choice(NZ_LITS)], ["pi"], ["lit", rng.choice(NZ_LITS)]])
        else:
            b = self.expr(depth - 1, formals)
        return [k, a, b]

    def registers(self):
        rng = self.rng
        total = rng.randint(1, 5)
        nreg = rng.randint(1, min(3, total))
        cuts = sorted(rng.sample(range(1, total), nreg - 1)) if nreg > 1 else []
        sizes = [b - a for a, b in zip([0] + cuts, cuts + [total])]
        names = rng.sample(["q", "r", "anc", "w", "data"], nreg)
        qregs = list(zip(names, sizes))
        ncreg = rng.randint(0, 3)
        cnames = rng.sample(["c", "m", "out", "c0", "c1"], ncreg)
        cregs = [(n, rng.choice([1, 1, 2, 3]) if self.allow_multibit_if else rng.choice([1, 1, 2])) for n in cnames]
        return qregs, cregs

    def pick_args(self, qregs, n, allow_whole=True):
        """n quantum arguments denoting pairwise distinct qubits in every broadcast instance"""
        rng = self.rng
        allq = [(r, i) for r, k in qregs for i in range(k)]
        if len(allq) < n:
            return None
        if allow_whole and rng.random() < 0.3:
            # some whole registers of one common size + indexed qubits from the other registers
            size = rng.choice([k for _, k in qregs])
            same = [r for r, k in qregs if k == size]
            nw = rng.randint(1, min(n, len(same)))
            wh = rng.sample(same, nw)
            rest = [(r, i) for (r, i) in allq if r not in wh]
            if len(rest) < n - nw:
                return None
            args = [[r, None] for r in wh] + [[r, i] for r, i in rng.sample(rest, n - nw)]
            rng.shuffle(args)
            return args
        return [[r, i] for r, i in rng.sample(allq, n)]

    def gate_defs(self, ndefs):
        rng = self.rng
        defs = []
        for d in range(ndefs):
            name = rng.choice(["g", "mygate", "foo", "blk", "u3alt", "cH"]) + str(d)
            ps = rng.sample(["a", "b", "theta", "x", "xx", "p", "lam", "e1"], rng.randint(0, 3))
            qs = rng.sample(["a0", "b0", "t", "c0", "q0"], rng.randint(1, 3))
            body = []
            for _ in range(rng.randint(1, 4)):
                r = rng.random()
                cands = {**QELIB}
                users = {x["n"]: (len(x["ps"]), len(x["qs"])) for x in defs}
                if r < 0.1:
                    body.append({"o": "U", "e": [self.expr(2, ps) for _ in range(3)], "q": rng.choice(qs)})
                elif r < 0.2 and len(qs) >= 2:
                    a, b = rng.sample(qs, 2)
                    body.append({"o": "CX", "a": a, "b": b})
                elif r < 0.27:
                    body.append({"o": "barrier", "qs": rng.sample(qs, rng.randint(1, len(qs)))})
                else:
                    pool = users if (users and rng.random() < 0.45) else cands
                    ok = [n for n, (np_, nq_) in pool.items() if nq_ <= len(qs)]
                    if not ok:
                        continue
                    n = rng.choice(ok)
                    np_, nq_ = pool[n]
                    body.append({"o": "call", "n": n, "ps": [self.expr(2, ps) for _ in range(np_)],
                                 "qs": rng.sample(qs, nq_)})
            if not any(g["o"] != "barrier" for g in body):
                body.append({"o": "call", "n": "x", "ps": [], "qs": [qs[0]]})
            defs.append({"t": "gate", "n": name, "ps": ps, "qs": qs, "body": body})
        return defs

    def program(self, with_defs=True, nstmts=None):
        rng = self.rng
        qregs, cregs = self.registers()
        prog = [{"t": "version"}, {"t": "incl", "f": "qelib1.inc"}]
        prog += [{"t": "qreg", "n": n, "k": k} for n, k in qregs]
        prog += [{"t": "creg", "n": n, "k": k} for n, k in cregs]
        defs = self.gate_defs(rng.randint(0, 3)) if with_defs else []
        prog += defs
        users = {x["n"]: (len(x["ps"]), len(x["qs"])) for x in defs}
        nq = sum(k for _, k in qregs)
        for _ in range(nstmts if nstmts is not None else rng.randint(1, 7)):
            r = rng.random()
            if r < 0.07:
                a = self.pick_args(qregs, rng.randint(1, min(2, nq)))
                if a:
                    prog.append({"t": "barrier", "qs": a})
                continue
            if r < 0.17 and cregs:
                cn, ck = rng.choice(cregs)
                same = [q for q, k in qregs if k == ck]
                if same and rng.random() < 0.4:
                    prog.append({"t": "qop", "op": {"o": "measure", "q": [rng.choice(same), None], "c": [cn, None]}})
                else:
                    qn, qk = rng.choice(qregs)
                    prog.append({"t": "qop", "op": {"o": "measure", "q": [qn, rng.randrange(qk)],
                                                    "c": [cn, rng.randrange(ck)]}})
                continue
            # a gate operation, possibly conditioned
            r2 = rng.random()
            if r2 < 0.08:
                a = self.pick_args(qregs, 1)
                op = {"o": "U", "e": [self.expr(2) for _ in range(3)], "q": a[0]}
            elif r2 < 0.14 and nq >= 2:
                a = self.pick_args(qregs, 2)
                if not a:
                    continue
                op = {"o": "CX", "a": a[0], "b": a[1]}
            else:
                pool = users if (users and rng.random() < 0.4) else QELIB
                ok = [n for n, (np_, nq_) in pool.items() if nq_ <= nq]
                if not ok:
                    continue
                n = rng.choice(ok)
                np_, nq_ = pool[n]
                a = self.pick_args(qregs, nq_)
                if not a:
                    continue
                op = {"o": "call", "n": n, "ps": [self.expr(rng.randint(0, 3)) for _ in range(np_)], "qs": a}
            if cregs and rng.random() < 0.25:
                cn, ck = rng.choice(cregs)
                prog.append({"t": "if", "c": cn, "k": rng.randrange(2 ** ck), "op": op})
            else:
                prog.append({"t": "qop", "op": op})
        return prog


def operand_universe(a, b):
    """operands over `qreg q[a]; qreg r[b];`: first/last element and the whole register of each"""
    ops = [["q", 0]] + ([["q", a - 1]] if a > 1 else []) + [["q", None]]
    ops += [["r", 0]] + ([["r", b - 1]] if b > 1 else []) + [["r", None]]
    return ops


def shape_programs(sizes, with_three=True, conditioned=False):
    """EVERY combination of operand shapes {q[i], q, r[j], r} for two- and three-operand gates (built-in, qelib1,
    user-defined) on registers of the given sizes: indexed + whole register that contains it (malformed: a repeated
    qubit after broadcast), indexed + another register, register + register of equal / different size, ..."""
    g2 = {"t": "gate", "n": "gtwo", "ps": [], "qs": ["a", "b"], "body": [{"o": "call", "n": "cx", "ps": [], "qs": ["a", "b"]}]}
    g3 = {"t": "gate", "n": "gthree", "ps": ["p"], "qs": ["a", "b", "c"],
          "body": [{"o": "call", "n": "ccx", "ps": [], "qs": ["a", "b", "c"]},
                   {"o": "call", "n": "rz", "ps": [["id", "p"]], "qs": ["c"]}]}
    two = [("cx", []), ("CX", None), ("cz", []), ("cu1", [["/", ["pi"], ["lit", "2"]]]), ("gtwo", [])]
    three = [("ccx", []), ("gthree", [["pi"]])]
    for a, b in sizes:
        hdr = [{"t": "version"}, {"t": "incl", "f": "qelib1.inc"}, {"t": "qreg", "n": "q", "k": a},
               {"t": "qreg", "n": "r", "k": b}, {"t": "creg", "n": "c", "k": 1}, g2, g3]
        U = operand_universe(a, b)
        for k, gates in ((2, two), (3, three if with_three else [])):
            for name, ps in gates:
                for args in itertools.product(U, repeat=k):
                    args = [list(x) for x in args]
                    if ps is None:
                        op = {"o": "CX", "a": args[0], "b": args[1]}
                    else:
                        op = {"o": "call", "n": name, "ps": ps, "qs": args}
                    st = {"t": "if", "c": "c", "k": 1, "op": op} if conditioned else {"t": "qop", "op": op}
                    yield hdr + [st]


def measure_shape_programs():
    """every operand shape of `measure` (element / last element / out of range / whole register, on both sides)
    for registers of 1-3 (qu)bits"""
    for a in (1, 2, 3):
        for b in (1, 2, 3):
            hdr = [{"t": "version"}, {"t": "incl", "f": "qelib1.inc"}, {"t": "qreg", "n": "q", "k": a},
                   {"t": "creg", "n": "c", "k": b}]
            qs = [["q", 0], ["q", a - 1], ["q", a], ["q", None], ["nosuch", None], ["c", 0]]
            cs = [["c", 0], ["c", b - 1], ["c", b], ["c", None], ["nosuch", 0], ["q", None]]
            for x in qs:
                for y in cs:
                    yield hdr + [{"t": "qop", "op": {"o": "measure", "q": list(x), "c": list(y)}}]


def barrier_shape_programs():
    """barrier operands: any mix of elements and registers (repeats and different sizes are fine for the standard)"""
    for a, b in ((1, 2), (2, 2), (3, 1)):
        hdr = [{"t": "version"}, {"t": "incl", "f": "qelib1.inc"}, {"t": "qreg", "n": "q", "k": a},
               {"t": "qreg", "n": "r", "k": b}]
        U = operand_universe(a, b)
        for k in (1, 2, 3):
            for args in itertools.product(U, repeat=k):
                yield hdr + [{"t": "barrier", "qs": [list(x) for x in args]}, {"t": "qop", "op": {"o": "call", "n": "x", "ps": [], "qs": [["q", 0]]}}]


def empty_register_programs():
    """operands over `qreg q[a]; qreg z[0]; qreg r[b];`: every tuple over {q[0], q, z, r[0], r} for one-, two- and
    three-operand gates (built-in, qelib1, user-defined), plain and behind `if`; measure / barrier with the empty register.
    For the standard an operation on empty registers has no instance — but its arity, the equal-size rule and the
    declarations are still checked."""
    g1 = {"t": "gate", "n": "gone", "ps": [], "qs": ["a"], "body": [{"o": "call", "n": "h", "ps": [], "qs": ["a"]}]}
    g2 = {"t": "gate", "n": "gtwo", "ps": ["p"], "qs": ["a", "b"],
          "body": [{"o": "call", "n": "cx", "ps": [], "qs": ["a", "b"]}, {"o": "call", "n": "rz", "ps": [["id", "p"]], "qs": ["b"]}]}
    for a, b in ((1, 1), (2, 1), (2, 2)):
        hdr = [{"t": "version"}, {"t": "incl", "f": "qelib1.inc"}, {"t": "qreg", "n": "q", "k": a}, {"t": "qreg", "n": "z", "k": 0},
               {"t": "qreg", "n": "r", "k": b}, {"t": "creg", "n": "c", "k": 1}, {"t": "creg", "n": "e", "k": 0}, g1, g2]
        U = [["q", 0], ["q", None], ["z", None], ["z", 0], ["r", 0], ["r", None]]
        tail = [{"t": "qop", "op": {"o": "call", "n": "x", "ps": [], "qs": [["q", 0]]}}]
        gates = [(1, "h", []), (1, "U", None), (1, "gone", []), (1, "rx", [["pi"]]), (2, "cx", []), (2, "CX", None),
                 (2, "gtwo", [["lit", "0.5"]]), (2, "cu1", [["pi"]]), (1, "cx", []), (2, "h", []), (1, "gtwo", [["pi"]]),
                 (2, "gone", []), (1, "rx", [])]
        if (a, b) == (2, 1):
            gates.append((3, "ccx", []))
        for k, name, ps in gates:
            for args in itertools.product(U, repeat=k):
                if not any(x[0] == "z" for x in args):
                    continue
                args = [list(x) for x in args]
                if name == "U":
                    op = {"o": "U", "e": [["pi"], ["lit", "0"], ["pi"]], "q": args[0]}
                elif name == "CX":
                    op = {"o": "CX", "a": args[0], "b": args[1]}
                else:
                    op = {"o": "call", "n": name, "ps": ps, "qs": args}
                yield hdr + [{"t": "qop", "op": op}] + tail
                if k <= 2:
                    yield hdr + [{"t": "if", "c": "c", "k": 1, "op": op}] + tail
        for qa, ca in ((["z", None], ["e", None]), (["z", None], ["c", None]), (["q", None], ["e", None]), (["z", 0], ["c", 0]),
                       (["q", 0], ["e", 0])):
            yield hdr + [{"t": "qop", "op": {"o": "measure", "q": qa, "c": ca}}] + tail
        for args in itertools.product(U, repeat=2):
            yield hdr + [{"t": "barrier", "qs": [list(x) for x in args]}] + tail
        for kk in (0, 1, 2):
            yield hdr + [{"t": "if", "c": "e", "k": kk, "op": {"o": "call", "n": "x", "ps": [], "qs": [["q", 0]]}}] + tail


def if_value_programs():
    """`if(c==k)` for registers of 0-3 bits and EVERY k in 0 .. 2^n+2, on a qelib1 gate, a broadcast, a user gate, and
    on operations that must be refused whatever the value is (undeclared gate / register, index out of range, arity)"""
    g1 = {"t": "gate", "n": "gone", "ps": ["p"], "qs": ["a"], "body": [{"o": "call", "n": "rx", "ps": [["id", "p"]], "qs": ["a"]}]}
    ops = [{"o": "call", "n": "x", "ps": [], "qs": [["q", 0]]},
           {"o": "call", "n": "cx", "ps": [], "qs": [["q", None], ["r", None]]},
           {"o": "call", "n": "gone", "ps": [["pi"]], "qs": [["q", 1]]},
           {"o": "U", "e": [["pi"], ["lit", "0"], ["pi"]], "q": ["r", None]},
           {"o": "CX", "a": ["q", 0], "b": ["r", 1]},
           {"o": "call", "n": "nosuchgate", "ps": [], "qs": [["q", 0]]},
           {"o": "call", "n": "x", "ps": [], "qs": [["nosuchreg", 0]]},
           {"o": "call", "n": "x", "ps": [], "qs": [["q", 2]]},
           {"o": "call", "n": "cx", "ps": [], "qs": [["q", 0], ["q", 0]]},
           {"o": "call", "n": "rx", "ps": [], "qs": [["q", 0]]},
           {"o": "call", "n": "gone", "ps": [], "qs": [["q", 0]]},
           {"o": "call", "n": "rx", "ps": [["^", ["lit", "2"], ["lit", "2"]]], "qs": [["q", 0]]}]
    for n in (0, 1, 2, 3):
        hdr = [{"t": "version"}, {"t": "incl", "f": "qelib1.inc"}, {"t": "qreg", "n": "q", "k": 2}, {"t": "qreg", "n": "r", "k": 2},
               {"t": "creg", "n": "d", "k": 1}, {"t": "creg", "n": "c", "k": n}, g1]
        for k in range(0, 2 ** n + 3):
            for op in ops:
                yield hdr + [{"t": "if", "c": "c", "k": k, "op": op}, {"t": "qop", "op": {"o": "call", "n": "gone", "ps": [["pi"]], "qs": [["q", 0]]}}]


def empty_body_programs():
    """gate definitions without any gate statement in the body (empty, or barriers only): the identity for the
    standard.  Alone, with parameters, broadcast, conditioned, nested inside another definition, never called."""
    bodies = [[], [{"o": "barrier", "qs": ["a"]}], [{"o": "barrier", "qs": ["a"]}, {"o": "barrier", "qs": ["a"]}]]
    x0 = {"t": "qop", "op": {"o": "call", "n": "x", "ps": [], "qs": [["q", 0]]}}
    for body in bodies:
        for ps in ([], ["p"], ["p", "lam"]):
            hdr = [{"t": "version"}, {"t": "incl", "f": "qelib1.inc"}, {"t": "qreg", "n": "q", "k": 2}, {"t": "creg", "n": "c", "k": 1},
                   {"t": "gate", "n": "idle", "ps": ps, "qs": ["a"], "body": body}]
            actual = [["/", ["pi"], ["lit", "2"]], ["lit", "0.5"]][:len(ps)]
            call = {"o": "call", "n": "idle", "ps": actual, "qs": [["q", 0]]}
            yield hdr + [x0]                                              # never called
            yield hdr + [{"t": "qop", "op": call}, x0]
            yield hdr + [x0, {"t": "qop", "op": dict(call, qs=[["q", None]])}]
            yield hdr + [{"t": "if", "c": "c", "k": 1, "op": call}, x0]
            outer = {"t": "gate", "n": "outer", "ps": ps, "qs": ["u", "v"],
                     "body": [{"o": "call", "n": "idle", "ps": [["id", p] for p in ps], "qs": ["v"]},
                              {"o": "call", "n": "cx", "ps": [], "qs": ["u", "v"]}]}
            yield hdr + [outer, {"t": "qop", "op": {"o": "call", "n": "outer", "ps": actual, "qs": [["q", 1], ["q", 0]]}}]
            only = {"t": "gate", "n": "outer", "ps": [], "qs": ["u"], "body": [{"o": "call", "n": "idle", "ps": actual, "qs": ["u"]}]}
            yield hdr + [only, {"t": "qop", "op": {"o": "call", "n": "outer", "ps": [], "qs": [["q", None]]}}, x0]
            # wrong arity of a call of the empty gate is still refused
            yield hdr + [{"t": "qop", "op": dict(call, qs=[["q", 0], ["q", 1]])}]


def body_statement_programs():
    """statements of a gate body, well-formed and malformed in every way the standard names (operand that is not a
    formal qubit — also when it is only passed on to another user gate that ignores it —, repeated qubit, wrong number
    of parameters / qubits of a built-in, qelib1 or user gate, foreign identifier, function, power), each in a
    definition that is CALLED and in one that is NEVER called"""
    inner = {"t": "gate", "n": "inner", "ps": [], "qs": ["u", "v"], "body": [{"o": "call", "n": "x", "ps": [], "qs": ["u"]}]}
    P, L = ["id", "p"], ["id", "lam"]
    stmts = [
        {"o": "call", "n": "x", "ps": [], "qs": ["nosuch"]},
        {"o": "call", "n": "cx", "ps": [], "qs": ["a", "nosuch"]},
        {"o": "U", "e": [P, ["lit", "0"], ["pi"]], "q": "nosuch"},
        {"o": "CX", "a": "a", "b": "nosuch"},
        {"o": "call", "n": "inner", "ps": [], "qs": ["a", "nosuch"]},
        {"o": "call", "n": "cx", "ps": [], "qs": ["a", "a"]},
        {"o": "CX", "a": "b", "b": "b"},
        {"o": "call", "n": "inner", "ps": [], "qs": ["a", "a"]},
        {"o": "call", "n": "rx", "ps": [], "qs": ["a"]},
        {"o": "call", "n": "x", "ps": [P], "qs": ["a"]},
        {"o": "call", "n": "U", "ps": [P, ["lit", "0"]], "qs": ["a"]},
        {"o": "call", "n": "inner", "ps": [P], "qs": ["a", "b"]},
        {"o": "call", "n": "inner", "ps": [], "qs": ["a"]},
        {"o": "call", "n": "rx", "ps": [["*", P, ["id", "z"]]], "qs": ["a"]},
        {"o": "call", "n": "rx", "ps": [["fn", "sin", P]], "qs": ["a"]},
        {"o": "call", "n": "rx", "ps": [["^", ["lit", "2"], P]], "qs": ["a"]},
        {"o": "call", "n": "rx", "ps": [["*", ["^", P, ["lit", "2"]], ["id", "z"]]], "qs": ["a"]},
        {"o": "call", "n": "u2", "ps": [P, ["id", "z"]], "qs": ["a"]},
        {"o": "U", "e": [["id", "z"], ["lit", "0"], ["pi"]], "q": "a"},
        {"o": "call", "n": "cx", "ps": [], "qs": ["a", "b", "a"]},
        # well-formed
        {"o": "call", "n": "rx", "ps": [["*", ["lit", "0.001"], P]], "qs": ["a"]},
        {"o": "call", "n": "rx", "ps": [["/", ["neg", ["+", P, L]], ["lit", "2"]]], "qs": ["b"]},
        {"o": "call", "n": "inner", "ps": [], "qs": ["b", "a"]},
        {"o": "barrier", "qs": ["a", "b"]},
    ]
    hdr = [{"t": "version"}, {"t": "incl", "f": "qelib1.inc"}, {"t": "qreg", "n": "q", "k": 3}, inner]
    x0 = {"t": "qop", "op": {"o": "call", "n": "x", "ps": [], "qs": [["q", 0]]}}
    for st in stmts:
        for pos in (0, 1):
            body = [{"o": "call", "n": "h", "ps": [], "qs": ["b"]}]
            body.insert(pos, st)
            g = {"t": "gate", "n": "g", "ps": ["p", "lam"], "qs": ["a", "b"], "body": body}
            yield hdr + [g, x0]                                         # never called
            yield hdr + [g, {"t": "qop", "op": {"o": "call", "n": "g", "ps": [["pi"], ["lit", "0.5"]], "qs": [["q", 2], ["q", 0]]}}]
            outer = {"t": "gate", "n": "outer", "ps": [], "qs": ["c"], "body": [{"o": "call", "n": "x", "ps": [], "qs": ["c"]}]}
            yield hdr + [g, outer, {"t": "qop", "op": {"o": "call", "n": "outer", "ps": [], "qs": [["q", None]]}}]


NEAR_PARAMS = [
    [["/", ["pi"], ["lit", "2"]], ["lit", "1.5707963"], ["lit", "1.57079632679"], ["lit", "1.5707963267948966"]],
    [["lit", "0.7853981"], ["lit", "0.7853984"], ["/", ["pi"], ["lit", "4"]]],
    [["lit", "1000000.25"], ["lit", "1000003.0"], ["+", ["lit", "1000000"], ["lit", "0.5"]], ["+", ["lit", "1000000"], ["lit", "1.0"]]],
    [["lit", "1.0000001"], ["lit", "1.0000004"], ["lit", "1"], ["lit", "1.0"]],
    [["neg", ["lit", "2.5000002"]], ["neg", ["lit", "2.5000009"]], ["-", ["lit", "0"], ["lit", "2.5000002"]]],
]


def near_equal_call_programs():
    """user-defined parametrised gates called SEVERAL times in one program with parameter expressions that are nearly
    equal (pi/2, 1.5707963, 1.57079632679, …), equal but written differently, or large (1000000.25 / 1000003.0): the
    reader caches the unitary of a user gate under the text of the call — every call must still get its own angle"""
    g1 = {"t": "gate", "n": "rot", "ps": ["p"], "qs": ["a"], "body": [{"o": "call", "n": "rx", "ps": [["id", "p"]], "qs": ["a"]}]}
    g2 = {"t": "gate", "n": "crot", "ps": ["t", "s"], "qs": ["a", "b"],
          "body": [{"o": "call", "n": "cu3", "ps": [["id", "t"], ["neg", ["/", ["pi"], ["lit", "2"]]], ["/", ["pi"], ["lit", "2"]]], "qs": ["a", "b"]},
                   {"o": "call", "n": "rz", "ps": [["*", ["id", "s"], ["id", "t"]]], "qs": ["b"]}]}
    g3 = {"t": "gate", "n": "outer", "ps": ["x"], "qs": ["a"], "body": [{"o": "call", "n": "rot", "ps": [["/", ["id", "x"], ["lit", "2"]]], "qs": ["a"]},
                                                                       {"o": "call", "n": "rot", "ps": [["id", "x"]], "qs": ["a"]}]}
    hdr = [{"t": "version"}, {"t": "incl", "f": "qelib1.inc"}, {"t": "qreg", "n": "q", "k": 2}, g1, g2, g3]
    for fam in NEAR_PARAMS:
        for order in (fam, fam[::-1]):
            yield hdr + [{"t": "qop", "op": {"o": "call", "n": "rot", "ps": [e], "qs": [["q", i % 2]]}} for i, e in enumerate(order)]
            yield hdr + [{"t": "qop", "op": {"o": "call", "n": "outer", "ps": [e], "qs": [["q", 0]]}} for e in order]
            yield hdr + [{"t": "qop", "op": {"o": "call", "n": "crot", "ps": [e, order[0]], "qs": [["q", 0], ["q", 1]]}} for e in order]
            yield hdr + [{"t": "qop", "op": {"o": "call", "n": "crot", "ps": [order[-1], e], "qs": [["q", i % 2], ["q", 1 - i % 2]]}}
                         for i, e in enumerate(order)]
        # one call on a whole register and the same call again
        yield hdr + [{"t": "qop", "op": {"o": "call", "n": "rot", "ps": [fam[0]], "qs": [["q", None]]}},
                     {"t": "qop", "op": {"o": "call", "n": "rot", "ps": [fam[1]], "qs": [["q", None]]}},
                     {"t": "qop", "op": {"o": "call", "n": "rot", "ps": [fam[0]], "qs": [["q", 1]]}}]


def redeclaration_programs():
    """a register or a user gate declared twice (malformed for the standard), and the harmless neighbours (a gate named
    like a register, the same body under two names)"""
    x0 = {"t": "qop", "op": {"o": "call", "n": "x", "ps": [], "qs": [["q", 0]]}}
    hdr = [{"t": "version"}, {"t": "incl", "f": "qelib1.inc"}, {"t": "qreg", "n": "q", "k": 2}, {"t": "creg", "n": "c", "k": 1}]
    gx = {"t": "gate", "n": "g", "ps": [], "qs": ["a"], "body": [{"o": "call", "n": "x", "ps": [], "qs": ["a"]}]}
    gz = {"t": "gate", "n": "g", "ps": [], "qs": ["a"], "body": [{"o": "call", "n": "z", "ps": [], "qs": ["a"]}]}
    gp = {"t": "gate", "n": "g", "ps": ["p"], "qs": ["a"], "body": [{"o": "call", "n": "rx", "ps": [["id", "p"]], "qs": ["a"]}]}
    call = {"t": "qop", "op": {"o": "call", "n": "g", "ps": [], "qs": [["q", 0]]}}
    callp = {"t": "qop", "op": {"o": "call", "n": "g", "ps": [["pi"]], "qs": [["q", 0]]}}
    yield hdr + [gx, call, gz, call]
    yield hdr + [gx, gz, call]
    yield hdr + [gx, gx, call]
    yield hdr + [gx, call, gp, callp]
    yield hdr + [gp, callp, gx, call]
    yield hdr + [gx, x0, gz]
    for kind in ("qreg", "creg"):
        for name in ("q", "c"):
            for k in (1, 2):
                yield hdr + [{"t": kind, "n": name, "k": k}, x0]
                yield hdr + [x0, {"t": kind, "n": name, "k": k}]
    # not redeclarations
    yield hdr + [dict(gx, n="q"), {"t": "qop", "op": {"o": "call", "n": "q", "ps": [], "qs": [["q", 1]]}}]
    yield hdr + [gx, dict(gz, n="h2"), call, {"t": "qop", "op": {"o": "call", "n": "h2", "ps": [], "qs": [["q", 1]]}}]


def tree_variant():
    """which repairs of the importer the checkout under verification has (read from its source with `ast`)"""
    keys = ("if_skip", "if_rev", "barrier_checked", "empty_reg_ok", "body_dup", "empty_body_ok", "body_checked",
            "redecl_checked")
    try:
        i = qasm_tables.import_tables()
    except Exception:
        # source not recognised (the check is broken anyway): the oracle then evaluates the property strictly,
        # tolerating none of the recorded finding classes
        return {k: True for k in keys}
    return {k: i[k] for k in keys}


MUTATIONS = ["undeclared_reg", "undeclared_gate", "index_range", "repeated_qubit", "arity_param", "arity_qubit",
             "reset", "opaque", "power", "function", "broadcast_mismatch", "free_id", "if_undeclared_creg",
             "measure_range", "measure_sizes", "body_undeclared_gate", "no_header", "body_arity", "zero_div",
             "if_value_range", "index_in_broadcast", "barrier_undeclared", "body_repeated_qubit",
             "body_undeclared_qubit", "body_free_id", "body_barrier_undeclared", "empty_register", "creg_as_qubit",
             "if_on_qreg"]
# malformed / degenerate shapes whose treatment by the importer is a recorded finding: compared between model and
# implementation (correspondence) but not generated by the oracle sweeps
FINDING_MUTATIONS = ("if_value_range", "barrier_undeclared", "body_repeated_qubit", "body_barrier_undeclared",
                     "empty_register")


def finding_mutations(variant):
    """the finding classes the checkout still has (a repaired class goes back into the oracle sweeps)"""
    out = []
    if not variant["if_skip"]:
        out.append("if_value_range")
    if not variant["barrier_checked"]:
        out += ["barrier_undeclared", "body_barrier_undeclared"]
    if not variant["body_dup"]:
        out.append("body_repeated_qubit")
    if not variant["empty_reg_ok"]:
        out.append("empty_register")
    return tuple(out)


def mutate(rng, prog, kind):
    """one systematically malformed variant (None if the program offers no place for it)"""
    prog = json.loads(json.dumps(prog))
    qregs = [(s["n"], s["k"]) for s in prog if s["t"] == "qreg"]
    cregs = [(s["n"], s["k"]) for s in prog if s["t"] == "creg"]
    idx_ops = [i for i, s in enumerate(prog) if s["t"] in ("qop", "if") and s["op"]["o"] in ("call", "U", "CX")]
    calls = [i for i in idx_ops if prog[i]["op"]["o"] == "call"]

    def args_of(op):
        return op["qs"] if op["o"] == "call" else [op["q"]] if op["o"] == "U" else [op["a"], op["b"]]

    def set_arg(op, j, a):
        if op["o"] == "call":
            op["qs"][j] = a
        elif op["o"] == "U":
            op["q"] = a
        elif j == 0:
            op["a"] = a
        else:
            op["b"] = a

    if kind == "no_header":
        return prog[1:]
    if kind == "reset":
        q = rng.choice(qregs)
        prog.insert(rng.randint(len(prog) - len(idx_ops), len(prog)), {"t": "qop", "op": {"o": "reset", "q": [q[0], 0]}})
        return prog
    if kind == "opaque":
        prog.append({"t": "opaque", "n": "magic", "ps": [], "qs": ["a"]})
        return prog
    if kind == "measure_range":
        if not cregs:
            return None
        q, c = rng.choice(qregs), rng.choice(cregs)
        bad_q = rng.random() < 0.5
        prog.append({"t": "qop", "op": {"o": "measure", "q": [q[0], q[1] + (1 if bad_q else -1) if bad_q else 0],
                                        "c": [c[0], 0 if bad_q else c[1]]}})
        return prog
    if kind == "measure_sizes":
        pairs = [(q, c) for q in qregs for c in cregs if q[1] != c[1]]
        if not pairs:
            return None
        q, c = rng.choice(pairs)
        prog.append({"t": "qop", "op": {"o": "measure", "q": [q[0], None], "c": [c[0], None]}})
        return prog
    if kind in ("body_repeated_qubit", "body_undeclared_qubit", "body_free_id", "body_barrier_undeclared"):
        gd = [s for s in prog if s["t"] == "gate"]
        if not gd:
            return None
        g = rng.choice(gd)
        if kind == "body_barrier_undeclared":
            g["body"].insert(rng.randint(0, len(g["body"])), {"o": "barrier", "qs": ["nosuchq"]})
        elif kind == "body_free_id":
            cs = [b for b in g["body"] if b["o"] == "U" or (b["o"] == "call" and b["ps"])]
            if not cs:
                return None
            b = rng.choice(cs)
            lst = b["e"] if b["o"] == "U" else b["ps"]
            j = rng.randrange(len(lst))
            lst[j] = ["*", lst[j], ["id", "nosuchparam"]]
        else:
            multi = [b for b in g["body"] if (b["o"] == "CX") or (b["o"] == "call" and len(b["qs"]) >= (2 if kind == "body_repeated_qubit" else 1))]
            if not multi:
                if kind == "body_repeated_qubit":
                    g["body"].append({"o": "call", "n": "cx", "ps": [], "qs": [g["qs"][0], g["qs"][0]]})
                else:
                    return None
            else:
                b = rng.choice(multi)
                if b["o"] == "CX":
                    b["b"] = b["a"] if kind == "body_repeated_qubit" else "nosuchq"
                elif kind == "body_repeated_qubit":
                    b["qs"][1] = b["qs"][0]
                else:
                    b["qs"][rng.randrange(len(b["qs"]))] = "nosuchq"
        # make sure the gate is called (bodies are only expanded on a call)
        if sum(k for _, k in qregs[:1]) < len(g["qs"]):
            return None
        prog.append({"t": "qop", "op": {"o": "call", "n": g["n"], "ps": [["lit", "1"]] * len(g["ps"]),
                                        "qs": [[qregs[0][0], i] for i in range(len(g["qs"]))]}})
        return prog
    if kind == "empty_register":
        pos = max(i for i, s in enumerate(prog) if s["t"] in ("qreg", "creg", "incl", "version")) + 1
        prog.insert(pos, {"t": "qreg", "n": "zz", "k": 0})
        prog.append({"t": "qop", "op": {"o": "call", "n": "h", "ps": [], "qs": [["zz", None]]}})
        return prog
    if kind == "if_on_qreg":
        if not idx_ops:
            return None
        i = rng.choice(idx_ops)
        prog[i] = {"t": "if", "c": qregs[0][0], "k": 0, "op": prog[i]["op"]}
        return prog
    if kind == "creg_as_qubit":
        if not idx_ops or not cregs:
            return None
        op = prog[rng.choice(idx_ops)]["op"]
        j = rng.randrange(len(args_of(op)))
        c = rng.choice(cregs)
        set_arg(op, j, [c[0], rng.choice([None, 0])])
        return prog
    if kind == "body_undeclared_gate" or kind == "body_arity":
        gd = [s for s in prog if s["t"] == "gate"]
        if not gd:
            return None
        g = rng.choice(gd)
        if kind == "body_undeclared_gate":
            g["body"].insert(rng.randint(0, len(g["body"])), {"o": "call", "n": "nosuchgate", "ps": [], "qs": [g["qs"][0]]})
            return prog
        cs = [b for b in g["body"] if b["o"] == "call"]
        if not cs:
            return None
        b = rng.choice(cs)
        b["ps"] = b["ps"] + [["lit", "1"]]
        # the body is only expanded when the gate is called
        prog.append({"t": "qop", "op": {"o": "call", "n": g["n"], "ps": [["lit", "1"]] * len(g["ps"]),
                                        "qs": [[qregs[0][0], i] for i in range(len(g["qs"]))]}})
        if sum(k for _, k in qregs[:1]) < len(g["qs"]):
            return None
        return prog
    if not idx_ops:
        return None
    i = rng.choice(idx_ops)
    op = prog[i]["op"]
    if kind == "undeclared_reg":
        j = rng.randrange(len(args_of(op)))
        a = args_of(op)[j]
        set_arg(op, j, ["nosuchreg", a[1]])
    elif kind == "undeclared_gate":
        if not calls:
            return None
        prog[rng.choice(calls)]["op"]["n"] = "nosuchgate"
    elif kind == "index_range":
        j = rng.randrange(len(args_of(op)))
        a = args_of(op)[j]
        size = dict(qregs)[a[0]]
        set_arg(op, j, [a[0], size + rng.randint(0, 2)])
    elif kind == "repeated_qubit":
        if len(args_of(op)) < 2:
            return None
        set_arg(op, 1, list(args_of(op)[0]))
    elif kind == "arity_param":
        if op["o"] == "CX":
            return None
        if op["o"] == "U":       # `U(a,b) q;` — rendered the same, carried as a call of the built-in
            prog[i]["op"] = {"o": "call", "n": "U", "ps": op["e"][:2], "qs": [op["q"]]}
        elif op["ps"] and rng.random() < 0.5:
            op["ps"] = op["ps"][:-1]
        else:
            op["ps"] = op["ps"] + [["pi"]]
    elif kind == "arity_qubit":
        if op["o"] != "call":
            return None
        if len(op["qs"]) > 1 and rng.random() < 0.5:
            op["qs"] = op["qs"][:-1]
        else:
            used = {tuple(a) for a in op["qs"]}
            free = [[r, k] for r, n in qregs for k in range(n) if (r, k) not in used and (r, None) not in used]
            if not free:
                return None
            op["qs"] = op["qs"] + [rng.choice(free)]
    elif kind in ("power", "function", "free_id", "zero_div"):
        withp = [k for k in idx_ops if (prog[k]["op"]["o"] == "U" or prog[k]["op"].get("ps"))]
        if not withp:
            return None
        op = prog[rng.choice(withp)]["op"]
        lst = op["e"] if op["o"] == "U" else op["ps"]
        j = rng.randrange(len(lst))
        if kind == "power":
            lst[j] = ["^", lst[j], ["lit", "2"]]
        elif kind == "function":
            lst[j] = ["fn", rng.choice(["sin", "cos", "sqrt", "exp", "ln", "tan"]), lst[j]]
        elif kind == "free_id":
            lst[j] = ["+", lst[j], ["id", "theta"]]
        else:
            lst[j] = ["/", lst[j], ["lit", "0"]]
    elif kind == "broadcast_mismatch":
        sizes = sorted({k for _, k in qregs})
        if len(sizes) < 2 or len(args_of(op)) < 2:
            return None
        a, b = [r for r, k in qregs if k == sizes[0]][0], [r for r, k in qregs if k == sizes[1]][0]
        set_arg(op, 0, [a, None])
        set_arg(op, 1, [b, None])
        if len(args_of(op)) > 2:
            return None
    elif kind == "if_undeclared_creg":
        prog[i] = {"t": "if", "c": "nosuchcreg", "k": 0, "op": op}
    elif kind == "index_in_broadcast":   # `cx q[1], q;`: an element together with the whole register containing it
        if len(args_of(op)) < 2:
            return None
        j = rng.randrange(len(args_of(op)))
        rname = args_of(op)[j][0]
        others = [x for x in range(len(args_of(op))) if x != j]
        jj = rng.choice(others)
        size = dict(qregs)[rname]
        set_arg(op, j, [rname, None])
        set_arg(op, jj, [rname, rng.randrange(size)])
        # the remaining operands must not introduce another error class: make them elements of other registers
        for x in others:
            if x != jj:
                a = args_of(op)[x]
                if a[1] is None and dict(qregs)[a[0]] != size:
                    return None
    elif kind == "barrier_undeclared":
        prog.insert(i, {"t": "barrier", "qs": [["nosuchreg", None]]})
    elif kind == "if_value_range":      # a value that does not fit the register (never true for the standard)
        if not cregs:
            return None
        c = rng.choice(cregs)
        prog[i] = {"t": "if", "c": c[0], "k": 2 ** c[1] + rng.randint(0, 3), "op": op}
    else:
        raise ValueError(kind)
    return prog


# ---- the property on the real code (oracle) -----------------------------------------------------------------
MUST_REJECT = {"undeclaredReg", "undeclaredGate", "indexRange", "repeatedQubit", "arity", "unsupported", "broadcast",
               "freeId", "syntax", "lex"}


def sim_unitary(qc, gates, cbits):
    """unitary of a gate sub-list under a classical state, computed by the library's simulator"""
    from qutip_qip.circuit import QubitCircuit, CircuitSimulator
    from qutip import qeye
    sub = QubitCircuit(qc.N, num_cbits=max(qc.num_cbits, 1))
    sub.user_gates = qc.user_gates
    for g in gates:
        sub.add_gate(g)
    if not gates:
        return np.eye(2 ** qc.N, dtype=complex)
    sim = CircuitSimulator(sub)
    res = sim.run(qeye(sub.dims), cbits=list(cbits) + [0] * (max(qc.num_cbits, 1) - len(cbits)))
    return res.get_final_states(0).full()


def property_fails(prog, lenient_if=False):
    """C04 for one program -> (fails, detail).  `lenient_if`: evaluate `if(c==k)` on registers of more than one
    bit with the bit order the importer is known to use (recorded finding) so that other defects stay visible."""
    return property_fails_text("\n".join(render(prog)) + "\n", lenient_if=lenient_if)


def property_fails_text(text, lenient_if=False, refusal_ok=False):
    """C04 for one text.  `refusal_ok`: the text is not laid out one statement per line — the importer may refuse a
    well-formed program, but a circuit it returns must be faithful."""
    from qutip_qip.operations import Measurement
    try:
        std = qasm_std.Std(text)
        verdict = "ok"
    except qasm_std.QasmError as e:
        std, verdict = None, e.kind
    st, qc, _ = impl_import(text)
    st2, qc2, _ = impl_import(text, via_file=True)
    if st != st2:
        return True, "string mode and file mode disagree (%s vs %s)" % (st, st2)
    if verdict != "ok":
        must = MUST_REJECT | ({"redeclared"} if tree_variant()["redecl_checked"] else set())
        if verdict in must and st == "ok":
            return True, "malformed / unsupported program (%s) imported as a circuit" % verdict
        return False, "standard: %s; importer: %s" % (verdict, st)
    if st != "ok":
        if refusal_ok:
            return False, "other layout: refused (%s)" % st
        return True, "well-formed program refused (%s)" % st
    if qc.N != std.nq or qc.num_cbits != std.nc:
        return True, "register sizes %s vs standard %s" % ((qc.N, qc.num_cbits), (std.nq, std.nc))
    if std.nq > 6:
        return False, "too large for the dense comparison"
    want = qasm_std.segments(std.ops)
    got, cur = [], []
    for g in qc.gates:
        if isinstance(g, Measurement):
            got.append(cur)
            got.append((g.targets[0], g.classical_store))
            cur = []
        else:
            cur.append(g)
    got.append(cur)
    if len(got) != len(want):
        return True, "number of measurements %d vs standard %d" % (len(got) // 2, len(want) // 2)
    for k, (w, g) in enumerate(zip(want, got)):
        if isinstance(g, tuple):
            if w[1] is not None or (w[2], w[3]) != g:
                return True, "measurement %d: %s vs standard %s" % (k // 2, g, w[1:])
            continue
        conds = {o[1] for o in w if o[1] is not None}
        bits = sorted({b for c in conds for b in c[0]})
        states = itertools.product([0, 1], repeat=len(bits)) if bits else [()]
        for vals in states:
            cb = [0] * max(std.nc, 1)
            for b, v in zip(bits, vals):
                cb[b] = v
            seg = w
            if lenient_if:
                seg = [(o[0], (tuple(reversed(o[1][0])), o[1][1]), *o[2:]) if o[1] is not None and len(o[1][0]) > 1 else o
                       for o in w]
            S = qasm_std.segment_unitary(seg, std.nq, cb)
            try:
                U = sim_unitary(qc, g, cb)
            except Exception as e:
                return True, "imported circuit cannot be evaluated: %s %s" % (type(e).__name__, e)
            if not qasm_std.phase_equal(U, S):
                return True, ("segment %d under classical state %s: imported circuit differs from the standard's "
                              "unitary" % (k // 2, dict(zip(bits, vals))))
    return False, "faithful"


def spec_cross_check(ctx, res, progs):
    """Lean QasmSpec.denote vs the independent Python front end"""
    progs = [p for p in progs if p and p[0]["t"] == "version"]     # the header is checked by `acceptProgram`, not `denote`
    outs = ctx.driver("drv_qasm").run(["spec prog=" + encode(p) for p in progs])
    for p, o in zip(progs, outs):
        text = "\n".join(render(p)) + "\n"
        try:
            std = qasm_std.Std(text)
            pv = "ok"
        except qasm_std.QasmError as e:
            std, pv = None, e.kind
        lv = "ok" if o.startswith("ok") else o.split(" ")[1]
        if pv == "zeroDiv":
            continue        # the Lean specification keeps expressions symbolic
        res.case({"spec": text}, nontrivial=True, tags=["spec=" + lv])
        same = (lv == pv) or (lv != "ok" and pv != "ok")
        detail = None
        if same and lv == "ok":
            f = dict(x.split("=", 1) for x in o.split(" ")[1:])
            lops = [x.split(":") for x in f["ops"].split(";")] if f.get("ops") else []
            pops = [x for x in std.ops]
            if int(f["nq"]) != std.nq or int(f["nc"]) != std.nc or len(lops) != len(pops):
                same, detail = False, "sizes / number of operations"
            else:
                for a, b in zip(lops, pops):
                    cond = None
                    if a[0] != "B" and a[1] != "N":
                        cond = (tuple(int(x) for x in a[1].split("/")[0].split(".")), int(a[1].split("/")[1]))
                    if a[0] == "U":
                        ok = b[0] == "U" and b[1] == cond and int(a[5]) == b[3] and \
                            all(close(ev_text(unhx(a[2 + j])), b[2][j]) for j in range(3))
                    elif a[0] == "X":
                        ok = b[0] == "CX" and b[1] == cond and (int(a[2]), int(a[3])) == (b[2], b[3])
                    elif a[0] == "M":
                        ok = b[0] == "measure" and b[1] == cond and (int(a[2]), int(a[3])) == (b[2], b[3])
                    else:
                        ok = b[0] == "barrier" and [int(x) for x in a[1].split(".") if x] == list(b[1])
                    if not ok:
                        same, detail = False, "operation %s vs %s" % (a, b)
                        break
        if not same:
            res.disagree({"text": text}, o[:300], pv, "Lean QasmSpec.denote and the independent Python front end differ"
                         + (": " + detail if detail else ""), None)


class C04(PropertyCheck):
    id = "C04"
    lean_modules = ["QipVerif.Props.C04"]
    drivers = ["drv_qasm", "drv_qasmtok"]
    theorems = [
        "QipVerif.C04.shortcut_rows",
        "QipVerif.C04.shortcut_sound",
        "QipVerif.C04.signatures_agree",
        "QipVerif.C04.import_faithful_partial",
        "QipVerif.C04.import_faithful",
        "QipVerif.C04.import_den_partial",
        "QipVerif.C04.import_unitary_partial",
        "QipVerif.C04.import_custom_partial",
        "QipVerif.C04.import_faithful_w1_partial",
        "QipVerif.C04.import_den_w1_partial",
        "QipVerif.C04.import_unitary_w1_partial",
        "QipVerif.C04.render_injective",
        "QipVerif.C04.cache_key_injective",
        "QipVerif.C04.render_collisions",
        "QipVerif.C04.tokenizer_faithful",
        "QipVerif.C04.read_tokens_faithful",
        "QipVerif.C04.tokenizer_total",
        "QipVerif.C04.cond_onebit",
        "QipVerif.C04.cond_bits",
        "QipVerif.C04.cond_never",
        "QipVerif.C04.cond_faithful",
        "QipVerif.C04.import_rejects_undeclared_gate",
        "QipVerif.C04.import_rejects_bad_argument",
        "QipVerif.C04.import_rejects_arity",
        "QipVerif.C04.import_rejects_bad_barrier",
        "QipVerif.C04.import_rejects_body_barrier",
        "QipVerif.C04.import_barrier_witnesses",
        "QipVerif.C04.import_rejects_body_statement",
        "QipVerif.C04.body_check_operands",
        "QipVerif.C04.import_body_witnesses",
        "QipVerif.C04.body_unchecked_counterexample",
        "QipVerif.C04.import_empty_register_witnesses",
        "QipVerif.C04.import_rejects_arity_witnesses",
        "QipVerif.C04.import_rejects_qubit_witnesses",
        "QipVerif.C04.import_rejects_unsupported_witnesses",
        "QipVerif.C04.import_substitution_witnesses",
        "QipVerif.C04.if_bitorder_counterexample",
        "QipVerif.C04.if_bitorder_repaired",
        "QipVerif.C04.if_value_counterexample",
        "QipVerif.C04.if_measure_counterexample",
        "QipVerif.C04.import_rejects_redeclaration",
        "QipVerif.C04.import_redeclaration_witnesses",
        "QipVerif.C04.redeclaration_counterexample",
    ]
    level_text = ("Lean 4 theorems: every qelib1.inc gate that the importer replaces by a library gate equals the standard's "
                  "expansion to U/CX up to one global phase for all parameters (23 matrix identities over C); for every program "
                  "of the class W0 (no user definitions) and of the class W1 (declarations, gate definitions the standard accepts "
                  "with any nesting, then operations incl. broadcast calls of the defined gates and if-conditioned gates) that the "
                  "standard accepts, a model of the importer that follows the checkout (tables and repair flags regenerated from "
                  "the source) returns exactly the library gates / one user gate per call of the standard's flat operations "
                  "(refinement by induction over statements, incl. the cache of user-gate expansions, whose keys are injective "
                  "because parser o lexer o render = id on well-formed expressions), and these operations have, segment by "
                  "segment (same condition bits/value, same measurements), the unitary of the standard's full expansion to U/CX "
                  "on the N-qubit register up to one phase; on the repaired tree the simulator's test of an imported condition "
                  "is the standard's condition for registers of every width (cond_bits) and a never-true condition adds nothing; "
                  "the line tokenizer is modelled in Lean and proved to produce the expected token lists on every rendered "
                  "program of its class; the model provably rejects undeclared gates / registers, bad indices, wrong arities, bad "
                  "barrier operands and malformed body statements (repaired tree), and the unrepaired behaviours are proved as "
                  "variant-conditional counter-examples. Model and code are tied by an exact correspondence on generated, "
                  "exhaustive-shape, malformed and re-laid-out texts on every run; the standard's semantics in Lean is "
                  "cross-checked against an independent Python front end.")
    level_note = ("Trusted: Lean kernel; the OpenQASM 2.0 grammar/semantics and qelib1.inc as transcribed in "
                  "Model/QasmSpec.lean; Python eval on arithmetic expressions; the hand-written statement-level model of the "
                  "passes of qasm.py (pinned to the source statement by statement by the translator, compared with the code on "
                  "every run) incl. how the passes consume the token lists; the documented gate matrices restated in "
                  "Lemmas/QasmDen.lean; the simulator's reading of classical controls (C02); the harness. "
                  "if(c==k) measure is refused on every tree (recorded finding: the IR has no conditioned measurement).")
    technique = ("Lean 4 proof (model of tokenizer and importer passes following the tree, OpenQASM 2.0 expansion semantics in "
                 "Lean, matrix identities over C for the qelib1 shortcuts, refinement and segment-wise unitary for whole programs "
                 "with user definitions) + regenerated tables and variant flags + exact model/implementation correspondence on "
                 "generated programs and texts")
    trusted_base = [
        "Lean 4.33 kernel; axioms propext, Classical.choice, Quot.sound",
        "OpenQASM 2.0 semantics as written in Model/QasmSpec.lean from the language paper (U = Rz(phi)Ry(theta)Rz(lambda), "
        "CX, qelib1.inc bodies transcribed by hand), cross-checked on every run against the independent Python front end "
        "props/qasm_std.py",
        "Python eval on the expression grammar (numbers, pi, + - * /, parentheses) = real arithmetic; substitution of "
        "parenthesised values for whole identifiers = substitution of expression trees",
        "Model/QasmImport.lean and Model/QasmTok.lean are hand-written models of qasm.py: the translator pins the modelled "
        "statements of _final_pass / _regs_processor / _gate_add / _initialize_pass / _check_body_call to their exact source "
        "and the correspondence compares model and code (verdict, every gate field, user-gate expansions, token lists) on "
        "every run; how the later passes parse the token lists is covered by that correspondence only",
        "py/props/qasm_tables.py (AST extraction), py/props/c04.py, py/props/qasm_tok.py (harness, exception classes mapped "
        "to a small enum)",
    ]
    assumptions = ["documented matrices of the library gates as restated in Lemmas/QasmDen.lean (C09 proves them for the code)",
                   "meaning of classical_controls / classical_control_value in the simulator: first listed bit most significant, "
                   "restated as simFires (C02)"]
    rule = ("case = program (AST rendered one statement per line: registers, gate definitions, statements with their "
            "expressions and arguments) or one of its malformed variants; distinct by rendered text; non-trivial = at least "
            "one gate statement with a parameter, a whole-register argument, a user gate or a condition, or a rejection")

    def regenerate(self, ctx):
        return qasm_tables.regenerate()

    # ------------------------------------------------------------------------------------------------
    def _run(self, ctx, res, progs, tags=()):
        outs = ctx.driver("drv_qasm").run(["import prog=" + encode(p) for p in progs])
        for n, (p, o) in enumerate(zip(progs, outs)):
            if o == "bad-op":
                res.disagree(p, o, None, "driver could not decode the program", None)
                continue
            mv, mnq, mnc, mops, mtext = dec_import(o)
            lines = render(p)
            if mtext != lines:
                res.disagree(p, mtext, lines, "Lean renderProgram and the harness renderer differ", None)
                continue
            text = "\n".join(lines) + "\n"
            iv, qc, inners = impl_import(text, via_file=(n % 5 == 0))
            feats = set()
            for s in p:
                if s["t"] == "gate":
                    feats.add("userdef")
                if s["t"] == "if":
                    feats.add("if")
                if s["t"] in ("qop", "if"):
                    op = s["op"]
                    feats.add(op["o"] if op["o"] != "call" else ("call:" + (op["n"] if op["n"] in QELIB else "user")))
                    args = op.get("qs") or [op.get("q"), op.get("a"), op.get("b")]
                    if any(a is not None and a[1] is None for a in args):
                        feats.add("broadcast")
            nontriv = iv != "ok" or bool(feats & {"userdef", "if", "broadcast"}) or any(
                s["t"] in ("qop", "if") and (s["op"].get("ps") or s["op"]["o"] == "U") for s in p)
            res.case({"text": text}, nontrivial=nontriv, tags=[f"verdict={iv}"] + ["feat=" + f for f in sorted(feats)] + list(tags))
            w = {"prog": p}
            if mv != iv:
                res.disagree({"text": text}, mv, iv, "verdict of the importer (model vs implementation)", w)
                continue
            if iv != "ok":
                continue
            if (mnq, mnc) != (qc.N, qc.num_cbits):
                res.disagree({"text": text}, (mnq, mnc), (qc.N, qc.num_cbits), "register sizes", w)
                continue
            d = ops_agree(mops, impl_ops(qc, inners))
            if d:
                res.disagree({"text": text}, None, None, "imported gate list: " + d, w)

    def correspondence(self, ctx, res):
        rng = ctx.rng
        g = Gen(rng)
        # systematic: every qelib1 gate / U / CX, indexed and broadcast, plain and conditioned
        progs = []
        for name, (np_, nq_) in list(QELIB.items()) + [("U", (3, 1)), ("CX", (0, 2))]:
            for mode in ("idx", "whole", "if1", "if2"):
                prog = [{"t": "version"}, {"t": "incl", "f": "qelib1.inc"}, {"t": "qreg", "n": "q", "k": 3},
                        {"t": "qreg", "n": "r", "k": 3}, {"t": "creg", "n": "c", "k": 1}, {"t": "creg", "n": "d", "k": 2}]
                ps = [g.expr(2) for _ in range(np_)]
                if mode == "whole":
                    args = [["q", None], ["r", None], ["r", 0]][:nq_] if nq_ < 3 else [["q", 0], ["r", None], ["q", 2]]
                    if nq_ == 2:
                        args = [["q", None], ["r", None]]
                else:
                    args = [["q", 2], ["r", 0], ["q", 0]][:nq_]
                if name == "U":
                    op = {"o": "U", "e": ps, "q": args[0]}
                elif name == "CX":
                    op = {"o": "CX", "a": args[0], "b": args[1]}
                else:
                    op = {"o": "call", "n": name, "ps": ps, "qs": args}
                if mode == "if1":
                    prog.append({"t": "if", "c": "c", "k": 1, "op": op})
                elif mode == "if2":
                    prog.append({"t": "if", "c": "d", "k": rng.randrange(4), "op": op})
                else:
                    prog.append({"t": "qop", "op": op})
                progs.append(prog)
        self._run(ctx, res, progs, ["stream=systematic"])
        # exhaustive over operand shapes: {q[i], q, r[j], r}^k for two- and three-operand gates, registers of 1-3 qubits
        all_sizes = [(a, b) for a in (1, 2, 3) for b in (1, 2, 3)]
        shapes = list(shape_programs(all_sizes, with_three=False))
        shapes += list(shape_programs(all_sizes if ctx.thorough else [(1, 1), (2, 2), (2, 3), (3, 1)], with_three=True))
        seen_txt, uniq = set(), []
        for pr in shapes + list(shape_programs([(1, 2), (2, 2), (3, 2)], with_three=ctx.thorough, conditioned=True)):
            t = "\n".join(render(pr))
            if t not in seen_txt:
                seen_txt.add(t)
                uniq.append(pr)
        self._run(ctx, res, uniq, ["stream=operand-shapes"])
        self._run(ctx, res, list(measure_shape_programs()), ["stream=measure-shapes"])
        self._run(ctx, res, list(barrier_shape_programs()), ["stream=barrier-shapes"])
        self._run(ctx, res, list(empty_register_programs()), ["stream=empty-registers"])
        self._run(ctx, res, list(if_value_programs()), ["stream=if-values"])
        self._run(ctx, res, list(empty_body_programs()), ["stream=empty-bodies"])
        self._run(ctx, res, list(body_statement_programs()), ["stream=body-statements"])
        self._run(ctx, res, list(near_equal_call_programs()), ["stream=near-equal-calls"])
        self._run(ctx, res, list(redeclaration_programs()), ["stream=redeclarations"])
        self._tok_progs = [p for p in uniq[::97]][:8]
        res.notes.append("exhaustive: every operand-shape tuple over {q[0], q[last], q, r[0], r[last], r} for 2-operand gates "
                         "(cx, CX, cz, cu1, user gate) on registers of sizes 1-3 x 1-3 and for 3-operand gates (ccx, user gate), "
                         "plain and behind `if`; every measure operand shape (element / out of range / register / undeclared / "
                         "wrong kind on both sides); barrier operand tuples; every operand tuple containing an EMPTY register "
                         "for 1-3-operand gates, measure and barrier; `if(c==k)` for registers of 0-3 bits and every k up to "
                         "2^n+2 on accepted and on refused operations; gate definitions with an empty / barrier-only body (called, "
                         "broadcast, conditioned, nested, never called); every kind of malformed body statement in a called and in a "
                         "never-called definition; user-defined parametrised gates called several times with nearly equal, "
                         "equal-but-differently-written and large parameter expressions")
        res.exhaustive = True
        res.notes.append("systematic: every qelib1 gate, U and CX x {indexed, whole-register broadcast, if on a 1-bit "
                         "register, if on a 2-bit register}; then generated programs and their malformed variants")
        # generated programs
        n_gen = 8000 if ctx.thorough else 260
        progs = [g.program() for _ in range(n_gen)]
        self._run(ctx, res, progs, ["stream=generated"])
        # malformed variants
        bad = []
        base = progs[: (3000 if ctx.thorough else 130)]
        for p in base:
            for kind in rng.sample(MUTATIONS, 4 if ctx.thorough else 3):
                m = mutate(rng, p, kind)
                if m is not None:
                    bad.append((kind, m))
        for kind in MUTATIONS:      # every kind at least a few times
            cnt = 0
            for p in progs:
                m = mutate(rng, p, kind)
                if m is not None:
                    bad.append((kind, m))
                    cnt += 1
                    if cnt >= 3:
                        break
        for kind in MUTATIONS:
            sel = [m for k, m in bad if k == kind]
            if sel:
                self._run(ctx, res, sel, ["stream=malformed", "mutation=" + kind])
        # the Lean model of the tokenizer (`Tok.tokenize`, theorem tokenizer_faithful) against `_tokenize` /
        # `_tokenize_line` / the pre-processing of read_qasm: rendered programs, re-laid-out variants, malformed and
        # random texts — token lists compared exactly
        n0 = len(res.disagreements)
        qasm_tok.tok_correspondence(ctx, res, progs[: (200 if ctx.thorough else 36)] + self._tok_progs +
                                    [m for _, m in bad[: (60 if ctx.thorough else 12)]], render=render)
        for d in res.disagreements[n0:]:
            if isinstance(d.get("input"), dict) and "read_qasm_tokens" in d["input"]:
                d["witness"] = {"text": d["input"]["read_qasm_tokens"]}
        # the Lean specification against the independent Python front end
        spec_cross_check(ctx, res, progs[: (1500 if ctx.thorough else 120)] + [m for _, m in bad[: (1200 if ctx.thorough else 100)]])

    # ------------------------------------------------------------------------------------------------
    def oracle_replay(self, ctx, w):
        if "text" in w:      # a raw text (any layout) from the tokenizer correspondence
            one_per_line = all(l.count(";") <= 1 and "//" not in l for l in w["text"].splitlines())
            return property_fails_text(w["text"], lenient_if=not tree_variant()["if_rev"], refusal_ok=not one_per_line)
        # witnesses found by the sweeps carry the mode they were evaluated in (known `if` bit order tolerated)
        # — a tolerance that only exists while the checkout still has that bit order
        return property_fails(w["prog"], lenient_if=bool(w.get("_lenient_if")) and not tree_variant()["if_rev"])

    def _stream(self, ctx, full=False):
        rng = ctx.rng
        g = Gen(rng)
        variant = tree_variant()
        skip_kinds = finding_mutations(variant)
        # repaired classes are swept systematically
        extra = []
        if variant["if_skip"]:
            extra += list(if_value_programs())
        if variant["empty_reg_ok"]:
            extra += list(empty_register_programs())
        if variant["barrier_checked"]:
            extra += [p for p in barrier_shape_programs()][::7]
        if variant["empty_body_ok"]:
            extra += list(empty_body_programs())
        if variant["body_checked"]:
            extra += list(body_statement_programs())
        redecl = list(redeclaration_programs()) if variant["redecl_checked"] else []
        rng.shuffle(redecl)
        rng.shuffle(extra)
        near = list(near_equal_call_programs())
        rng.shuffle(near)
        for p in near[: (len(near) if (ctx.thorough or full) else 14)]:
            yield p
        for p in redecl:
            yield p
        for p in extra[: (len(extra) if (ctx.thorough or full) else 50)]:
            yield p
        # operand shapes first: element + containing register must be rejected, element + other register imported
        shapes = list(shape_programs([(2, 2), (1, 3), (3, 1)], with_three=False)) + \
            list(shape_programs([(2, 1)], with_three=True))
        rng.shuffle(shapes)
        for p in shapes[: (len(shapes) if ctx.thorough else 60)]:
            yield p
        for p in list(shape_programs([(1, 2)], with_three=False, conditioned=True))[:: (1 if ctx.thorough else 9)]:
            yield p
        while True:
            p = g.program()
            yield p
            if rng.random() < 0.5:
                m = mutate(rng, p, rng.choice([k for k in MUTATIONS if k not in skip_kinds]))
                if m is not None:
                    yield m

    @staticmethod
    def _in_sweep_class(prog):
        """outside the recorded findings: no `if` whose operation is a measurement"""
        return not any(s["t"] == "if" and s["op"]["o"] in ("measure", "reset") for s in prog)

    @staticmethod
    def _witness(p, lenient):
        return {"prog": p, "_lenient_if": True} if lenient else {"prog": p}

    def oracle_search(self, ctx, budget_s):
        t0 = time.time()
        # the recorded bit order of multi-bit `if` is tolerated only while the checkout still has it
        lenient = not tree_variant()["if_rev"]
        for p in self._stream(ctx, full=True):
            if time.time() - t0 > budget_s:
                return
            if not self._in_sweep_class(p):
                continue
            f, d = property_fails(p, lenient_if=lenient)
            if f:
                yield self._witness(p, lenient), d

    def oracle_always(self, ctx):
        n = 0
        lenient = not tree_variant()["if_rev"]
        for p in self._stream(ctx):
            n += 1
            if n > (2500 if ctx.thorough else 140):
                return
            if not self._in_sweep_class(p):
                continue
            f, d = property_fails(p, lenient_if=lenient)
            if f:
                yield self._witness(p, lenient), d


CHECK = C04()
