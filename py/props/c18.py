"""C18 — the cavity-QED and superconducting-qubit processors realise their native gates with high fidelity.

What is PROVED (Lean, all inputs) is the calibration LOGIC of the two pulse compilers in the ideal effective model:
which hardware parameter of which qubit enters which channel, areas / durations / signs, the Z corrections and the
global-phase bookkeeping of the cavity exchange gate, the CNOT sequence and the ZX strength of the cross-resonance
compiler, the Hann envelope.  What is NOT proved is the numerical bound itself (process fidelity >= 0.999, leakage
<= 0.001 of the truncated multi-level Schroedinger dynamics) and the validity of the effective model; the bound is
MEASURED on the real code on every run (oracle), on sampled inputs.

T: py/translate/cqed.py regenerates lean/QipVerif/Gen/CqedTables.lean, Gen/ScqTables.lean with `ast` (formulas term
   by term over an abstract arithmetic; gate maps, channel tables, gate sequences).  Cross-checked against the live
   compiler / model objects every run (`tables`).
H: lean/QipVerif/Model/Cqed.lean run with IEEE doubles (drv_cqed) side by side with the real compilers: every
   compiled instruction (gate, channel labels, every coefficient sample, every time sample), the accumulated global
   phase, the derived hardware parameters, the channel label sets; compared bit for bit where the arithmetic is the
   same, 1e-9 otherwise.
Oracle (independent of the model): load_circuit on the real processor, exact propagator of the compiled pulses in
   the full Hilbert space (resonator levels / third transmon level included), projected on the qubit subspace:
   process fidelity with the circuit unitary and leakage."""
import itertools, math, os, struct, time, warnings
from fractions import Fraction
import numpy as np

from vlib.core import PropertyCheck, TranslatorError
from vlib import paths
from translate import cqed as T

PI = math.pi
F_MIN = 0.999
LEAK_MAX = 0.001


def bits(x):
    return str(struct.unpack("<Q", struct.pack("<d", float(x)))[0])


def unbits(s):
    return struct.unpack("<d", struct.pack("<Q", int(s)))[0]


def blist(l):
    l = list(l)
    return ",".join(bits(x) for x in l) if l else "-"


def ublist(s):
    return [] if s == "-" else [unbits(x) for x in s.split(",")]


def dots(l):
    return ".".join(str(int(x)) for x in l) if l else "-"


def enc_gates(gates):
    """gates: [name, targets, controls, arg]"""
    if not gates:
        return "-"
    return ";".join(f"{n}/{dots(t)}/{dots(c)}/{bits(0.0 if a is None else a)}" for n, t, c, a in gates)


# ------------------------------------------------------------------------------------------
# devices

CQ_KEYS = ("deltamax", "epsmax", "eps", "delta", "g")
SCQ_KEYS = ("wq", "wr", "alpha", "g", "omega_single", "omega_cr")


def make_proc(dev, N, params):
    import qutip_qip.device as D
    kw = {}
    for k, v in (params or {}).items():
        kw[k] = [float(x) for x in v] if isinstance(v, (list, tuple)) else float(v)
    with warnings.catch_warnings():
        warnings.simplefilter("ignore")
        return D.DispersiveCavityQED(N, **kw) if dev == "cq" else D.SCQubits(N, **kw)


def hw_line(dev, N, proc):
    """the hardware parameters as the model driver reads them, taken from the arrays the live model built with
    `_to_array` (broadcasting only; every DERIVED quantity is computed by the model itself)"""
    P = proc.params
    if dev == "cq":
        return (f"n={N} w0={bits(P['w0'])} " + " ".join(f"{k}={blist(np.atleast_1d(P[k]))}" for k in CQ_KEYS))
    return (f"n={N} wq={blist(np.atleast_1d(P['wq']))} wr={blist(np.atleast_1d(P['wr']))} "
            f"alpha={blist(np.atleast_1d(P['alpha']))} g={blist(np.atleast_1d(P['g']))} "
            f"os={blist(np.atleast_1d(P['omega_single']))} ocr={blist(np.atleast_1d(P['omega_cr']))}")


def recording(dev, N, proc):
    import qutip_qip.compiler as C
    base = C.CavityQEDCompiler if dev == "cq" else C.SCQubitsCompiler

    class Rec(base):
        def _schedule(self, instruction_list, schedule_mode):
            self.rec = list(instruction_list)
            return super()._schedule(instruction_list, schedule_mode)

    c = Rec(N, proc.params, global_phase=0.0) if dev == "cq" else Rec(N, proc.params)
    c.rec = []
    return c


def classify(e):
    if isinstance(e, ValueError):
        m = str(e)
        if "Unsupported gate" in m:
            return "err unsupported"
        if "unpack" in m:
            return "err shape"
        return "err value:" + m[:40]
    if isinstance(e, KeyError):
        return "err key"
    if isinstance(e, IndexError):
        return "err index"
    if isinstance(e, TypeError) and "unpack" in str(e):
        return "err shape"
    return "err other:" + type(e).__name__ + ":" + str(e)[:60]


def mk_gate(g):
    from qutip_qip.operations import Gate
    n, t, c, a = g
    return Gate(n, targets=(list(t) or None), controls=(list(c) or None), arg_value=a)


def impl_compile(dev, N, proc, gates, drag=True):
    comp = recording(dev, N, proc)
    try:
        gl = [mk_gate(g) for g in gates]
    except Exception as e:
        return "err gate:" + type(e).__name__, None, None
    try:
        with warnings.catch_warnings():
            warnings.simplefilter("ignore")
            if dev == "scq" and not drag:
                comp.compile(gl, schedule_mode=None, args={"DRAG": False})
            else:
                comp.compile(gl, schedule_mode=None)
    except Exception as e:
        return classify(e), None, None
    recs = []
    for ins in comp.rec:
        scalar = bool(np.isscalar(ins.tlist))
        tl = [float(ins.tlist)] if scalar else [float(x) for x in ins.tlist]
        pulses = []
        for lab, co in ins.pulse_info:
            pulses.append((lab, [float(co)] if np.isscalar(co) else [float(x) for x in np.asarray(co)]))
        g = ins.gate
        recs.append((g.name, sorted(g.targets or []), sorted(g.controls or []),
                     None if g.arg_value is None else float(g.arg_value), scalar, tl, pulses))
    return "ok", recs, float(getattr(comp, "global_phase", 0.0))


def parse_model(ans):
    if not ans.startswith("ok "):
        return ans, None, None
    f = dict(x.split("=", 1) for x in ans[3:].split(" "))
    recs = []
    if f["ins"] != "-":
        for s in f["ins"].split("|"):
            p = s.split("/")
            name, t, c, a, scalar, tl = p[:6]
            pulses = []
            for q in p[6:]:
                lab, co = q.split(":")
                pulses.append((lab, ublist(co)))
            recs.append((name, sorted([] if t == "-" else [int(x) for x in t.split(".")]),
                         sorted([] if c == "-" else [int(x) for x in c.split(".")]), unbits(a), scalar == "1", ublist(tl), pulses))
    return "ok", recs, unbits(f["phase"])


class Cmp:
    """comparison of float sequences: bit-exact counted, otherwise 1e-9 of the scale of the sequence"""

    def __init__(self, hist):
        self.hist = hist

    def seq(self, a, b):
        if len(a) != len(b):
            return False
        if not a:
            return True
        scale = max(max(abs(x) for x in a), max(abs(x) for x in b), 1e-300)
        ok = True
        ex = 0
        for x, y in zip(a, b):
            if x == y or (x != x and y != y):
                ex += 1
            elif not (abs(x - y) <= 1e-9 * scale):
                ok = False
        self.hist["numbers compared"] = self.hist.get("numbers compared", 0) + len(a)
        self.hist["numbers bit-exact"] = self.hist.get("numbers bit-exact", 0) + ex
        return ok


def compare_instr(cmp, mrecs, irecs):
    if len(mrecs) != len(irecs):
        return f"number of instructions {len(mrecs)} vs {len(irecs)}"
    for k, (m, i) in enumerate(zip(mrecs, irecs)):
        mn, mt, mc, ma, ms, mtl, mp = m
        n, t, c, a, s, tl, p = i
        if (mn, mt, mc) != (n, t, c):
            return f"instruction {k}: gate {mn}{mt}{mc} vs {n}{t}{c}"
        if a is not None and not cmp.seq([ma], [a]):
            return f"instruction {k} ({n}): gate angle"
        if ms != s:
            return f"instruction {k} ({n}): scalar/array"
        if not cmp.seq(mtl, tl):
            return f"instruction {k} ({n}{t}): tlist / duration"
        if [x[0] for x in mp] != [x[0] for x in p]:
            return f"instruction {k} ({n}{t}): channel labels {[x[0] for x in mp]} vs {[x[0] for x in p]}"
        for (lab, mco), (_, co) in zip(mp, p):
            if not cmp.seq(mco, co):
                return f"instruction {k} ({n}{t}): coefficient on {lab}"
    return None


# ------------------------------------------------------------------------------------------
# the property on the real code (independent of the model)

def build_circuit(N, gates):
    from qutip_qip.circuit import QubitCircuit
    qc = QubitCircuit(N)
    for n, t, c, a in gates:
        kw = {}
        if a is not None:
            kw["arg_value"] = a
        qc.add_gate(n, targets=(list(t) or None), controls=(list(c) or None), **kw)
    return qc


def full_propagator(proc):
    """exact propagator of the loaded pulses on the full Hilbert space of the processor"""
    import qutip, scipy.linalg as sl
    tl = proc.get_full_tlist()
    D = int(np.prod(proc.dims))
    if tl is None or len(tl) < 2:
        return np.eye(D, dtype=complex)
    if getattr(proc, "spline_kind", None) == "step_func" and proc.pulse_mode == "discrete":
        co = proc.get_full_coeffs()
        Hd = np.zeros((D, D), dtype=complex)
        for dh in proc._get_drift_obj().drift_hamiltonians:
            Hd = Hd + dh.get_qobj(proc.dims).full()
        ops = [p.get_ideal_qobj(proc.dims).full() for p in proc.pulses]
        U = np.eye(D, dtype=complex)
        for n in range(len(tl) - 1):
            H = Hd + sum(co[m, n] * ops[m] for m in range(len(ops)))
            U = sl.expm(-1j * H * (tl[n + 1] - tl[n])) @ U
        return U
    H, _ = proc.get_qobjevo(noisy=True)
    T_ = float(tl[-1])
    return qutip.propagator(H, T_, options={"nsteps": 10 ** 7, "atol": 1e-11, "rtol": 1e-10, "max_step": T_ / 40}).full()


def n_pulse_gates(proc, qc):
    """number of gates of the transpiled circuit that are realised by pulses"""
    try:
        t = proc.transpile(qc)
        return max(1, sum(1 for g in t.gates if g.name not in ("GLOBALPHASE", "IDLE") and not (
            g.arg_value is not None and np.isscalar(g.arg_value) and g.arg_value == 0)))
    except Exception:
        return 1


def measure_loaded(proc, qc, dev, N):
    """fidelity / leakage of what the processor has loaded, with respect to the circuit `qc` as it is NOW"""
    with warnings.catch_warnings():
        warnings.simplefilter("ignore")
        U = full_propagator(proc)
    off = 1 if dev == "cq" else 0
    dims = list(proc.dims)
    sub = [int(np.ravel_multi_index([0] * off + [(j >> (N - 1 - k)) & 1 for k in range(N)], dims)) for j in range(2 ** N)]
    M = U[np.ix_(sub, sub)]
    leak = max(1 - float(np.linalg.norm(M[:, j]) ** 2) for j in range(len(sub)))
    V = qc.compute_unitary().full()
    d = V.shape[0]
    F = abs(np.trace(V.conj().T @ M)) ** 2 / d ** 2
    return float(F), float(leak), n_pulse_gates(proc, qc)


def measure(w):
    """-> (fidelity, leakage, number of pulse gates) of the witness on the real code"""
    dev, N = w["dev"], w["N"]
    proc = make_proc(dev, N, w.get("params"))
    qc = build_circuit(N, w["gates"])
    with warnings.catch_warnings():
        warnings.simplefilter("ignore")
        proc.load_circuit(qc, schedule_mode=w.get("mode", "ASAP"))
    return measure_loaded(proc, qc, dev, N)


# ------------------------------------------------------------------------------------------
# reuse histories: ONE processor, ONE QubitCircuit object, edited in place between the loads

def same_gate(a, b):
    return a[0] == b[0] and list(a[1]) == list(b[1]) and list(a[2]) == list(b[2])


def edit_in_place(qc, old, new):
    """turn the circuit object `qc` (built from the gate list `old`) into `new` the way a user sweeping a circuit does:
    same gate, other angle: `qc.gates[k].arg_value = theta`; other gate: `qc.gates[k] = Gate(...)`; other targets of the same
    gate: `qc.gates[k].targets = [...]`; extra gates are appended with add_gate, surplus gates deleted from the end"""
    for k, (a, b) in enumerate(zip(old, new)):
        if list(a) == list(b):
            continue
        if same_gate(a, b):
            qc.gates[k].arg_value = b[3]
        elif a[0] == b[0] and len(a[1]) == len(b[1]) and list(a[2]) == list(b[2]) and a[3] == b[3]:
            qc.gates[k].targets = list(b[1])
        else:
            qc.gates[k] = mk_gate(b)
    for b in new[len(old):]:
        kw = {} if b[3] is None else {"arg_value": b[3]}
        qc.add_gate(b[0], targets=(list(b[1]) or None), controls=(list(b[2]) or None), **kw)
    if len(new) < len(old):
        del qc.gates[len(new):]


def run_history(w):
    """generator: after every load_circuit of the history yields (step index, processor, circuit object)"""
    dev, N = w["dev"], w["N"]
    proc = make_proc(dev, N, w.get("params"))
    qc, cur = None, None
    for k, st in enumerate(w["steps"]):
        if qc is None:
            qc = build_circuit(N, st["gates"])
        else:
            edit_in_place(qc, cur, st["gates"])
        cur = st["gates"]
        with warnings.catch_warnings():
            warnings.simplefilter("ignore")
            proc.load_circuit(qc, schedule_mode=st.get("mode", "ASAP"))
        yield k, proc, qc


def channel_areas(proc):
    """label -> integral of the loaded coefficient over time (step functions: sum c*dt; sampled pulses: trapezoid over the
    samples - the padding zeros add nothing and instructions on one channel do not overlap); channels without pulse: absent"""
    out = {}
    for p in proc.pulses:
        if p.tlist is None or p.coeff is None:
            continue
        tl, co = np.asarray(p.tlist, dtype=float), np.asarray(p.coeff, dtype=float)
        if len(co) == len(tl) - 1:
            a = float(np.sum(co * np.diff(tl)))
        elif len(co) == len(tl) and getattr(proc, "pulse_mode", "") == "continuous":
            a = float(np.sum((co[1:] + co[:-1]) * np.diff(tl)) / 2)
        else:
            a = float(np.sum(co[:-1] * np.diff(tl)))
        out[p.label] = a
    return out


def model_areas(recs):
    """the same quantity from the model's instruction list"""
    out = {}
    for name, t, c, a, scalar, tl, pulses in recs:
        for lab, co in pulses:
            if scalar:
                v = co[0] * tl[0]
            else:
                v = sum((co[k + 1] + co[k]) * (tl[k + 1] - tl[k]) for k in range(len(tl) - 1)) / 2
            out[lab] = out.get(lab, 0.0) + v
    return out


def check_history(w):
    worst = None
    try:
        for k, proc, qc in run_history(w):
            F, leak, n = measure_loaded(proc, qc, w["dev"], w["N"])
            if F < 1 - (1 - F_MIN) * n or leak > LEAK_MAX * n:
                worst = (f"after load {k + 1} of {len(w['steps'])} on ONE processor and ONE circuit object (edited in place between "
                         f"the loads): process fidelity with the circuit as loaded {F:.6f} (required >= {1 - (1 - F_MIN) * n:.3f}), "
                         f"leakage {leak:.2e} (allowed {LEAK_MAX * n:.3f}); {n} pulse gate(s); circuit now: {w['steps'][k]['gates']}")
                break
    except Exception as e:
        return True, f"history cannot be loaded / run: {type(e).__name__}: {str(e)[:160]}"
    return (worst is not None), (worst or f"every load of the history of {len(w['steps'])} loads within the bounds")


def check_property(w):
    if w.get("kind") == "history":
        return check_history(w)
    try:
        F, leak, k = measure(w)
    except Exception as e:
        return True, f"the supported circuit cannot be loaded / run: {type(e).__name__}: {str(e)[:160]}"
    bad = F < 1 - (1 - F_MIN) * k or leak > LEAK_MAX * k
    tag = "" if not w.get("params") else ("[failing-input SEARCH beyond the property's claim: non-default per-qubit control "
                                          f"strengths {w['params']}, a family the unchanged code tolerates] ")
    return bad, tag + (f"process fidelity in the qubit subspace {F:.6f} (required >= {1 - (1 - F_MIN) * k:.3f}), "
                 f"leakage {leak:.2e} (allowed {LEAK_MAX * k:.3f}); {k} pulse gate(s)")


# ------------------------------------------------------------------------------------------

ANGLES = [k * PI / 4 for k in range(-8, 9)] + [1.0, -2.5, 0.3, 6.0, -5.5, 1e-3]
# geometric ladder of tiny angles, both signs: the superconducting compiler gives every rotation below a quarter turn a pulse of the
# duration of a quarter turn with a proportionally lowered amplitude - whatever the angle
TINY = [sg * 10.0 ** (-k) for k in range(3, 9) for sg in (1, -1)]
NONUNI = {
    "cq": {"deltamax": [1.0, 0.5, 2.0], "epsmax": [9.5, 8.0, 4.0], "eps": [9.5, 9.0, 8.5], "delta": [0.0, 0.5, 0.25],
           "g": [0.0078125, 0.015625, 0.01171875], "w0": 10.0},
    "scq": {"wq": [5.15, 5.09, 5.2], "wr": [5.96, 5.9], "alpha": [-0.3, -0.25, -0.35], "g": [0.1, 0.11, 0.09, 0.12],
            "omega_single": [0.01, 0.0125, 0.0075], "omega_cr": [0.01, 0.02, 0.015]},
}


def cut_params(dev, N, p):
    """restrict the 3-qubit non-uniform parameter set to N qubits"""
    if p is None:
        return None
    out = {}
    for k, v in p.items():
        if not isinstance(v, list):
            out[k] = v
        elif dev == "scq" and k == "wr":
            out[k] = v[:max(N - 1, 0)]
        elif dev == "scq" and k == "g":
            out[k] = v[:2 * max(N - 1, 0)]
        else:
            out[k] = v[:N]
    if dev == "scq" and N == 1:
        out.pop("wr"), out.pop("g")
    return out


class C18(PropertyCheck):
    id = "C18"
    lean_modules = ["QipVerif.Props.C18"]
    drivers = ["drv_cqed"]
    theorems = ["QipVerif.C18." + t for t in (
        "tables_tie", "cq_rot_calibrated", "cq_exchange_compiled", "cq_iswap_calibrated", "cq_sqrtiswap_calibrated",
        "cq_sqrtiswap_unreversed_wrong", "cq_corrections_commute", "cq_regime_tests", "cq_phase_accumulated", "hann_envelope", "scq_rot_calibrated", "scq_drag_quadratures",
        "zx_strength_of_pair", "scq_rzx_calibrated", "scq_rzx_unsigned_wrong", "scq_cnot_calibrated")]
    technique = ("Lean 4: formulas, gate maps, channel tables and gate sequences of the two pulse compilers and device models "
                 "regenerated from the source with ast into functions over an abstract arithmetic (R in the theorems, IEEE "
                 "doubles in the compiled model driver); calibration identities over C for all angles / qubits / pairs / "
                 "device sizes / parameters, with Mathlib's matrix exponential of the ideal effective Hamiltonians (closed "
                 "forms proved from the power series) and interval integrals of the Hann envelope; instruction-level "
                 "correspondence with the real compilers (bit for bit); the fidelity / leakage bound itself is MEASURED on "
                 "the real code on sampled inputs every run, not proved")
    level_text = ("PARTIAL. Proved (Lean 4, all inputs named in each theorem) is the calibration LOGIC of CavityQEDCompiler / "
                  "SCQubitsCompiler / CavityQEDModel / SCQubitsModel in the IDEAL EFFECTIVE MODEL (each instruction acts by "
                  "exp(-i * area * control Hamiltonian on the qubit subspace); the cavity-mediated exchange by the "
                  "second-order dispersive Hamiltonian): for every angle, qubit and strength the compiled RX/RZ (cavity) and "
                  "RX/RY (superconducting) pulse sits on the channel of the addressed qubit with that qubit's strength, the "
                  "right sign, area and duration, and its propagator is exactly the gate; the exchange instruction holds the "
                  "detunings and couplings of the two targets and its duration comes from J of the same quantities; exchange "
                  "pulse + RZ corrections + reported global phase = ISWAP and = SQRTISWAP for every uniform pair at resonance "
                  "and either sign of J (the unreversed shape before C18-1 is refuted for all J < 0); the reported global phase "
                  "is the sum of the GLOBALPHASE angles and the correction angles; the Hann window integrates to 1, vanishes "
                  "at both ends (its derivative, the DRAG quadrature shape, integrates to 0), the scaled envelope has the "
                  "requested area and the samples lie on it; zx_coeff[...] read for (control, target) is the cross-resonance "
                  "strength with the control's drive and anharmonicity for every device size; the cross-resonance pulse is "
                  "RZX(theta) for every real theta (the unsigned shape before C18-2 is refuted); cnot_compiler's five-gate "
                  "sequence is e^{i pi/4} CNOT for both orders of control and target. NOT proved: the bound of the property "
                  "itself (process fidelity >= 0.999, leakage <= 0.001 of the 10-level-resonator / 3-level-transmon "
                  "Schroedinger dynamics with sampled, spline-interpolated, DRAG-corrected pulses) - it is numerical and is "
                  "only MEASURED each run on a seeded sample of native gates, pairs, angles and short circuits at the default "
                  "parameters; and the validity of the effective model (rotating-wave / dispersive approximation, "
                  "second-order elimination of the resonator, neglect of the third level).")
    level_note = ("Trusted: Lean kernel (propext, Classical.choice, Quot.sound); the DEFINITION of the ideal effective model "
                  "(DevExp.prop of control Hamiltonian x area; DevExp.dispH, the standard second-order dispersive Hamiltonian, "
                  "checked numerically against the full propagator to 3e-4); py/translate/cqed.py (ast), cross-checked against "
                  "the live compiler / model objects every run; the hand model lean/QipVerif/Model/Cqed.lean, run side by side "
                  "with the real compilers (about 300000 numbers per quick run, more than 99.99 % bit-identical, the rest "
                  "within 1e-9); transpilation into the native gates is C13, scheduling C05/C11, concatenation C12, the "
                  "solver C14; the harness and the numerical oracle (scipy expm, qutip propagator).")
    trusted_base = [
        "Lean 4.33 kernel; axioms propext, Classical.choice, Quot.sound",
        "the ideal effective model as a DEFINITION: propagator = matrix exponential (Mathlib NormedSpace.exp) of "
        "(pulse area) x (control Hamiltonian restricted to the qubit subspace); the cavity-mediated exchange by the "
        "second-order dispersive Hamiltonian DevExp.dispH (not derived in Lean; compared numerically with the full dynamics)",
        "py/translate/cqed.py (ast extraction of formulas, gate maps, channel tables, the CNOT sequence), cross-checked "
        "against the live objects every run",
        "lean/QipVerif/Model/Cqed.lean (control flow of the two compilers), validated by the instruction-level "
        "correspondence on every run; lean/Drv/Cqed.lean with IEEE doubles",
        "C13 (transpilation to native gates), C05/C11 (scheduling), C12 (pulse concatenation), C14 (solver grid) for the "
        "stages around the compilers",
        "py/props/c18.py harness; numpy / scipy expm / qutip propagator in the measured fidelity oracle",
    ]
    assumptions = [
        "the fidelity >= 0.999 / leakage <= 0.001 bound is measured on sampled inputs, not proved",
        "exchange-gate theorems: uniform pair (equal detunings and couplings of the two targets) and the detuning phase "
        "2*d*T an integer - both hold at the default parameters (-2500 / -3750 turns), and the measured fidelity collapses "
        "when they fail (g = [0.01, 0.012]: 0.05; g = 0.02: SQRTISWAP 0.0)",
        "hardware strengths are non-zero",
        "the measured sweep also runs a few devices with NON-UNIFORM per-qubit control strengths (cavity: epsmax, deltamax; "
        "superconducting: omega_single, omega_cr, alpha - families for which the unchanged code keeps the bound) as a failing-input "
        "search beyond the property's claim (the property speaks of the default parameters; the theorems of per-qubit parameters)",
        "superconducting compiler: default args (hann, DRAG on or off); the DRAG corrections enter only the measured part",
    ]
    rule = ("case = (device, number of qubits, hardware parameter vectors, gate list with placements and angles, DRAG flag); "
            "distinct by canonical JSON; non-trivial = at least one instruction is compiled or the compiler refuses")

    def __init__(self):
        self.info = None

    # ---------------------------------------------------------------------------------
    def regenerate(self, ctx):
        self.info = T.regenerate()
        return ["CqedTables.lean", "ScqTables.lean"]

    def flags(self):
        """variant flags of the source as read by the translator; None if the source is not recognised"""
        if self.info is None:
            try:
                self.info = T.render()[2]
            except Exception:
                return None
        return self.info["flips"], self.info["signed"], self.info["floor"]

    # ---------------------------------------------------------------------------------
    def _tables_check(self, ctx, res):
        import qutip
        from qutip_qip.operations import Gate
        import qutip_qip.compiler as C
        ans = ctx.driver("drv_cqed").run(["tables"])[0]
        f = dict(x.split("=", 1) for x in ans[3:].split(" "))
        problems = []

        def probe(dev):
            proc = make_proc(dev, 3, cut_params(dev, 3, NONUNI[dev]))
            comp = recording(dev, 3, proc)
            live = []
            for name, meth in comp.gate_compiler.items():
                two = name in ("ISWAP", "SQRTISWAP", "RZX")
                # angle above a quarter turn: the amplitude is the hardware strength itself (no small-angle floor)
                g = Gate(name, targets=[0, 1] if two else [1], controls=([0] if name == "CNOT" else None), arg_value=2.5)
                before = getattr(comp, "global_phase", 0.0)
                comp.global_phase = before
                with warnings.catch_warnings():
                    warnings.simplefilter("ignore")
                    r = meth(g, comp.args)
                after = getattr(comp, "global_phase", 0.0)
                if r is None:
                    live.append(f"{name}:" + ("phase" if after != before else "noop"))
                elif not r[0].pulse_info:
                    live.append(f"{name}:idle")
                elif len(r) == 5:
                    live.append(f"{name}:cnot")
                elif r[0].pulse_info[0][0].startswith("zx"):
                    live.append(f"{name}:rzx")
                elif len(r) == 3:
                    live.append(f"{name}:exchange/{['ISWAP', 'SQRTISWAP'].index(name) if name in ('ISWAP', 'SQRTISWAP') else '?'}")
                else:
                    lab = r[0].pulse_info[0][0]
                    co = np.max(np.abs(np.atleast_1d(r[0].pulse_info[0][1])))
                    keys = ("sx", "sz") if dev == "cq" else ("omega_single", "omega_cr")
                    # the DRAG-corrected amplitude differs from the strength by less than 1e-3 relative
                    par = [k for k in keys if abs(float(proc.params[k][1]) - float(co)) < 1e-3 * float(co)]
                    live.append(f"{name}:rotation/{lab[:-1]}/{par[0] if len(par) == 1 else '?'}")
                comp.global_phase = 0.0
            return proc, comp, live

        proc, comp, live = probe("cq")
        if sorted(live) != sorted(f["cqrules"].split(",")):
            problems.append(("cavity gate_compiler", f["cqrules"], ",".join(live)))
        if list(proc.native_gates) != f["cqnative"].split(","):
            problems.append(("cavity native gates", f["cqnative"], ",".join(proc.native_gates)))
        # controls of the cavity model
        N = 3
        for ent in f["cqctl"].split(","):
            p = ent.split(":")
            if p[0] in ("sx", "sz"):
                coef, op, fac = unbits(p[1]), p[2], int(p[3])
                ham, tg = proc.model.get_control(p[0] + "1")
                want = coef * (qutip.sigmax() if op == "x" else qutip.sigmaz())
                if list(np.atleast_1d(tg)) != [fac] or np.abs((ham - want).full()).max() > 1e-12:
                    problems.append(("cavity control " + p[0], ent, f"targets {tg}"))
            else:
                c0, c1 = unbits(p[1]), unbits(p[2])
                ham, tg = proc.model.get_control("g1")
                nl = proc.num_levels
                a = qutip.tensor([qutip.destroy(nl)] + [qutip.qeye(2)] * N)
                sm = qutip.tensor([qutip.qeye(nl)] + [qutip.destroy(2) if m == 1 else qutip.qeye(2) for m in range(N)])
                want = c0 * a.dag() * sm + c1 * a * sm.dag()
                if list(tg) != list(range(N + 1)) or np.abs((ham - want).full()).max() > 1e-12:
                    problems.append(("cavity control g", ent, f"targets {tg}"))
        cf, cl, sf = f["cavity"].split(",")
        U = qutip.rand_unitary(nl * 8)
        U.dims = [[nl, 2, 2, 2]] * 2
        got = proc.eliminate_auxillary_modes(U).full()
        idx = [int(np.ravel_multi_index([int(cl), a_, b_, c_], [nl, 2, 2, 2])) for a_ in (0, 1) for b_ in (0, 1) for c_ in (0, 1)]
        if int(cf) != 0 or np.abs(got - U.full()[np.ix_(idx, idx)]).max() > 1e-12:
            problems.append(("cavity elimination", f["cavity"], "projection differs"))
        if (sf == "1") != (getattr(proc, "spline_kind", None) == "step_func"):
            problems.append(("cavity spline kind", sf, str(getattr(proc, "spline_kind", None))))
        d = make_proc("cq", 2, None).params
        dd = ublist(f["cqdef"])
        if [float(d["deltamax"][0]), float(d["epsmax"][0]), float(d["w0"]), float(d["eps"][0]), float(d["delta"][0]),
                float(d["g"][0])] != dd:
            problems.append(("cavity defaults", f["cqdef"], str(d)))
        # exchange areas / corrections, behaviourally: duration * |J| and the angle of the RZ corrections
        ex = []
        for name in ("ISWAP", "SQRTISWAP"):
            c2 = recording("cq", 3, proc)
            r = c2.gate_compiler[name](Gate(name, targets=[0, 1]), c2.args)
            ex.append((name, float(r[1].gate.arg_value), float(c2.global_phase)))
        mex = [x.split(":") for x in f["exch"].split(",")]
        for (name, corr, ph), (mn, ma, mc) in zip(ex, mex):
            if name != mn or abs(corr - unbits(mc)) > 1e-15 or abs(ph - unbits(mc)) > 1e-15:
                problems.append(("exchange correction angle / phase of " + name, f["exch"], f"{corr} {ph}"))
        # behavioural flags
        qc = build_circuit(2, [["ISWAP", [0, 1], [], None]])
        p2 = make_proc("cq", 2, None)
        c2 = recording("cq", 2, p2)
        p2.load_circuit(qc, compiler=c2)
        g1, c1 = p2.global_phase, c2.global_phase
        p2.load_circuit(qc, compiler=c2)
        if ("1" if abs(c2.global_phase - c1) < 1e-12 else "0") != f["resets"]:
            problems.append(("compile resets the global phase", f["resets"], f"{c1} then {c2.global_phase}"))
        if ("1" if abs(g1 - c1) < 1e-12 and abs(c1) > 1e-12 else "0") != f["hands"]:
            problems.append(("load_circuit hands the phase back", f["hands"], f"{g1} vs {c1}"))
        # superconducting qubits
        proc, comp, live = probe("scq")
        if sorted(live) != sorted(f["scqrules"].split(",")):
            problems.append(("scq gate_compiler", f["scqrules"], ",".join(live)))
        if list(proc.native_gates) != f["scqnative"].split(","):
            problems.append(("scq native gates", f["scqnative"], ",".join(proc.native_gates)))
        a_ = f["scqargs"].split(",")
        if [comp.args["shape"], str(comp.args["num_samples"]), "1" if comp.args["DRAG"] else "0"] != a_:
            problems.append(("scq default args", f["scqargs"], str({k: v for k, v in comp.args.items() if k != "params"})))
        co = ublist(f["scqctl"])
        a3 = qutip.destroy(3)
        z = qutip.Qobj(np.diag([0.5, -0.5, 0.0]))
        x = qutip.Qobj(np.array([[0, 0.5, 0], [0.5, 0, 0], [0, 0, 0]]))
        wants = [("sx1", co[0] * (a3 + a3.dag()), [1]), ("sy1", co[1] * (-1j * a3 + 1j * a3.dag()), [1]),
                 ("sz1", co[2] * a3.dag() * a3, [1]), ("zx12", co[3] * qutip.tensor(z, x), [1, 2]),
                 ("zx21", co[4] * qutip.tensor(x, z), [1, 2])]
        for lab, want, tgw in wants:
            ham, tg = proc.model.get_control(lab)
            if list(np.atleast_1d(tg)) != tgw or np.abs(ham.full() - want.full()).max() > 1e-12:
                problems.append(("scq control " + lab, f["scqctl"], f"targets {tg}"))
        d = make_proc("scq", 3, None).params
        dd = ublist(f["scqdef"])
        live_d = [float(d["wq"][0]), float(d["wq"][1]), float(d["wr"][0]), float(d["alpha"][0]), float(d["g"][0]),
                  float(d["omega_single"][0]), float(d["omega_cr"][0])]
        if live_d != dd or float(d["wq"][2]) != dd[0]:
            problems.append(("scq defaults", f["scqdef"], str(live_d)))
        # the CNOT sequence, behaviourally
        c2 = recording("scq", 3, proc)
        r = c2.cnot_compiler(Gate("CNOT", targets=[2], controls=[1]), c2.args)
        live_seq = [(i.gate.name, "".join("c" if q == 1 else "t" for q in
                                          (i.gate.targets if i.gate.name != "RZX" else [1, 2])), float(i.gate.arg_value)) for i in r]
        mseq = [x.split(":") for x in f["cnot"].split(",")]
        okseq = len(live_seq) == len(mseq) and all(
            n == mn and (refs == mr.replace(".", "")) and abs(a - unbits(ma)) < 1e-15
            for (n, refs, a), (mn, mr, ma, _) in zip(live_seq, mseq))
        if not okseq:
            problems.append(("cnot_compiler sequence", f["cnot"], str(live_seq)))
        fl = self.flags()
        flips, signed = (fl[0], fl[1]) if fl else (None, None)
        if fl and (f["flips"] != ("1" if flips else "0") or f["signed"] != ("1" if signed else "0")):
            problems.append(("variant flags compiled into the driver", f["flips"] + f["signed"], f"{flips} {signed}"))
        # label sets
        outs = ctx.driver("drv_cqed").run([f"labels dev={dev} n={n}" for dev in ("cq", "scq") for n in (1, 2, 3, 4)])
        k = 0
        for dev in ("cq", "scq"):
            for n in (1, 2, 3, 4):
                lv = list(make_proc(dev, n, None).model.get_control_labels())
                if sorted(lv) != sorted(outs[k][3:].split(",")):
                    problems.append((f"{dev} channel labels N={n}", outs[k], ",".join(lv)))
                k += 1
        inp = {"tables": "cavity-QED / superconducting-qubit compilers and models"}
        res.case(inp, nontrivial=True, tags=["tables"])
        for what, m, i in problems:
            res.disagree(inp, m, i, "regenerated table vs live object: " + what,
                         {"dev": "cq", "N": 2, "params": None, "mode": "ASAP", "gates": [["ISWAP", [0, 1], [], None]]})

    # ---------------------------------------------------------------------------------
    def _params_cases(self, ctx, res, cases):
        """derived hardware parameters: (dev, N, params)"""
        lines, procs = [], []
        for dev, N, params in cases:
            proc = make_proc(dev, N, params)
            procs.append(proc)
            lines.append(("cqparams " if dev == "cq" else "scqparams ") + hw_line(dev, N, proc))
        outs = ctx.driver("drv_cqed").run(lines)
        cmp = Cmp(res.hist)
        for (dev, N, params), proc, o in zip(cases, procs, outs):
            inp = {"params": dev, "N": N, "values": params}
            res.case(inp, nontrivial=True, tags=["derived parameters " + dev])
            f = dict(x.split("=", 1) for x in o[3:].split(" ")) if o.startswith("ok ") else None
            if f is None:
                res.disagree(inp, o, "ok", "model driver refuses the parameter set", None)
                continue
            P = proc.params
            if dev == "cq":
                with warnings.catch_warnings(record=True) as wl:
                    warnings.simplefilter("always")
                    make_proc_raw = __import__("qutip_qip.device", fromlist=["x"]).DispersiveCavityQED
                    kw = {k: ([float(x) for x in v] if isinstance(v, list) else float(v)) for k, v in (params or {}).items()}
                    make_proc_raw(N, **kw)
                msgs = [str(x.message) for x in wl]
                live = {"wq": P["wq"], "Delta": P["Delta"], "sx": P["sx"], "sz": P["sz"]}
                w0 = "1" if any("dispersive" in m for m in msgs) else "0"
                w1 = "1" if any("rotating-wave" in m for m in msgs) else "0"
                bad = [k for k in live if not cmp.seq(ublist(f[k]), [float(x) for x in np.atleast_1d(live[k])])]
                if (f["warn0"], f["warn1"]) != (w0, w1):
                    bad.append(f"warnings {f['warn0']}{f['warn1']} vs {w0}{w1}")
            else:
                live = {"wqd": P["wq_dressed"], "wrd": P["wr_dressed"], "J": P["J"], "zx": P["zx_coeff"]}
                bad = [k for k in live if not cmp.seq(ublist(f[k]), [float(x) for x in np.atleast_1d(live[k])])]
            if bad:
                res.disagree(inp, o[:300], {k: [float(x) for x in np.atleast_1d(v)] for k, v in live.items()},
                             "derived hardware parameters: " + ", ".join(bad),
                             {"dev": dev, "N": N, "params": params, "mode": "ASAP",
                              "gates": [["ISWAP", [0, 1], [], None]] if dev == "cq" else [["CNOT", [1], [0], None]]})

    def _compile_cases(self, ctx, res, cases, kind):
        """(dev, N, params, gates, drag)"""
        lines, procs = [], []
        cache = {}
        for dev, N, params, gates, drag in cases:
            key = (dev, N, repr(params))
            if key not in cache:
                cache[key] = make_proc(dev, N, params)
            proc = cache[key]
            procs.append(proc)
            if dev == "cq":
                lines.append("cq " + hw_line(dev, N, proc) + " gates=" + enc_gates(gates))
            else:
                ns = self.info["nsamp"] if self.info else 101
                lines.append(f"scq drag={1 if drag else 0} ns={ns} " + hw_line(dev, N, proc) + " gates=" + enc_gates(gates))
        outs = ctx.driver("drv_cqed").run(lines)
        cmp = Cmp(res.hist)
        for (dev, N, params, gates, drag), proc, o in zip(cases, procs, outs):
            inp = {"dev": dev, "N": N, "params": params, "gates": [list(g) for g in gates], "drag": drag}
            st, mrecs, mph = parse_model(o)
            ist, irecs, iph = impl_compile(dev, N, proc, gates, drag)
            res.case(inp, nontrivial=bool(gates), tags=[kind + " " + dev, "verdict=" + st.split(":")[0]]
                     + [f"{dev}:{g[0]}" for g in gates[:1]])
            w = {"dev": dev, "N": N, "params": params, "mode": "ASAP", "gates": [list(g) for g in gates]}
            if st != ist:
                res.disagree(inp, st, ist, "verdict of compile", w)
                continue
            if st != "ok":
                continue
            bad = compare_instr(cmp, mrecs, irecs)
            if bad:
                res.disagree(inp, "model instruction list", "compiler instruction list", "compiled instructions: " + bad, w)
                continue
            if dev == "cq" and not cmp.seq([mph], [iph]):
                res.disagree(inp, mph, iph, "accumulated global phase of the compiler", w)

    # ---------------------------------------------------------------------------------
    def _grid(self, thorough):
        cases = []
        for dev in ("cq", "scq"):
            for N in (1, 2, 3):
                for params in (None, cut_params(dev, N, NONUNI[dev])):
                    angs = ANGLES if (thorough or params is not None) else ANGLES[::2]
                    for q in range(N):
                        for a in angs:
                            if dev == "cq":
                                cases.append((dev, N, params, [["RX", [q], [], a]], True))
                                cases.append((dev, N, params, [["RZ", [q], [], a]], True))
                            else:
                                cases.append((dev, N, params, [["RX", [q], [], a]], True))
                                cases.append((dev, N, params, [["RY", [q], [], a]], params is None))
                    for q1, q2 in itertools.permutations(range(N), 2):
                        if dev == "cq":
                            cases.append((dev, N, params, [["ISWAP", [q1, q2], [], None]], True))
                            cases.append((dev, N, params, [["SQRTISWAP", [q1, q2], [], None]], True))
                        else:
                            cases.append((dev, N, params, [["CNOT", [q2], [q1], None]], True))
                            for a in (PI / 2, -PI / 2, 0.3, -1.0, PI, 2 * PI, -2 * PI):
                                cases.append((dev, N, params, [["RZX", [q1, q2], [], a]], True))
                    if N <= 2:
                        for q in range(N):
                            for a in TINY:
                                cases.append((dev, N, params, [["RX", [q], [], a]], True))
                                cases.append((dev, N, params, [[("RZ" if dev == "cq" else "RY"), [q], [], a]], params is None))
                    cases.append((dev, N, params, [["GLOBALPHASE", [], [], 0.7]], True))
                    cases.append((dev, N, params, [["IDLE", [0], [], 2.5]], True))
        return cases

    def _rand_params(self, rng, dev, N):
        r = rng.random()
        if r < 0.2:
            return None
        dy = lambda lo, hi: rng.randint(lo, hi) / 64.0
        if dev == "cq":
            return {"deltamax": [dy(16, 160) for _ in range(N)], "epsmax": [dy(64, 640) for _ in range(N)],
                    "eps": [dy(500, 620) for _ in range(N)], "delta": [rng.choice([0.0, 0.0, dy(1, 64)]) for _ in range(N)],
                    "g": [rng.randint(1, 12) / 512.0 for _ in range(N)], "w0": rng.choice([10.0, 9.0, 10.5, 8.0])}
        p = {"wq": [5.0 + rng.randint(1, 40) / 128.0 * (1 if k % 2 else -1) + 0.01 * k for k in range(N)],
             "alpha": [-rng.randint(16, 32) / 64.0 for _ in range(N)],
             "omega_single": [rng.randint(1, 8) / 256.0 for _ in range(N)],
             "omega_cr": [rng.randint(1, 8) / 256.0 for _ in range(N)]}
        if N > 1:
            p["wr"] = [5.9 + rng.randint(0, 16) / 128.0 for _ in range(N - 1)]
            p["g"] = [rng.randint(8, 24) / 128.0 for _ in range(2 * (N - 1))]
        return p

    def _rand_gates(self, rng, dev, N, malformed):
        gs = []
        for _ in range(rng.randint(1, 5)):
            r = rng.random()
            ang = rng.choice([rng.uniform(-2 * PI, 2 * PI), rng.choice(ANGLES), 0.0])
            hi = N + (1 if malformed and rng.random() < 0.15 else 0)
            if dev == "cq":
                if r < 0.45:
                    gs.append([rng.choice(["RX", "RZ"]), [rng.randrange(hi)], [], ang])
                elif r < 0.8 and N >= 2:
                    gs.append([rng.choice(["ISWAP", "SQRTISWAP"]), rng.sample(range(N), 2), [], None])
                elif r < 0.9:
                    gs.append(["GLOBALPHASE", [], [], ang])
                elif malformed:
                    gs.append([rng.choice(["RY", "CNOT", "SNOT"]), [rng.randrange(N)], ([rng.randrange(N)] if N > 1 and False else []), ang])
                else:
                    gs.append(["IDLE", [rng.randrange(N)], [], abs(ang)])
            else:
                if r < 0.45:
                    gs.append([rng.choice(["RX", "RY"]), [rng.randrange(hi)], [], ang])
                elif r < 0.7 and N >= 2:
                    c, t = rng.sample(range(N), 2)
                    gs.append(["CNOT", [t], [c], None])
                elif r < 0.85 and N >= 2:
                    gs.append(["RZX", rng.sample(range(N), 2), [], ang])
                elif r < 0.92:
                    gs.append(["GLOBALPHASE", [], [], ang])
                elif malformed:
                    gs.append([rng.choice(["RZ", "ISWAP", "SNOT"]), [rng.randrange(N)], [], ang])
                else:
                    gs.append(["IDLE", [rng.randrange(N)], [], abs(ang)])
        return gs

    # ---------------------------------------------------------------------------------
    # reuse histories on ONE processor and ONE circuit object
    FIXED_HISTORIES = [
        {"dev": "cq", "N": 2, "steps": [
            {"mode": "ASAP", "gates": [["RX", [0], [], PI / 2], ["ISWAP", [0, 1], [], None], ["RZ", [1], [], 0.3]]},
            {"mode": "ALAP", "gates": [["RX", [0], [], PI / 2], ["ISWAP", [0, 1], [], None], ["RZ", [1], [], 0.3]]},
            {"mode": "ASAP", "gates": [["RX", [0], [], PI], ["ISWAP", [0, 1], [], None], ["RZ", [1], [], 0.3]]},
            {"mode": "ASAP", "gates": [["RZ", [0], [], -2.0], ["ISWAP", [0, 1], [], None], ["RZ", [1], [], 0.3]]}]},
        {"dev": "cq", "N": 3, "steps": [
            {"mode": "ASAP", "gates": [["ISWAP", [0, 1], [], None], ["RX", [2], [], 1.0]]},
            {"mode": None, "gates": [["ISWAP", [0, 2], [], None], ["RX", [2], [], 1.0]]},
            {"mode": "ALAP", "gates": [["SQRTISWAP", [0, 2], [], None], ["RX", [2], [], -1.0]]}]},
        {"dev": "cq", "N": 2, "steps": [
            {"mode": "ASAP", "gates": [["CNOT", [1], [0], None]]},
            {"mode": "ASAP", "gates": [["CNOT", [0], [1], None]]}]},
        {"dev": "scq", "N": 2, "steps": [
            {"mode": "ASAP", "gates": [["RY", [1], [], 0.5], ["CNOT", [1], [0], None]]},
            {"mode": "ASAP", "gates": [["RY", [1], [], -1.5], ["CNOT", [1], [0], None]]},
            {"mode": "ALAP", "gates": [["RX", [0], [], PI], ["CNOT", [1], [0], None]]}]},
        {"dev": "scq", "N": 1, "steps": [
            {"mode": "ASAP", "gates": [["RX", [0], [], PI / 2]]},
            {"mode": "ASAP", "gates": [["RX", [0], [], -PI]]},
            {"mode": "ASAP", "gates": [["RX", [0], [], -PI], ["RY", [0], [], 0.7]]}]},
    ]

    def _rand_history(self, rng, cheap=False):
        dev = rng.choice(["cq", "scq"])
        N = rng.randint(1, 3) if dev == "cq" else rng.randint(1, 2)
        ang = lambda: rng.choice([rng.uniform(-2 * PI, 2 * PI), PI / 2, PI, -PI / 2, 0.3])

        def gate():
            if N >= 2 and rng.random() < 0.35:
                a, b = rng.sample(range(N), 2)
                n = rng.choice(["ISWAP", "SQRTISWAP", "CNOT", "SWAP"] if dev == "cq" else ["CNOT", "CSIGN", "RZX"])
                if n in ("CNOT", "CSIGN"):
                    return [n, [a], [b], None]
                return [n, [a, b], [], (rng.uniform(0.2, 2 * PI) if n == "RZX" else None)]
            n = rng.choice(["RX", "RZ", "RY", "SNOT"] if dev == "cq" else ["RX", "RY", "RZ", "X"])
            return [n, [rng.randrange(N)], [], (ang() if n in ("RX", "RY", "RZ") else None)]

        cur = [gate() for _ in range(rng.randint(1, 2 if cheap else 3))]
        steps = [{"mode": rng.choice(["ASAP", "ALAP", None]), "gates": [list(g) for g in cur]}]
        for _ in range(rng.randint(1, 3)):
            cur = [list(g) for g in cur]
            k = rng.randrange(len(cur))
            r = rng.random()
            if r < 0.15:
                pass                                           # the same circuit once more (other mode)
            elif r < 0.5 and cur[k][3] is not None:
                cur[k][3] = ang()                              # angle sweep in place
            elif r < 0.8:
                cur[k] = gate()                                # another gate, same number of gates
            elif r < 0.9:
                cur.append(gate())
            elif len(cur) > 1:
                cur.pop()
            steps.append({"mode": rng.choice(["ASAP", "ALAP", None]), "gates": cur})
        return {"kind": "history", "dev": dev, "N": N, "params": None, "steps": steps}

    def _history_cases(self, ctx, res, hists):
        """after EVERY load of every history: channel labels, the area (time integral) of every channel and the reported global
        phase as loaded in the processor, against the model compiling the native form of the circuit AS IT IS NOW (transpiled by a
        fresh processor from a fresh circuit object; the transpilation itself is C13's)"""
        cmp = Cmp(res.hist)
        todo = []          # (history, step index, live areas, live phase, native gate list | error)
        for w in hists:
            w = dict(w, kind="history", params=w.get("params"))
            try:
                for k, proc, qc in run_history(w):
                    fresh = make_proc(w["dev"], w["N"], w.get("params"))
                    with warnings.catch_warnings():
                        warnings.simplefilter("ignore")
                        nat = fresh.transpile(build_circuit(w["N"], w["steps"][k]["gates"])).gates
                    gl = [[g.name, list(g.targets or []), list(g.controls or []),
                           (None if g.arg_value is None else float(g.arg_value))] for g in nat]
                    ph = float(getattr(proc, "global_phase", 0.0) or 0.0)
                    todo.append((w, k, channel_areas(proc), ph, gl, fresh))
            except Exception as e:
                inp = {"history": w["steps"], "dev": w["dev"], "N": w["N"]}
                res.case(inp, nontrivial=True, tags=["history " + w["dev"], "verdict=raises"])
                res.disagree(inp, "loads", classify(e), "a load of the reuse history raises", w)
        lines = []
        for w, k, live, ph, gl, fresh in todo:
            if w["dev"] == "cq":
                lines.append("cq " + hw_line("cq", w["N"], fresh) + " gates=" + enc_gates(gl))
            else:
                lines.append("scq drag=1 ns=101 " + hw_line("scq", w["N"], fresh) + " gates=" + enc_gates(gl))
        outs = ctx.driver("drv_cqed").run(lines)
        for (w, k, live, ph, gl, fresh), o in zip(todo, outs):
            inp = {"history": w["steps"][:k + 1], "dev": w["dev"], "N": w["N"]}
            edited = k > 0 and w["steps"][k]["gates"] != w["steps"][k - 1]["gates"]
            res.case(inp, nontrivial=True, tags=["history " + w["dev"], "load after an in-place edit" if edited else
                                                 ("first load" if k == 0 else "reload unchanged")])
            st, mrecs, mph = parse_model(o)
            wit = dict(w, steps=w["steps"][:k + 1])
            if st != "ok":
                res.disagree(inp, st, "ok", "model refuses the native form of the current circuit", wit)
                continue
            want = model_areas(mrecs)
            labs = sorted(set(want) | set(live))
            scale = max([abs(x) for x in want.values()] + [1e-3])
            tol = (1e-9 if w["dev"] == "cq" else 2e-3) * scale
            bad = [l for l in labs if abs(want.get(l, 0.0) - live.get(l, 0.0)) > tol]
            res.hist["channel areas compared"] = res.hist.get("channel areas compared", 0) + len(labs)
            if bad:
                res.disagree(inp, {l: want.get(l, 0.0) for l in bad[:6]}, {l: live.get(l, 0.0) for l in bad[:6]},
                             f"after load {k + 1} on one processor / one circuit object: pulse area on channel(s) {bad[:6]} is not that "
                             f"of the circuit as it is now", wit)
            elif w["dev"] == "cq" and abs(mph - ph) > 1e-9:
                res.disagree(inp, mph, ph, f"after load {k + 1}: reported global phase is not that of the circuit as it is now", wit)

    def correspondence(self, ctx, res):
        rng = ctx.rng
        self.flags()        # tolerate a source the translator refuses: the driver then carries the last good tables
        self._tables_check(ctx, res)
        pc = [(dev, N, p) for dev in ("cq", "scq") for N in (1, 2, 3, 4) for p in (None,)]
        pc += [(dev, N, cut_params(dev, N, NONUNI[dev])) for dev in ("cq", "scq") for N in (1, 2, 3)]
        pc += [(dev, N, self._rand_params(rng, dev, N)) for dev in ("cq", "scq") for N in (1, 2, 3, 5)
               for _ in range(20 if ctx.thorough else 4)]
        pc += [("cq", 2, {"g": 0.6}), ("cq", 2, {"w0": 30.0}), ("cq", 2, {"g": [0.01, 0.03], "eps": [9.5, 9.6]})]
        self._params_cases(ctx, res, pc)
        grid = self._grid(ctx.thorough)
        self._compile_cases(ctx, res, grid, "grid")
        res.exhaustive = True
        res.notes.append(f"grid: every native gate of both compilers (RX, RZ, ISWAP, SQRTISWAP, GLOBALPHASE, IDLE / RX, RY, RZX, "
                         f"CNOT) on every qubit and every ordered pair of 1-3 qubit devices, default and non-uniform per-qubit "
                         f"hardware parameters, angles k*pi/4 for k = -8..8 and six generic ones ({len(grid)} single-gate compiles); "
                         f"then seeded random gate lists with random dyadic per-qubit parameters, with and without DRAG, and a "
                         f"malformed stream (unsupported names, out-of-range qubits)")
        cases = []
        for i in range(1500 if ctx.thorough else 160):
            dev = rng.choice(["cq", "scq"])
            N = rng.randint(1, 3) if rng.random() < 0.9 else rng.randint(4, 5)
            mal = i % 4 == 3
            cases.append((dev, N, self._rand_params(rng, dev, N), self._rand_gates(rng, dev, N, mal), rng.random() < 0.75))
        self._compile_cases(ctx, res, cases, "random")
        hists = [dict(h) for h in self.FIXED_HISTORIES] + [self._rand_history(rng) for _ in range(400 if ctx.thorough else 50)]
        self._history_cases(ctx, res, hists)
        res.notes.append(f"reuse histories: {len(hists)} histories of 2-4 load_circuit calls on ONE processor with ONE QubitCircuit "
                         f"object edited in place between the loads (angle, replacement gate, targets, append, delete; schedule "
                         f"modes ASAP/ALAP/None), compared after every load")

    # ---------------------------------------------------------------------------------
    def oracle_replay(self, ctx, w):
        return check_property(w)

    def _systematic(self):
        """native gates x qubits / pairs x angles at the default parameters, small devices first"""
        ang = [PI / 2, -PI, 2 * PI, 0.3, -2 * PI, 1e-3, PI, -PI / 2, 3 * PI / 2, -2.5]
        for N in (1, 2, 3):
            for q in range(N):
                for a in ang:
                    yield {"dev": "cq", "N": N, "params": None, "mode": "ASAP", "gates": [["RX", [q], [], a]]}
                    yield {"dev": "cq", "N": N, "params": None, "mode": "ASAP", "gates": [["RZ", [q], [], a]]}
                    yield {"dev": "scq", "N": N, "params": None, "mode": "ASAP", "gates": [["RX", [q], [], a]]}
                    yield {"dev": "scq", "N": N, "params": None, "mode": "ASAP", "gates": [["RY", [q], [], a]]}
            for q1, q2 in itertools.permutations(range(N), 2):
                yield {"dev": "cq", "N": N, "params": None, "mode": "ASAP", "gates": [["ISWAP", [q1, q2], [], None]]}
                yield {"dev": "cq", "N": N, "params": None, "mode": "ASAP", "gates": [["SQRTISWAP", [q1, q2], [], None]]}
                if abs(q1 - q2) == 1:
                    yield {"dev": "scq", "N": N, "params": None, "mode": "ASAP", "gates": [["CNOT", [q2], [q1], None]]}
                    for a in (PI / 2, -PI / 2, 0.3, -1.0):
                        yield {"dev": "scq", "N": N, "params": None, "mode": "ASAP", "gates": [["RZX", [q1, q2], [], a]]}

    # parameter families for which the UNCHANGED code keeps the bound (measured, see notes/C18.md): per-qubit control strengths.
    # cavity: epsmax, deltamax (they only set pulse durations); NOT per-qubit g / eps / delta (the exchange gate needs a uniform
    # pair at resonance).  superconducting: omega_single, omega_cr, alpha, g per coupling (effective ZX model).
    TOL = {"cq": {"epsmax": [3.0, 4.0, 9.5, 12.0], "deltamax": [0.25, 0.5, 1.0, 2.0]},
           "scq": {"omega_single": [0.0075, 0.01, 0.0125, 0.02], "omega_cr": [0.01, 0.015, 0.02], "alpha": [-0.3, -0.25, -0.35]}}
    FIXED_NONUNI = {("cq", 2): {"epsmax": [9.5, 3.0], "deltamax": [1.0, 0.5]},
                    ("cq", 3): {"epsmax": [4.0, 9.5, 12.0], "deltamax": [2.0, 1.0, 0.25]},
                    ("scq", 2): {"omega_single": [0.01, 0.0125], "omega_cr": [0.01, 0.02], "alpha": [-0.3, -0.25]},
                    ("scq", 3): {"omega_single": [0.0125, 0.01, 0.0075], "omega_cr": [0.02, 0.01, 0.015], "alpha": [-0.25, -0.3, -0.35]}}

    def _rand_tolerated(self, rng, dev, N):
        p = {k: [rng.choice(v) for _ in range(N)] for k, v in self.TOL[dev].items()}
        if dev == "scq" and N > 1 and rng.random() < 0.5:
            p["g"] = [rng.choice([0.09, 0.1, 0.11, 0.12]) for _ in range(2 * (N - 1))]
        return p

    def _nonuniform(self, small_only=False):
        """SEARCH inputs beyond the property's claim: devices whose qubits have different control strengths, every native gate on
        every qubit / ordered pair.  The theorems quantify over per-qubit parameters ("the strength of THAT qubit"); a change that
        mixes up the parameters of two qubits is invisible at the uniform defaults."""
        for (dev, N), p in self.FIXED_NONUNI.items():
            if small_only and N > 2:
                continue
            base = {"dev": dev, "N": N, "params": p, "mode": "ASAP"}
            for q1, q2 in itertools.permutations(range(N), 2):
                if dev == "cq":
                    yield dict(base, gates=[["ISWAP", [q1, q2], [], None]])
                    yield dict(base, gates=[["SQRTISWAP", [q1, q2], [], None]])
                elif abs(q1 - q2) == 1:
                    yield dict(base, gates=[["CNOT", [q2], [q1], None]])
                    yield dict(base, gates=[["RZX", [q1, q2], [], -0.8]])
            for q in range(N):
                for a in (1.3, -2.1, 0.01):
                    yield dict(base, gates=[["RX", [q], [], a]])
                    yield dict(base, gates=[[("RZ" if dev == "cq" else "RY"), [q], [], a]])
            if N >= 2:
                yield dict(base, mode="ALAP", gates=[["CNOT", [1], [0], None]])
                yield dict(base, gates=[["SWAP", [0, 1], [], None]] if dev == "cq" else [["CSIGN", [0], [1], None]])

    def _tiny_ladder(self):
        """cheap 1-2 qubit superconducting circuits with a rotation by a tiny angle (1e-8 ... 1e-3, both signs) next to ordinary
        pulses: before / after a full turn, between two rotations, before a CNOT"""
        for a in TINY:
            base = {"dev": "scq", "params": None, "mode": "ASAP"}
            yield dict(base, N=1, gates=[["RX", [0], [], a], ["RX", [0], [], 2 * PI]])
            yield dict(base, N=1, gates=[["RX", [0], [], 2 * PI], ["RY", [0], [], a]])
            yield dict(base, N=1, gates=[["RY", [0], [], PI], ["RX", [0], [], a], ["RY", [0], [], -PI / 2]])
            yield dict(base, N=2, gates=[["RY", [0], [], a], ["CNOT", [1], [0], None]])

    def _rand_witness(self, rng):
        dev = rng.choice(["cq", "scq"])
        N = rng.randint(1, 3 if dev == "cq" else 2)
        one = ["RX", "RZ", "RY", "X", "SNOT", "Z", "Y"] if dev == "cq" else ["RX", "RY", "RZ", "X", "SNOT", "Y"]
        two = ["ISWAP", "CNOT", "SWAP", "CSIGN"] if dev == "cq" else ["CNOT", "CSIGN", "RZX"]
        gs = []
        for _ in range(rng.randint(1, 5 if dev == "cq" else 3)):
            if N >= 2 and rng.random() < 0.4:
                n = rng.choice(two)
                a, b = rng.sample(range(N), 2)
                if n in ("CNOT", "CSIGN"):
                    gs.append([n, [a], [b], None])
                elif n == "RZX":
                    gs.append([n, [a, b], [], rng.uniform(0, 2 * PI)])
                else:
                    gs.append([n, [a, b], [], None])
            else:
                n = rng.choice(one)
                gs.append([n, [rng.randrange(N)], [], rng.uniform(-2 * PI, 2 * PI) if n in ("RX", "RY", "RZ") else None])
        return {"dev": dev, "N": N, "params": (self._rand_tolerated(rng, dev, N) if getattr(self, "_search_params", False)
                                               and rng.random() < 0.6 else None),
                "mode": rng.choice(["ASAP", "ALAP"]), "gates": gs}

    def oracle_search(self, ctx, budget_s):
        """failing-input search after a broken obligation.  It does not use the translator (it must run when the source is not
        recognised).  Stages: the property's own domain (default parameters), then devices with NON-UNIFORM per-qubit control
        strengths from families the unchanged code tolerates - a search beyond the property's claim, labelled as such -, then
        random circuits on both kinds of devices."""
        t0 = time.time()
        for w in itertools.chain(({"kind": "history", "params": None, **h} for h in self.FIXED_HISTORIES),
                                 (self._rand_history(ctx.rng, cheap=True) for _ in range(12)),
                                 self._tiny_ladder(), self._nonuniform(small_only=True), self._systematic(), self._nonuniform()):
            f, d = check_property(w)
            if f:
                yield w, d
            if time.time() - t0 > budget_s:
                return
        self._search_params = True
        try:
            while time.time() - t0 < budget_s:
                w = self._rand_witness(ctx.rng)
                f, d = check_property(w)
                if f:
                    yield w, d
        finally:
            self._search_params = False

    def oracle_always(self, ctx):
        """the MEASURED part: fidelity / leakage of a seeded sample of native gates and short circuits at the default
        parameters (time-budgeted)"""
        budget = 600 if ctx.thorough else 40
        # a small fixed part beyond the property's claim: two-qubit devices with different per-qubit control strengths
        nn = 0
        for w in self._nonuniform(small_only=True):
            f, d = check_property(w)
            nn += 1
            if f:
                yield w, d
        # reuse histories (one processor, one circuit object edited in place), fidelity measured after every load
        nh = 0
        for h in self.FIXED_HISTORIES[:2] + self.FIXED_HISTORIES[3:]:
            w = {"kind": "history", "params": None, **h}
            f, d = check_property(w)
            nh += 1
            if f:
                yield w, d
        nt = 0
        for w in self._tiny_ladder():
            f, d = check_property(w)
            nt += 1
            if f:
                yield w, d
        t0 = time.time()
        allw = list(self._systematic())
        two = [w for w in allw if len(w["gates"][0][1]) + len(w["gates"][0][2]) == 2 and w["N"] == 2]
        rest = [w for w in allw if w not in two]
        ctx.rng.shuffle(rest)
        n = 0
        for w in two + rest:
            if time.time() - t0 > budget * 0.7:
                break
            f, d = check_property(w)
            n += 1
            if f:
                yield w, d
        while time.time() - t0 < budget:
            w = self._rand_witness(ctx.rng)
            f, d = check_property(w)
            n += 1
            if f:
                yield w, d
        ctx.log(f"measured fidelity / leakage on {n} native gates and short circuits at the default parameters, and on {nn} native "
                f"gates of two-qubit devices with non-uniform per-qubit control strengths (search beyond the claim); {nh} reuse histories measured after every load; {nt} circuits of the tiny-angle ladder")


CHECK = C18()
