"""An independent OpenQASM 2.0 front end written from the language paper (arXiv:1707.03429):
strict lexer and parser, static semantics, expansion of every gate call to the built-ins
U(theta,phi,lambda) = Rz(phi) Ry(theta) Rz(lambda) and CX, dense numpy evaluation.

Used as the ORACLE of C04 (what an imported program must mean) and of C10 (is the exported
text valid OpenQASM 2.0, and what does it denote).  It shares no code with the library under
verification and none with the Lean models.  qelib1.inc is not available in the sandbox: its
text below is transcribed by hand from the paper."""
import math, re
import numpy as np


class QasmError(Exception):
    def __init__(self, kind, msg=""):
        super().__init__(f"{kind}: {msg}")
        self.kind = kind


QELIB1 = r"""
gate u3(theta,phi,lambda) q { U(theta,phi,lambda) q; }
gate u2(phi,lambda) q { U(pi/2,phi,lambda) q; }
gate u1(lambda) q { U(0,0,lambda) q; }
gate cx c,t { CX c,t; }
gate id a { U(0,0,0) a; }
gate x a { u3(pi,0,pi) a; }
gate y a { u3(pi,pi/2,pi/2) a; }
gate z a { u1(pi) a; }
gate h a { u2(0,pi) a; }
gate s a { u1(pi/2) a; }
gate sdg a { u1(-pi/2) a; }
gate t a { u1(pi/4) a; }
gate tdg a { u1(-pi/4) a; }
gate rx(theta) a { u3(theta,-pi/2,pi/2) a; }
gate ry(theta) a { u3(theta,0,0) a; }
gate rz(phi) a { u1(phi) a; }
gate cz a,b { h b; cx a,b; h b; }
gate cy a,b { sdg b; cx a,b; s b; }
gate ch a,b { h b; sdg b; cx a,b; h b; t b; cx a,b; t b; h b; s b; x b; s a; }
gate ccx a,b,c { h c; cx b,c; tdg c; cx a,c; t c; cx b,c; tdg c; cx a,c; t b; t c; h c; cx a,b; t a; tdg b; cx a,b; }
gate crz(lambda) a,b { u1(lambda/2) b; cx a,b; u1(-lambda/2) b; cx a,b; }
gate cu1(lambda) a,b { u1(lambda/2) a; cx a,b; u1(-lambda/2) b; cx a,b; u1(lambda/2) b; }
gate cu3(theta,phi,lambda) c,t { u1((lambda-phi)/2) t; cx c,t; u3(-theta/2,0,-(phi+lambda)/2) t; cx c,t; u3(theta/2,phi,0) t; }
"""

KEYWORDS = {"OPENQASM", "include", "qreg", "creg", "gate", "opaque", "U", "CX", "measure", "reset",
            "barrier", "if", "pi", "sin", "cos", "tan", "exp", "ln", "sqrt"}
FUNCS = {"sin": math.sin, "cos": math.cos, "tan": math.tan, "exp": math.exp, "ln": math.log, "sqrt": math.sqrt}

TOKEN_RE = re.compile(r"""
    (?P<ws>[ \t\r\n]+)
  | (?P<comment>//[^\n]*)
  | (?P<real>(?:[0-9]+\.[0-9]*|[0-9]*\.[0-9]+)(?:[eE][-+]?[0-9]+)?)
  | (?P<int>[0-9]+)
  | (?P<word>[A-Za-z][A-Za-z0-9_]*)
  | (?P<str>"[^"\n]*")
  | (?P<arrow>->)
  | (?P<eqeq>==)
  | (?P<sym>[;,()\[\]{}+\-*/^])
""", re.X)


def lex(text):
    pos, out = 0, []
    while pos < len(text):
        m = TOKEN_RE.match(text, pos)
        if not m:
            raise QasmError("lex", f"unexpected character {text[pos]!r} at {pos}")
        pos = m.end()
        k = m.lastgroup
        if k in ("ws", "comment"):
            continue
        v = m.group(k)
        if k == "int" and not re.fullmatch(r"[1-9]+[0-9]*|0", v):
            raise QasmError("lex", f"nninteger with leading zero {v!r}")
        out.append((k, v))
    return out


class Parser:
    def __init__(self, toks):
        self.t = toks
        self.i = 0

    def peek(self, k=0):
        return self.t[self.i + k] if self.i + k < len(self.t) else ("eof", "")

    def next(self):
        tok = self.peek()
        self.i += 1
        return tok

    def expect(self, kind, val=None):
        tok = self.next()
        if tok[0] != kind or (val is not None and tok[1] != val):
            raise QasmError("syntax", f"expected {val or kind}, got {tok[1]!r}")
        return tok[1]

    def sym(self, c):
        return self.expect("sym", c)

    def at_sym(self, c):
        return self.peek() == ("sym", c)

    def ident(self):
        tok = self.next()
        if tok[0] != "word" or not tok[1][0].islower() or tok[1] in KEYWORDS:
            raise QasmError("syntax", f"identifier expected, got {tok[1]!r}")
        return tok[1]

    # expressions ------------------------------------------------------------------------------
    def exp(self):
        a = self.term()
        while self.peek() in (("sym", "+"), ("sym", "-")):
            op = self.next()[1]
            b = self.term()
            a = (op, a, b)
        return a

    def term(self):
        a = self.factor()
        while self.peek() in (("sym", "*"), ("sym", "/")):
            op = self.next()[1]
            b = self.factor()
            a = (op, a, b)
        return a

    def factor(self):
        if self.at_sym("-"):
            self.next()
            return ("neg", self.factor())
        a = self.atom()
        if self.at_sym("^"):
            self.next()
            return ("^", a, self.factor())
        return a

    def atom(self):
        k, v = self.next()
        if k in ("real", "int"):
            return ("num", float(v))
        if k == "word":
            if v == "pi":
                return ("pi",)
            if v in FUNCS:
                self.sym("(")
                e = self.exp()
                self.sym(")")
                return ("fn", v, e)
            if v[0].islower() and v not in KEYWORDS:
                return ("id", v)
        if (k, v) == ("sym", "("):
            e = self.exp()
            self.sym(")")
            return e
        raise QasmError("syntax", f"expression expected, got {v!r}")

    def explist_paren(self):
        """optional `( explist? )`"""
        if not self.at_sym("("):
            return []
        self.next()
        if self.at_sym(")"):
            self.next()
            return []
        es = [self.exp()]
        while self.at_sym(","):
            self.next()
            es.append(self.exp())
        self.sym(")")
        return es

    # arguments --------------------------------------------------------------------------------
    def arg(self):
        name = self.ident()
        if self.at_sym("["):
            self.next()
            i = int(self.expect("int"))
            self.sym("]")
            return (name, i)
        return (name, None)

    def anylist(self):
        l = [self.arg()]
        while self.at_sym(","):
            self.next()
            l.append(self.arg())
        return l

    def idlist(self):
        l = [self.ident()]
        while self.at_sym(","):
            self.next()
            l.append(self.ident())
        return l

    # statements -------------------------------------------------------------------------------
    def qop(self):
        k, v = self.peek()
        if k != "word":
            raise QasmError("syntax", f"statement expected, got {v!r}")
        if v == "U":
            self.next()
            ps = self.explist_paren()
            if len(ps) != 3:
                raise QasmError("syntax", "U takes three parameters")
            q = self.arg()
            self.sym(";")
            return ("U", ps, [q])
        if v == "CX":
            self.next()
            a = self.arg()
            self.sym(",")
            b = self.arg()
            self.sym(";")
            return ("CX", [], [a, b])
        if v == "measure":
            self.next()
            q = self.arg()
            self.expect("arrow")
            c = self.arg()
            self.sym(";")
            return ("measure", q, c)
        if v == "reset":
            self.next()
            q = self.arg()
            self.sym(";")
            return ("reset", q)
        name = self.ident()
        ps = self.explist_paren()
        qs = self.anylist()
        self.sym(";")
        return ("call", name, ps, qs)

    def gop(self):
        k, v = self.peek()
        if v == "U":
            self.next()
            ps = self.explist_paren()
            if len(ps) != 3:
                raise QasmError("syntax", "U takes three parameters")
            q = self.ident()
            self.sym(";")
            return ("U", ps, [q])
        if v == "CX":
            self.next()
            a = self.ident()
            self.sym(",")
            b = self.ident()
            self.sym(";")
            return ("CX", [], [a, b])
        if v == "barrier":
            self.next()
            qs = self.idlist()
            self.sym(";")
            return ("barrier", qs)
        name = self.ident()
        ps = self.explist_paren()
        qs = self.idlist()
        self.sym(";")
        return ("call", name, ps, qs)

    def formals(self):
        if not self.at_sym("("):
            return []
        self.next()
        if self.at_sym(")"):
            self.next()
            return []
        l = self.idlist()
        self.sym(")")
        return l

    def statement(self):
        k, v = self.peek()
        if k != "word":
            raise QasmError("syntax", f"statement expected, got {v!r}")
        if v in ("qreg", "creg"):
            self.next()
            name = self.ident()
            self.sym("[")
            n = int(self.expect("int"))
            self.sym("]")
            self.sym(";")
            return (v, name, n)
        if v == "include":
            self.next()
            f = self.expect("str")
            self.sym(";")
            return ("include", f[1:-1])
        if v == "gate":
            self.next()
            name = self.ident()
            ps = self.formals()
            qs = self.idlist()
            self.sym("{")
            body = []
            while not self.at_sym("}"):
                body.append(self.gop())
            self.next()
            return ("gate", name, ps, qs, body)
        if v == "opaque":
            self.next()
            name = self.ident()
            ps = self.formals()
            qs = self.idlist()
            self.sym(";")
            return ("opaque", name, ps, qs)
        if v == "barrier":
            self.next()
            qs = self.anylist()
            self.sym(";")
            return ("barrier", qs)
        if v == "if":
            self.next()
            self.sym("(")
            c = self.ident()
            self.expect("eqeq")
            kk = int(self.expect("int"))
            self.sym(")")
            return ("if", c, kk, self.qop())
        return self.qop()

    def program(self, header=True):
        out = []
        if header:
            self.expect("word", "OPENQASM")
            ver = self.expect("real")
            if ver != "2.0":
                raise QasmError("syntax", "version is not 2.0")
            self.sym(";")
        while self.peek()[0] != "eof":
            out.append(self.statement())
        return out


def parse(text, header=True):
    return Parser(lex(text)).program(header)


# expressions ------------------------------------------------------------------------------------
def ev(e, env, allow_pow=True):
    k = e[0]
    if k == "num":
        return e[1]
    if k == "pi":
        return math.pi
    if k == "id":
        if e[1] not in env:
            raise QasmError("freeId", e[1])
        return env[e[1]]
    if k == "neg":
        return -ev(e[1], env, allow_pow)
    if k == "fn":
        if not allow_pow:
            raise QasmError("unsupported", "function")
        return FUNCS[e[1]](ev(e[2], env, allow_pow))
    a, b = ev(e[1], env, allow_pow), ev(e[2], env, allow_pow)
    if k == "+":
        return a + b
    if k == "-":
        return a - b
    if k == "*":
        return a * b
    if k == "/":
        if b == 0:
            raise QasmError("zeroDiv", "division by zero in a parameter expression")
        return a / b
    if k == "^":
        if not allow_pow:
            raise QasmError("unsupported", "power operator")
        return a ** b
    raise QasmError("syntax", "bad expression")


def uses_unsupported(e):
    if e[0] in ("^", "fn"):
        return True
    return any(uses_unsupported(x) for x in e[1:] if isinstance(x, tuple))


# static semantics + expansion -----------------------------------------------------------------------
class Std:
    """Meaning of a program: n qubits, m classical bits, ops = list of
       ("U", cond, (theta,phi,lam), q) | ("CX", cond, a, b) | ("measure", cond, q, c) | ("barrier", qs)
       with cond = None | (tuple of absolute cbit indices LSB first, k)."""

    def __init__(self, text, supported_only=True, with_qelib=None):
        self.supported_only = supported_only
        self.qregs, self.cregs, self.gates = {}, {}, {}
        self.nq = self.nc = 0
        self.ops = []
        prog = parse(text)
        for st in prog:
            self.stmt(st)

    # -- declarations
    def load_qelib(self):
        for st in parse(QELIB1, header=False):
            self.stmt(st)

    def stmt(self, st):
        k = st[0]
        if k == "include":
            if st[1] != "qelib1.inc":
                raise QasmError("unsupported", "include of " + st[1])
            self.load_qelib()
        elif k in ("qreg", "creg"):
            _, name, n = st
            if name in self.qregs or name in self.cregs:
                raise QasmError("redeclared", name)
            if k == "qreg":
                self.qregs[name] = (self.nq, n)
                self.nq += n
            else:
                self.cregs[name] = (self.nc, n)
                self.nc += n
        elif k == "gate":
            _, name, ps, qs, body = st
            if name in self.gates:
                raise QasmError("redeclared", name)
            if len(set(ps)) != len(ps) or len(set(qs)) != len(qs):
                raise QasmError("redeclared", "formal names")
            for g in body:
                self.check_gop(g, ps, qs)
            self.gates[name] = (ps, qs, body)
        elif k == "opaque":
            raise QasmError("unsupported", "opaque")
        elif k == "barrier":
            qs = []
            for a in st[1]:
                r = self.resolve(a, self.qregs)
                qs += r if isinstance(r, list) else [r]
            self.ops.append(("barrier", qs))
        elif k == "if":
            _, c, kk, op = st
            if c not in self.cregs:
                raise QasmError("undeclaredReg", c)
            s, n = self.cregs[c]
            self.qop(op, (tuple(range(s, s + n)), kk))
        else:
            self.qop(st, None)

    def check_gop(self, g, ps, qs):
        if g[0] == "barrier":
            if not all(q in qs for q in g[1]):
                raise QasmError("undeclaredReg", "barrier argument")
            return
        if g[0] in ("U", "CX"):
            params, args = g[1], g[2]
            np_, nq_ = (3, 1) if g[0] == "U" else (0, 2)
        else:
            _, name, params, args = g
            if name not in self.gates:
                raise QasmError("undeclaredGate", name)
            np_, nq_ = len(self.gates[name][0]), len(self.gates[name][1])
        if len(params) != np_ or len(args) != nq_:
            raise QasmError("arity", str(g[0:2]))
        for e in params:
            if self.supported_only and uses_unsupported(e):
                raise QasmError("unsupported", "power operator or function")
            ev(e, {p: 1.0 for p in ps})
        if not all(a in qs for a in args):
            raise QasmError("undeclaredReg", "gate body argument")
        if len(set(args)) != len(args):
            raise QasmError("repeatedQubit", "gate body")

    # -- arguments
    def resolve(self, a, table):
        name, i = a
        if name not in table:
            raise QasmError("undeclaredReg", name)
        s, n = table[name]
        if i is None:
            return list(range(s, s + n))
        if i >= n:
            raise QasmError("indexRange", f"{name}[{i}]")
        return s + i

    def broadcast(self, args):
        rs = [self.resolve(a, self.qregs) for a in args]
        sizes = {len(r) for r in rs if isinstance(r, list)}
        if len(sizes) > 1:
            raise QasmError("broadcast", "registers of different sizes")
        if not sizes:
            tuples = [rs]
        else:
            m = sizes.pop()
            tuples = [[r[j] if isinstance(r, list) else r for r in rs] for j in range(m)]
        for t in tuples:
            if len(set(t)) != len(t):
                raise QasmError("repeatedQubit", str(t))
        return tuples

    # -- operations
    def qop(self, op, cond):
        k = op[0]
        if k == "reset":
            raise QasmError("unsupported", "reset")
        if k == "measure":
            q = self.resolve(op[1], self.qregs)
            c = self.resolve(op[2], self.cregs)
            if isinstance(q, list) != isinstance(c, list):
                raise QasmError("broadcast", "measure")
            if isinstance(q, list):
                if len(q) != len(c):
                    raise QasmError("broadcast", "measure")
                for a, b in zip(q, c):
                    self.ops.append(("measure", cond, a, b))
            else:
                self.ops.append(("measure", cond, q, c))
            return
        if k in ("U", "CX"):
            params, args = op[1], op[2]
        else:
            _, name, params, args = op
            if name not in self.gates:
                raise QasmError("undeclaredGate", name)
            ps, qs, _ = self.gates[name]
            if len(ps) != len(params) or len(qs) != len(args):
                raise QasmError("arity", name)
        for e in params:
            if self.supported_only and uses_unsupported(e):
                raise QasmError("unsupported", "power operator or function")
        vals = [ev(e, {}) for e in params]
        for t in self.broadcast(args):
            if k == "U":
                self.ops.append(("U", cond, tuple(vals), t[0]))
            elif k == "CX":
                self.ops.append(("CX", cond, t[0], t[1]))
            else:
                self.expand(op[1], vals, t, cond)

    def expand(self, name, vals, qubits, cond):
        ps, qs, body = self.gates[name]
        env = dict(zip(ps, vals))
        qm = dict(zip(qs, qubits))
        for g in body:
            if g[0] == "barrier":
                continue
            if g[0] == "U":
                self.ops.append(("U", cond, tuple(ev(e, env) for e in g[1]), qm[g[2][0]]))
            elif g[0] == "CX":
                self.ops.append(("CX", cond, qm[g[2][0]], qm[g[2][1]]))
            else:
                self.expand(g[1], [ev(e, env) for e in g[2]], [qm[a] for a in g[3]], cond)


# dense evaluation ---------------------------------------------------------------------------------
def u_mat(theta, phi, lam):
    """U(theta,phi,lambda) := Rz(phi) Ry(theta) Rz(lambda)  (the paper's definition); evaluated as the
    product so that no two angles are added in floating point (huge angles keep their meaning)"""
    def rz(a):
        return np.array([[np.exp(-1j * a / 2), 0], [0, np.exp(1j * a / 2)]])
    c, s = math.cos(theta / 2), math.sin(theta / 2)
    ry = np.array([[c, -s], [s, c]], dtype=complex)
    return rz(phi) @ ry @ rz(lam)


def embed1(U, q, n):
    """qubit 0 is the most significant factor"""
    M = np.array([[1.0 + 0j]])
    for i in range(n):
        M = np.kron(M, U if i == q else np.eye(2))
    return M


def cx_mat(a, b, n):
    D = 2 ** n
    M = np.zeros((D, D), dtype=complex)
    for x in range(D):
        bits = [(x >> (n - 1 - i)) & 1 for i in range(n)]
        if bits[a]:
            bits[b] ^= 1
        y = sum(bit << (n - 1 - i) for i, bit in enumerate(bits))
        M[y, x] = 1
    return M


def cond_holds(cond, cbits):
    if cond is None:
        return True
    bits, k = cond
    return sum(cbits[b] << i for i, b in enumerate(bits)) == k


def segments(ops):
    """split at measurements: [ [gate ops], ("measure", cond, q, c), [gate ops], ... ]"""
    out, cur = [], []
    for o in ops:
        if o[0] == "measure":
            out.append(cur)
            out.append(o)
            cur = []
        elif o[0] != "barrier":
            cur.append(o)
    out.append(cur)
    return out


def segment_unitary(seg, n, cbits):
    D = 2 ** n
    M = np.eye(D, dtype=complex)
    for o in seg:
        if not cond_holds(o[1], cbits):
            continue
        if o[0] == "U":
            M = embed1(u_mat(*o[2]), o[3], n) @ M
        else:
            M = cx_mat(o[2], o[3], n) @ M
    return M


def phase_equal(A, B, tol=1e-9):
    """A = e^{i a} B for one global phase"""
    A, B = np.asarray(A), np.asarray(B)
    if A.shape != B.shape:
        return False
    i = np.unravel_index(np.argmax(np.abs(B)), B.shape)
    if abs(B[i]) < 1e-12:
        return bool(np.allclose(A, B, atol=tol))
    ph = A[i] / B[i]
    if abs(abs(ph) - 1) > 1e-7:
        return False
    return bool(np.allclose(A, ph * B, atol=tol, rtol=0))
