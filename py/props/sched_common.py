"""Shared harness of C05 and C11: the scheduler model (lean/QipVerif/Model/Sched.lean, exe drv_sched)
against qutip_qip.compiler.scheduler, plus the independent numerical oracles on the real code.

Nothing in /repo is modified.  While a schedule runs, two names of the scheduler *module
namespace* are shadowed from here (and restored afterwards):

* `set`      -> a subclass iterating in ascending order.  The code appends freed successors in
                the iteration order of a `set`, which Python leaves unspecified; ascending order
                is one admissible behaviour and the one the executable model takes.  The theorems
                hold for every order.
* `shuffle`  -> a recording / replaying shuffle; the recorded permutations are given to the model.
"""
import itertools, math
from contextlib import contextmanager
import numpy as np

DEN_LOG2 = 20
DEN = 1 << DEN_LOG2          # common denominator of all durations given to the model


def _mods():
    import qutip_qip.compiler.scheduler as S
    from qutip_qip.compiler import Instruction, Scheduler
    from qutip_qip.operations import Gate
    from qutip_qip.circuit import QubitCircuit
    return S, Instruction, Scheduler, Gate, QubitCircuit


class SortedSet(set):
    """a `set` whose iteration order is ascending"""

    def __iter__(self):
        return iter(sorted(set.__iter__(self)))


class ShuffleLog:
    """`random.shuffle` replacement: record (new list = [old[p] for p in perm]) or replay."""

    def __init__(self, rng=None, replay=None):
        self.rng = rng
        self.replay = list(replay) if replay is not None else None
        self.log = []

    def __call__(self, x):
        n = len(x)
        if self.replay is not None:
            if not self.replay:
                raise RuntimeError("shuffle replay exhausted")
            perm = self.replay.pop(0)
            if sorted(perm) != list(range(n)):
                raise RuntimeError("recorded shuffle does not fit the list")
        else:
            perm = list(range(n))
            self.rng.shuffle(perm)
        self.log.append(list(perm))
        x[:] = [x[p] for p in perm]


@contextmanager
def patched(shuffle_log=None, sorted_sets=True):
    S = _mods()[0]
    had_set = "set" in vars(S)
    old_set = vars(S).get("set")
    old_shuffle = S.shuffle
    try:
        if sorted_sets:
            S.set = SortedSet
        if shuffle_log is not None:
            S.shuffle = shuffle_log
        yield
    finally:
        S.shuffle = old_shuffle
        if sorted_sets:
            if had_set:
                S.set = old_set
            else:
                del S.set


# ------------------------------------------------------------------------------------------
# the gate library, placed

# name -> (number of controls, number of targets, number of real parameters)
LIBRARY = {
    "X": (0, 1, 0), "Y": (0, 1, 0), "Z": (0, 1, 0), "RX": (0, 1, 1), "RY": (0, 1, 1), "RZ": (0, 1, 1),
    "H": (0, 1, 0), "SNOT": (0, 1, 0), "SQRTNOT": (0, 1, 0), "S": (0, 1, 0), "T": (0, 1, 0),
    "R": (0, 1, 2), "QASMU": (0, 1, 3),
    "SWAP": (0, 2, 0), "ISWAP": (0, 2, 0), "SQRTSWAP": (0, 2, 0), "SQRTISWAP": (0, 2, 0),
    "SWAPALPHA": (0, 2, 1), "BERKELEY": (0, 2, 0), "MS": (0, 2, 2), "RZX": (0, 2, 1),
    "CNOT": (1, 1, 0), "CSIGN": (1, 1, 0), "CRX": (1, 1, 1), "CRY": (1, 1, 1), "CRZ": (1, 1, 1),
    "CY": (1, 1, 0), "CX": (1, 1, 0), "CZ": (1, 1, 0), "CS": (1, 1, 0), "CT": (1, 1, 0), "CPHASE": (1, 1, 1),
    "TOFFOLI": (2, 1, 0), "FREDKIN": (1, 2, 0),
    "iSWAP": (0, 2, 0), "SWAPalpha": (0, 2, 1),          # other spellings accepted by add_gate (kept as the gate's name)
    "IDLE": (0, 1, 0), "PHASEGATE": (0, 1, 1),           # legacy names resolved by Gate.get_compact_qobj (not in GATE_CLASS_MAP)
}
LEGACY = {"IDLE", "PHASEGATE"}
TARGETS_ONLY = ["TOFFOLI", "FREDKIN"]
EXCHANGE_SYMMETRIC = ["SWAP", "ISWAP", "SQRTSWAP", "SQRTISWAP", "SWAPALPHA", "BERKELEY", "iSWAP", "SWAPalpha"]
ALIASES = {"iSWAP": "ISWAP", "SWAPalpha": "SWAPALPHA"}
# other spellings with the same operator (`aliasOf` of lean/QipVerif/Lemmas/SchedFull.lean); compared on the real library
SAME_OPERATOR = {"H": "SNOT", "CX": "CNOT", "iSWAP": "ISWAP", "SWAPalpha": "SWAPALPHA"}
ORDERED_TARGETS = {"RZX"}          # the only library gate with two targets that are not interchangeable
# one representative per class the scheduler can distinguish (name tests of commutation_rules,
# shape of controls/targets) -- used for the exhaustive length-3 enumeration
CLASS_REPS = ["CNOT", "X", "RX", "Z", "RZ", "QASMU", "SWAP", "CZ", "TOFFOLI", "FREDKIN", "IDLE"]
ONE_QUBIT = [n for n, (nc, nt, _) in LIBRARY.items() if (nc, nt) == (0, 1)]
# names for the "few names" pools of the random generators (many commuting pairs and ties); IDLE on purpose
FEW_NAMES = ["CNOT", "X", "RX", "Z", "RZ", "CZ", "Y", "RY", "SWAP", "TOFFOLI", "CRX", "S", "T", "SNOT", "QASMU", "IDLE",
             "IDLE", "PHASEGATE", "FREDKIN", "ISWAP", "MS"]

ANGLES = [0.3, 1.1, 2.3, 0.7, 1.9, 2.9]


def library_check():
    """names of GATE_CLASS_MAP that this table does not know (reported as a note)"""
    from qutip_qip.operations.gateclass import GATE_CLASS_MAP
    known = set(LIBRARY)
    return sorted(set(GATE_CLASS_MAP) - known), sorted(known - set(GATE_CLASS_MAP) - LEGACY)


_NONTRANS = {}


def nontransitive_triples():
    """Every (A, B, H) of placed library gates on two qubits, all three acting on one common qubit, such that the documented
    commutation rule declares H commuting with A and with B but does NOT declare A and B commuting: the rule is not
    transitive (CNOT(c->q) with X(q) and RX(q); CNOT(q->t) with Z(q) and RZ(q)), so "commutes with one member of the
    qubit's current cycle" does not imply "commutes with all", and the dependency A -> B must still be recorded.  Computed
    from the documented rule (cached per tree variant), as name/targets/controls triples."""
    key = (repr(tree_guards()), self_commuting_names())
    if key not in _NONTRANS:
        pool = [g for g in placements(2) if len(g[1]) + len(g[2]) <= 2]
        spec = [[g[0], g[1], g[2], None] for g in pool]
        out = []
        for h in range(len(pool)):
            partners = [a for a in range(len(pool)) if a != h and used_of(spec[a]) & used_of(spec[h])
                        and documented_rule(spec[h], spec[a])]
            for a in partners:
                for b in partners:
                    if a != b and used_of(spec[a]) & used_of(spec[b]) & used_of(spec[h]) \
                            and not documented_rule(spec[a], spec[b]):
                        out.append((pool[a], pool[b], pool[h]))
        _NONTRANS.clear()
        _NONTRANS[key] = out
    return _NONTRANS[key]


DUR_PATTERNS3 = [(1, 1, 2), (2, 1, 2), (1, 1, 1), (2, 1, 1), (1, 2, 1), (1, 1, 5), (5, 1, 1), (2, 2, 1)]


def nontransitive_shapes(tails=True):
    """all six orders of every non-transitive triple (see nontransitive_triples), optionally followed / preceded by a gate on
    the other qubit that changes the priorities -> sequences of (name, targets, controls)"""
    seen = set()
    for a, b, h in nontransitive_triples():
        for order in itertools.permutations((a, b, h)):
            seqs = [list(order)]
            if tails:
                other = [q for q in (0, 1)]
                for q in other:
                    seqs.append(list(order) + [("SNOT", [q], [])])
                    seqs.append([("SNOT", [q], [])] + list(order))
            for seq in seqs:
                k = repr(seq)
                if k not in seen:
                    seen.add(k)
                    yield seq


def interleave_shapes(full=False):
    """Circuits in which a gate F sits BETWEEN two non-commuting gates on the same qubit (F ranges over every one-qubit
    name of the library, IDLE included, so that a rule or a dependency loop that lets F hide the earlier gate is exposed):
      * G1(0); F(0); G2(0)                                  for non-commuting one-qubit G1, G2
      * G1(0); F(0); C(0,1); F'(1); G2(1)                    through a two-qubit gate (wrong already under plain ASAP)
      * G1(0); F(0); F'(0); G2(0)   and   C(0,1); F(1); G2(1)
    `full`: all ordered pairs (G1, G2) of one-qubit names instead of a few non-commuting ones.  Yields name/targets/controls
    triples (the caller adds parameters, which differ from position to position)."""
    ones = ONE_QUBIT
    pairs = [(a, b) for a in ones for b in ones] if full else \
        [("RX", "RZ"), ("SNOT", "RY"), ("X", "Z"), ("QASMU", "R"), ("RZ", "SNOT"), ("Y", "RX"), ("S", "SQRTNOT")]
    twos = [("CNOT", [1], [0]), ("CNOT", [0], [1]), ("CZ", [1], [0]), ("SWAP", [0, 1], []), ("CRX", [1], [0]),
            ("ISWAP", [0, 1], []), ("MS", [0, 1], [])]
    for a, b in pairs:
        for f in ones:
            yield [(a, [0], []), (f, [0], []), (b, [0], [])]
    short = ["IDLE", "Z", "X", "PHASEGATE", "SNOT", "T"]
    fillers = ones if full else short
    for a, b in pairs[:49] if full else pairs:
        for f in fillers:
            for g in short:
                for c in twos:
                    yield [(a, [0], []), (f, [0], []), c, (g, [1], []), (b, [1], [])]
            yield [(a, [0], []), (f, [0], []), ("IDLE", [0], []), (b, [0], [])]
            for c in twos:
                yield [c, (f, [1], []), (b, [1], [])]


def arg_for(name, k):
    """parameter value of the k-th gate of a sequence: position dependent, so that two
    gates of one family never have equal parameters"""
    npar = LIBRARY[name][2]
    if npar == 0:
        return None
    if npar == 1:
        return ANGLES[k % len(ANGLES)]
    return [ANGLES[(k + i * (k + 1)) % len(ANGLES)] for i in range(npar)]


def placements(N, names=None):
    """every placed gate (name, targets, controls) on N qubits"""
    out = []
    for name in (names if names is not None else LIBRARY):
        nc, nt, _ = LIBRARY[name]
        for cs in itertools.combinations(range(N), nc):
            rest = [q for q in range(N) if q not in cs]
            tgt = itertools.permutations(rest, nt) if name in ORDERED_TARGETS else itertools.combinations(rest, nt)
            for ts in tgt:
                out.append((name, list(ts), list(cs)))
    # the targets-only form in which the library's classes build the three-qubit gates: TOFFOLI([c1, c2, t]),
    # FREDKIN([c, t1, t2]) -- all qubits in `targets`, no controls, the roles encoded in the ORDER of the list
    for name in TARGETS_ONLY:
        if (names is None or name in names) and N >= 3:
            for ts in itertools.permutations(range(N), 3):
                out.append((name, list(ts), []))
                if name == "TOFFOLI":          # TOFFOLI(controls=[c1], targets=[c2, t]): also accepted by the class
                    out.append((name, list(ts[1:]), [ts[0]]))
    # the two qubits of an exchange-symmetric gate split into `controls` and `targets`: SWAP(controls=[a], targets=[b]) is
    # accepted by the two-qubit classes and acts like SWAP([a, b])
    for name in EXCHANGE_SYMMETRIC:
        if (names is None or name in names) and name in LIBRARY and N >= 2:
            for a, b in itertools.permutations(range(N), 2):
                out.append((name, [b], [a]))
    return out


# container forms of `targets` / `controls` on the Gate objects handed to Instruction / Scheduler.schedule:
#   "list"    python lists (the documented form)
#   "npint"   numpy integers: a scalar np.int64 for a single qubit, a list of np.int64 otherwise (class constructors / add_gate)
#   "array1"  bare `Gate(name, targets=np.array([t]), controls=np.array([c]))`: one-element numpy arrays for gates with at most
#             one target and one control (longer lists stay lists)
# Forms the CLEAN tree does not handle are not generated: tuples / ranges (AttributeError: no `.sort`) and numpy arrays with
# two or more elements (`==` in commutation_rules is element-wise: ValueError) -- see notes/C11.md, candidate defect.
# "array1" is used by the oracles only (a one-element array [0] is falsy, so the code's rule is more conservative than for
# the list [0]; the schedules are valid but differ from the model's).
FORMS = ["list", "npint", "array1"]
# object forms of a gate (the scheduler only sees the object's `name`, `targets`, `controls`):
#   "class"   an instance of the exported library class GATE_CLASS_MAP[name] (CRX(...), CY(...), CS(...) are instances of ONE
#             class and all carry the name `_OneControlledGate`; TOFFOLI(...), SWAP(...) carry their class name)
#   "cgate"   for the one-control gates: the generic ControlledGate(controls, targets, control_value=1, target_gate=<class>)
#             (name `ControlledGate`)
#   "bare"    the generic Gate(name, targets=..., controls=...) kept for backward compatibility
# The oracles judge by the matrices of the spec (the operator the object denotes), never by the object's name.
OBJECT_FORMS = ["class", "cgate", "bare"]
CONTROLLED_TARGET = {"CNOT": "X", "CX": "X", "CY": "Y", "CZ": "Z", "CS": "S", "CT": "T", "CRX": "RX", "CRY": "RY", "CRZ": "RZ"}


def make_gate(spec, form="list"):
    """spec = [name, targets, controls, arg]  ->  a Gate object of the library (via QubitCircuit.add_gate); `form`: see FORMS"""
    _, _, _, Gate, QubitCircuit = _mods()
    name, ts, cs, arg = spec
    if name == "GLOBALPHASE":
        return Gate("GLOBALPHASE", arg_value=arg)
    if form == "array1" and len(ts) <= 1 and len(cs) <= 1 and ts:
        return Gate(name, targets=np.array(list(ts)), controls=np.array(list(cs)) if cs else None, arg_value=arg)
    t, c = list(ts), (list(cs) if cs else None)
    if form in OBJECT_FORMS:
        from qutip_qip.operations.gateclass import GATE_CLASS_MAP, ControlledGate
        kw = {} if arg is None else {"arg_value": arg}
        try:
            if form == "bare" or name not in GATE_CLASS_MAP:
                g = Gate(name, targets=t, controls=c, arg_value=arg)
                try:
                    g.get_compact_qobj()        # names the generic class cannot resolve (H, MS, RZX, ...) keep the form by name
                    return g
                except NotImplementedError:
                    raise TypeError
            if form == "cgate" and name in CONTROLLED_TARGET and c is not None and len(c) == 1 and len(t) == 1:
                return ControlledGate(controls=c, targets=t, control_value=1, target_gate=GATE_CLASS_MAP[CONTROLLED_TARGET[name]], **kw)
            if c is not None:
                return GATE_CLASS_MAP[name](controls=c, targets=t, **kw)
            return GATE_CLASS_MAP[name](targets=t, **kw)
        except TypeError:           # a class with another signature: the form by name
            pass
    if form == "npint":
        t = np.int64(t[0]) if len(t) == 1 else [np.int64(x) for x in t]
        if c is not None:
            c = np.int64(c[0]) if len(c) == 1 else [np.int64(x) for x in c]
    if name not in LIBRARY:               # user-defined name: the bare Gate class (scheduler only)
        return Gate(name, targets=t, controls=c, arg_value=arg)
    qc = QubitCircuit(max(list(ts) + list(cs)) + 1)
    qc.add_gate(name, targets=t, controls=c, arg_value=arg)
    return qc.gates[0]


def make_circuit(N, specs):
    _, _, _, Gate, QubitCircuit = _mods()
    qc = QubitCircuit(N)
    for s in specs:
        qc.add_gate(make_gate(s))
    return qc


def make_instructions(specs, durs, form="list"):
    """durs = integer numerators over DEN"""
    _, Instruction, _, _, _ = _mods()
    return [Instruction(make_gate(s, form), duration=d / DEN) for s, d in zip(specs, durs)]


# ------------------------------------------------------------------------------------------
# constructor arguments of Scheduler

# every kind of `method` argument: the two documented strings, other casings, near misses, other strings, non-strings
# (the clean code compares `self.method == "ALAP"` at three places: everything but "ALAP" is silently ASAP)
METHODS_ODD = ["alap", "Alap", "ALAp", "aLAP", "asap", "Asap", "", " ALAP", "ALAP ", "ALAP\n", "ALAPX", "LAP", "foo",
               "\u0391LAP", None, 0, 1, 2.5, True]
METHODS = ["ASAP", "ALAP"] + METHODS_ODD

# constraint_functions: None = default; descriptors "q" qubit_constraint, "a" allow everything, ["f", i, j] forbid the
# ordered pair (called as f(candidate, member, nodes)), "n" forbid equal names.  0-3 functions, qubit_constraint
# first / last / in the middle / absent.
CONS_LISTS = [None, [], ["q"], ["a"], ["n"], [["f", 1, 0]], ["q", "a"], ["a", "q"], ["q", "n"], ["n", "q"], ["a", "n"],
              ["q", ["f", 1, 0]], [["f", 0, 1], "q"], ["a", ["f", 1, 0]], [["f", 2, 0], "a"], ["q", "a", "n"],
              ["a", "n", "q"], ["a", "q", "n"], [["f", 1, 0], "a", "q"], ["a", "n", ["f", 2, 1]], ["a", "a", "a"]]


def cons_has_qubit(cons):
    return cons is None or "q" in cons


def cons_verdict(c, specs, i, j):
    """verdict of one constraint descriptor on the call f(i, j, nodes), evaluated on the specs (independent of the code)"""
    if c == "q":
        return not (used_of(specs[i]) & used_of(specs[j]))
    if c == "a":
        return True
    if c == "n":
        return specs[i][0] != specs[j][0]
    return not (i == c[1] and j == c[2])


def make_constraints(cons):
    """the Python constraint functions of a descriptor list (None -> None: the constructor's default)"""
    if cons is None:
        return None
    S = _mods()[0]
    out = []
    for c in cons:
        if c == "q":
            out.append(S.qubit_constraint)
        elif c == "a":
            out.append(lambda i, j, ins: True)
        elif c == "n":
            out.append(lambda i, j, ins: ins[i].name != ins[j].name)
        else:
            out.append((lambda a, b: (lambda i, j, ins: not (i == a and j == b)))(c[1], c[2]))
    return out


def new_scheduler(method, perm, cons=None):
    _, _, Scheduler, _, _ = _mods()
    if cons is None:
        return Scheduler(method, allow_permutation=perm)
    return Scheduler(method, allow_permutation=perm, constraint_functions=make_constraints(cons))


def enc_method(m):
    if not isinstance(m, str):
        return "mcp=-"
    return "mcp=" + (",".join(str(ord(ch)) for ch in m) if m else "e")


def enc_cons(cons):
    if cons is None:
        return ""
    if not cons:
        return " cons=-"
    return " cons=" + ",".join(c if isinstance(c, str) else f"f{c[1]}.{c[2]}" for c in cons)


# ------------------------------------------------------------------------------------------
# model side

def ins_fields(ins):
    """what the model is told about one instruction, read from the real Instruction object"""
    ts = list(ins.targets) if ins.targets is not None else []
    cs = list(ins.controls) if ins.controls is not None else []
    return ins.name, ts, cs


def self_commuting_names():
    """The module-level set `_SELF_COMMUTING_GATES` of scheduler.py of the tree under test, read with `ast`
    (py/translate/sched.py, never by importing): a frozenset of names, or None when the module has no such set (then
    every same-name pair is subject to the controls/targets test).  The model gets the same set through the regenerated
    lean/QipVerif/Gen/SchedRule.lean; here it only delimits the class of the recorded finding for the oracles."""
    from translate import sched
    names = sched.info()["names"]
    return None if names is None else frozenset(names)


def conflict_fix_flag():
    """1 when `_add_dependency_among_commuting_gates` of the tree under test records conflict edges from the already
    executed instructions (the repair of C11), read with `ast` by py/translate/sched.py; the model reads the same flag
    from the regenerated Gen/SchedRule.lean (`conflictFix`)."""
    from translate import sched
    return 1 if sched.info()["conflict_fix"] else 0


def regenerate():
    """rewrite lean/QipVerif/Gen/SchedRule.lean from the tree under test (set, rule, conflict-edge flag)"""
    from translate import sched
    return sched.regenerate()


def sc_flag(name):
    w = self_commuting_names()
    return 1 if (w is None or name in w) else 0


def tree_guards():
    """the guards `if …: return False` of the same-name part of the tree's commutation_rules, read with `ast`
    (py/translate/sched.py same_name_guards): [{"kind": "set"}, {"kind": "len", "k"} | {"kind": "lensym", "k", "names"}]"""
    from translate import sched
    return sched.info().get("guards") or []


def flag_ok(spec):
    """the tree's rule can declare this gate commuting with a gate of its own name at all (= `Gen.SchedRule.flagged`)"""
    if not sc_flag(spec[0]):
        return False
    for g in tree_guards():
        bad_len = g["kind"] in ("len", "lensym") and (len(spec[1]) > g["k"] if g.get("op", ">") == ">" else len(spec[1]) != g["k"])
        if g["kind"] == "len" and bad_len:
            return False
        if g["kind"] == "lensym" and bad_len and spec[0] not in g["names"]:
            return False
        if g["kind"] == "ctlsym" and spec[2] and spec[0] in g["names"]:
            return False
    return True


def tree_unrepaired():
    """the tree lacks one of the repairs of the commutation rule (no _SELF_COMMUTING_GATES, or no guard on gates given by
    several non-interchangeable targets: fixes/C05-1, C05-2, C05-4): the recorded classes are then skipped by the oracles"""
    return self_commuting_names() is None or not any(g["kind"] == "ctlsym" for g in tree_guards())


def alias_ok():
    """`InstructionsGraph.__init__` of the tree copies every listed instruction separately (fixes/C11-2.patch); without it the
    same Instruction object listed twice becomes ONE node listed twice (shared predecessor sets / distances): TypeError"""
    from translate import sched
    return bool(sched.info().get("alias_ok"))


def aliased_instructions(specs, durs, den, mk=None):
    """Instruction list in which equal (spec, duration) entries are THE SAME Instruction object (`[inst] * k`, `[a, b, a]`)"""
    _, Instruction, _, _, _ = _mods()
    mk = mk or make_gate
    seen, out = {}, []
    for sp, d in zip(specs, durs):
        key = repr((sp, d))
        if key not in seen:
            seen[key] = Instruction(mk(sp), duration=d / den)
        out.append(seen[key])
    return out


def repeat_cycles_ok():
    """the repeat_num loop of the tree's Scheduler.schedule measures a returned cycles LIST by its length (fixes/C05-3.patch);
    without it `return_cycles_list=True, repeat_num>0` raises TypeError"""
    from translate import sched
    return bool(sched.info().get("repeat_cycles_ok"))


def enc_ins(name, ts, cs, dur):
    """the flag `sc` of the model's instruction is computed by the driver from the regenerated set"""
    return f"{name}:{','.join(map(str, ts))}:{','.join(map(str, cs))}:{dur}"


def model_line(method, perm, fields, shuf=None, cons=None):
    """fields = [(name, targets, controls, dur_numerator)]; `method`: any constructor argument; `cons`: descriptor list"""
    line = f"sched {enc_method(method)} perm={1 if perm else 0}{enc_cons(cons)} gates=" + "|".join(enc_ins(*f) for f in fields)
    if shuf:
        line += " shuf=" + ";".join(",".join(map(str, p)) for p in shuf)
    return line        # `Cfg.fx` is `Gen.SchedRule.conflictFix`, regenerated from the tree


def parse_model(ans):
    """-> dict(status, used, cycles, idx, starts, edges)"""
    if not ans.startswith("ok "):
        return {"status": ans}
    out = {"status": "ok"}
    for f in ans[3:].split(" "):
        k, _, v = f.partition("=")
        out[k] = v
    out["used"] = int(out["used"])
    out["cycles"] = [[int(x) for x in c.split(",") if x] for c in out["cycles"].split(";")] if out["cycles"] else []
    out["idx"] = [int(x) for x in out["idx"].split(",") if x]
    out["starts"] = [int(x) for x in out["starts"].split(",") if x]
    out["edges"] = sorted(tuple(int(y) for y in x.split(">")) for x in out["edges"].split(",") if x)
    return out


def classify_exc(e):
    if isinstance(e, ValueError) and ("empty" in str(e)):
        return "err noqubits"          # max() of an empty set of used qubits
    return "other:" + type(e).__name__ + ":" + str(e)[:80]


# ------------------------------------------------------------------------------------------
# implementation side

def impl_schedule(obj, method, perm, shuffle_log=None, scheduler=None, cons=None, **kw):
    """Scheduler(method, allow_permutation=perm).schedule(obj, **kw) with sorted sets and the given
    shuffle recorder; `scheduler`: an existing Scheduler object to be reused (a history of calls on one
    object) instead of a fresh one.  Returns (status, result)."""
    _, _, Scheduler, _, _ = _mods()
    try:
        with patched(shuffle_log):
            sch = scheduler if scheduler is not None else new_scheduler(method, perm, cons)
            r = sch.schedule(obj, **kw)
        return "ok", r
    except Exception as e:      # canonicalised by the caller
        return classify_exc(e), None


# ------------------------------------------------------------------------------------------
# histories: several schedule() calls on ONE Scheduler object
#
# Modelled contract: `Scheduler.schedule` is a function of its arguments, of the two constructor settings and of the
# shuffle outcomes -- the model is stateless, so every call of a history must return what a fresh Scheduler returns.
# A call is a dict
#   {"kind": "gate",  "N", "gates": specs, "shuf": recorded shuffles or None, "repeat": r, "cycles": bool, "as_circuit": bool}
#   {"kind": "pulse", "ins": specs, "durs": numerators, "den", "shuf", "cycles": bool}
# (`cycles`: the call asks for `return_cycles_list=True`), optionally with `"obj": id, "edits": [...]`: the call schedules
# the SAME circuit / list object as the earlier calls with that id, edited in place (see apply_edits).

class SchedulerChain:
    """one Scheduler object per setting, reused for up to `maxlen` consecutive calls; `calls(key)` is the history so far"""

    def __init__(self, maxlen=6):
        self.maxlen = maxlen
        self.obj, self.hist, self.store = {}, {}, {}
        self.ids = 0

    def new_id(self):
        self.ids += 1
        return self.ids

    @staticmethod
    def key(method, perm, cons=None):
        return (repr(method), bool(perm), repr(cons))

    def get(self, method, perm, need=1, cons=None):
        """the Scheduler object to use for the next `need` calls of this setting and the list recording its history"""
        key = self.key(method, perm, cons)
        if key not in self.obj or len(self.hist[key]) + need > self.maxlen:
            self.obj[key] = new_scheduler(method, perm, cons)
            self.hist[key] = []
            self.store[key] = {}
        return self.obj[key], self.hist[key]

    def objects(self, method, perm, cons=None):
        """the persistent circuit / list objects of the current history of this setting"""
        return self.store[self.key(method, perm, cons)]


def apply_edits(L, edits, den=1):
    """edit the list `L` (a list of Gate objects, `QubitCircuit.gates`, or a list of Instruction objects) IN PLACE:
      ["set", i, spec]  ["insert", i, spec]  ["del", i]                 (gate and pulse mode; pulse specs carry the duration:
                                                                          ["set", i, spec, dur])
      ["retarget", i, targets, controls]   re-assign the qubits of the Gate object itself (gate mode)
      ["dur", i, d]                        re-assign the duration of the Instruction object itself (pulse mode)"""
    _, Instruction, _, _, _ = _mods()

    def mk(op):
        return make_gate(op[2]) if len(op) == 3 else Instruction(make_gate(op[2]), duration=op[3] / den)
    for op in edits:
        if op[0] == "set":
            L[op[1]] = mk(op)
        elif op[0] == "insert":
            L.insert(op[1], mk(op))
        elif op[0] == "del":
            del L[op[1]]
        elif op[0] == "retarget":
            L[op[1]].targets = list(op[2])
            L[op[1]].controls = list(op[3]) if op[3] else None
        elif op[0] == "dur":
            L[op[1]].duration = op[2] / den
        else:
            raise ValueError(op)


def edited_specs(specs, edits, durs=None):
    """the content of the object after `edits` (pure; mirrors apply_edits) -> specs  or  (specs, durs)"""
    specs = [list(x) for x in specs]
    durs = list(durs) if durs is not None else None
    for op in edits:
        if op[0] == "set":
            specs[op[1]] = list(op[2])
            if durs is not None:
                durs[op[1]] = op[3]
        elif op[0] == "insert":
            specs.insert(op[1], list(op[2]))
            if durs is not None:
                durs.insert(op[1], op[3])
        elif op[0] == "del":
            del specs[op[1]]
            if durs is not None:
                del durs[op[1]]
        elif op[0] == "retarget":
            specs[op[1]] = [specs[op[1]][0], list(op[2]), list(op[3]), specs[op[1]][3]]
        elif op[0] == "dur":
            durs[op[1]] = op[2]
    return specs if durs is None else (specs, durs)


def random_edits(rng, specs, N, pool, durs=None, dur_choices=None):
    """one or two in-place edits of an object with content `specs` (on N qubits; new gates from the placed `pool`);
    pulse mode when `durs` is given.  -> list of edit operations"""
    edits, cur = [], [list(x) for x in specs]
    cd = list(durs) if durs is not None else None
    for _ in range(rng.choice([1, 1, 2])):
        kinds = ["set", "set", "insert"]
        if len(cur) > 1:
            kinds.append("del")
        if cur:
            kinds.append("retarget" if durs is None else "dur")
        kind = rng.choice(kinds) if cur else "insert"
        if kind in ("set", "insert"):
            n, t, c = rng.choice(pool)
            spec = [n, list(t), list(c), arg_for(n, rng.randrange(6)) if n in LIBRARY else None]
            i = rng.randrange(len(cur) + (kind == "insert")) if cur else 0
            op = [kind, i, spec] + ([rng.choice(dur_choices)] if durs is not None else [])
        elif kind == "del":
            op = ["del", rng.randrange(len(cur))]
        elif kind == "dur":
            op = ["dur", rng.randrange(len(cur)), rng.choice(dur_choices)]
        else:
            i = rng.randrange(len(cur))
            n, t, c, _ = cur[i]
            qs = rng.sample(range(N), len(t) + len(c))
            op = ["retarget", i, qs[:len(t)], qs[len(t):]]
        edits.append(op)
        if durs is None:
            cur = edited_specs(cur, [op])
        else:
            cur, cd = edited_specs(cur, [op], cd)
    return edits


def _content(obj):
    L = obj.gates if hasattr(obj, "gates") else obj
    return [[g.name, sorted(g.targets or []), sorted(g.controls or [])] for g in L]


def run_call(scheduler, call, method, perm, gate_of=None, store=None, log=None):
    """one call of a history on the given Scheduler object -> (status, result).  A call with an `"obj"` key schedules a
    PERSISTENT object of the history (`store[obj]`: a QubitCircuit, a list of Gate objects or a list of Instruction objects,
    built from fresh gate objects at its first use) after editing it in place by `call["edits"]`; `call["gates"]` /
    `call["ins"]`, `call["durs"]` is its content at the time of the call."""
    _, Instruction, _, _, _ = _mods()
    mk = gate_of or make_gate
    if log is None:             # `log`: a recording ShuffleLog of the caller (the correspondence) instead of a replay
        log = ShuffleLog(replay=call["shuf"]) if call.get("shuf") is not None else None
    kw = {}
    if call.get("cycles"):
        kw["return_cycles_list"] = True
    pulse = call["kind"] != "gate"
    specs = call["ins"] if pulse else call["gates"]
    if call.get("obj") is not None and store is not None:
        key = call["obj"]
        try:
            if key not in store:
                if pulse:
                    store[key] = [Instruction(make_gate(s), duration=d / call["den"]) for s, d in zip(specs, call["durs"])]
                elif call.get("as_circuit"):
                    store[key] = make_circuit(call["N"], specs)
                else:
                    store[key] = [make_gate(s) for s in specs]
            else:
                o = store[key]
                apply_edits(o.gates if hasattr(o, "gates") else o, call.get("edits") or [], call.get("den", 1))
        except Exception as e:          # constructors of the library are part of the code under test
            return "other:" + type(e).__name__, None
        obj = store[key]
        if _content(obj) != [[s[0], sorted(s[1]), sorted(s[2])] for s in specs]:
            raise AssertionError("harness: the edited object does not have the recorded content")
    elif pulse:
        try:
            if call.get("alias"):
                obj = aliased_instructions(specs, call["durs"], call["den"], mk)
            else:
                obj = [Instruction(mk(s), duration=d / call["den"]) for s, d in zip(specs, call["durs"])]
        except Exception as e:
            return "other:" + type(e).__name__, None
    elif not specs:
        obj = []
    elif call.get("as_circuit"):
        obj = make_circuit(call["N"], specs)
    else:
        obj = [mk(s) for s in specs]
    if pulse:
        kw["random_shuffle"] = log is not None
    elif call.get("repeat"):
        kw["repeat_num"] = call["repeat"]
    else:
        kw["random_shuffle"] = log is not None
    return impl_schedule(obj, method, perm, log, scheduler=scheduler, **kw)


# cross-object histories: several Scheduler objects in one process.  A witness {"steps": [...]} is a list of
#   {"op": "new", "id": k, "method", "perm", "cons"}         create scheduler k (cons None = the constructor's default)
#   {"op": "mutate", "id": k, "what": "clear" | "append_a" | "pop" | "method:<m>" | "perm:<0|1>" | ["assign", cons]}
#                                                            edit a PUBLIC attribute of scheduler k in place
#   {"op": "call", "id": k, "call": <history call>}          schedule() on scheduler k
# Contract: a freshly constructed Scheduler behaves like one in a fresh process, whatever was done to earlier objects; a
# mutated scheduler behaves like one constructed with its current attributes (`effective`).

def apply_mutation(sch, eff, what):
    """edit scheduler `sch` in place; `eff` = {"method", "perm", "cons"} is updated to the settings it now has"""
    S = _mods()[0]
    if what == "clear":
        sch.constraint_functions.clear()
        eff["cons"] = []
    elif what == "append_a":
        sch.constraint_functions.append(lambda i, j, ins: True)
        eff["cons"] = (["q"] if eff["cons"] is None else list(eff["cons"])) + ["a"]
    elif what == "pop":
        if sch.constraint_functions:
            sch.constraint_functions.pop()
        cur = ["q"] if eff["cons"] is None else list(eff["cons"])
        eff["cons"] = cur[:-1]
    elif isinstance(what, list) and what[0] == "assign":      # constraint_functions re-assigned to a new list
        sch.constraint_functions = make_constraints(what[1]) if what[1] is not None else [S.qubit_constraint]
        eff["cons"] = what[1]
    elif what.startswith("method:"):
        sch.method = what[7:]
        eff["method"] = what[7:]
    elif what.startswith("perm:"):
        sch.allow_permutation = what[5:] == "1"
        eff["perm"] = what[5:] == "1"
    else:
        raise ValueError(what)


def run_steps(steps, form="list"):
    """-> list of (call, effective settings at the time of the call, status, result) for the call steps"""
    scheds, effs, stores, out, orig = {}, {}, {}, [], []
    mk = (lambda sp: make_gate(sp, form))
    try:
        for st in steps:
            k = st["id"]
            if st["op"] == "new":
                scheds[k] = new_scheduler(st["method"], st["perm"], st.get("cons"))
                effs[k] = {"method": st["method"], "perm": st["perm"], "cons": st.get("cons")}
                stores[k] = {}
                orig.append((scheds[k].constraint_functions, list(scheds[k].constraint_functions)))
            elif st["op"] == "mutate":
                apply_mutation(scheds[k], effs[k], st["what"])
            else:
                status, r = run_call(scheds[k], st["call"], effs[k]["method"], effs[k]["perm"], gate_of=mk, store=stores[k])
                out.append((st["call"], dict(effs[k]), status, r))
    finally:
        # leave the process as it was: every list object that served as some scheduler's constraint_functions gets its
        # content at creation time back, IN PLACE (on a tree where schedulers share a list, the shared list is restored;
        # the history itself is self-contained and reproduces in a fresh process)
        for lst, content in reversed(orig):
            lst[:] = content
    return out


def cross_object_steps(rng, make_call, cons_choices=(None, None, None, ["q"], ["q", "a"])):
    """random cross-object history: scheduler 0 is used, then one of its public attributes is edited in place, then a NEW
    scheduler (mostly default-constructed) is created and used; sometimes scheduler 0 is used again afterwards"""
    m0, m1 = rng.choice(["ASAP", "ALAP"]), rng.choice(["ASAP", "ALAP"])
    steps = [{"op": "new", "id": 0, "method": m0, "perm": rng.random() < 0.6, "cons": rng.choice(cons_choices)}]
    if rng.random() < 0.7:
        steps.append({"op": "call", "id": 0, "call": make_call()})
    for _ in range(rng.randint(1, 2)):
        steps.append({"op": "mutate", "id": 0, "what": rng.choice(
            ["clear", "clear", "append_a", "pop", "method:ALAP", "method:ASAP", "perm:0", "perm:1", "perm:1",
             ["assign", ["q"]], ["assign", ["a", "q"]], ["assign", None]])})
    if rng.random() < 0.6:          # attribute-edit history on ONE object: the edited scheduler itself is used again
        steps.append({"op": "call", "id": 0, "call": make_call()})
    steps.append({"op": "new", "id": 1, "method": m1, "perm": rng.random() < 0.7, "cons": rng.choice(cons_choices)})
    steps.append({"op": "call", "id": 1, "call": make_call()})
    if rng.random() < 0.5:
        steps.append({"op": "call", "id": 0, "call": make_call()})
    return steps


def cycles_of(call, result):
    """the cycles list of a gate-mode result (the list itself, or derived from gate_cycle_indices)"""
    if call.get("cycles"):
        return result
    idx = list(result)
    return [[i for i, c in enumerate(idx) if c == k] for k in range(max(idx) + 1)] if idx else []


def impl_edges(instrs, perm):
    """dependency edges of generate_dependency_graph on the real code"""
    S, _, Scheduler, _, _ = _mods()
    with patched(None):
        g = S.InstructionsGraph(instrs)
        sch = Scheduler("ASAP", allow_permutation=perm)
        comm = sch.commutation_rules if perm else (lambda *a, **k: False)
        g.generate_dependency_graph(commuting=comm)
        return sorted((i, j) for i, nd in enumerate(g.nodes) for j in set.__iter__(nd.successors))


def exact_num(x):
    """float start time -> exact integer numerator over DEN (None if not representable)"""
    v = x * DEN
    if v != math.floor(v):
        return None
    return int(v)


# ------------------------------------------------------------------------------------------
# dense unitaries of the real gate library (oracle)

_UCACHE = {}


def gate_matrix(spec, N):
    key = (spec[0], tuple(spec[1]), tuple(spec[2]), repr(spec[3]), N)
    m = _UCACHE.get(key)
    if m is None:
        g = make_gate(spec)
        m = np.asarray(g.get_qobj(num_qubits=N, dims=[2] * N).full(), dtype=complex)
        if len(_UCACHE) > 20000:
            _UCACHE.clear()
        _UCACHE[key] = m
    return m


def product(specs, order, N):
    """unitary of executing specs[order[0]], specs[order[1]], ... in this order"""
    U = np.eye(2 ** N, dtype=complex)
    for i in order:
        U = gate_matrix(specs[i], N) @ U
    return U


def used_of(spec):
    return set(spec[1]) | set(spec[2])


def known_class_pair(specs, N):
    """The class of the recorded known finding of C05, described independently of the code under test:
    two gates of the SAME name with equal (sorted) targets, or equal non-empty (sorted) controls, whose
    unitaries do not commute (families that do not commute with themselves: QASMU, R, MS, FREDKIN, ...).
    commutation_rules declares such a pair commuting; hypothesis H2 of schedule_den_partial excludes it.
    Returns the first such pair (i, j) or None.  On a tree that carries the repair (`_SELF_COMMUTING_GATES`
    exists) nothing is excluded: a declared-commuting pair that does not commute is then a violation."""
    if self_commuting_names() is not None:
        if not tree_unrepaired():
            return None
        # tree without the guard on gates given by several non-interchangeable targets: the class of the findings repaired by
        # fixes/C05-2 / C05-4 -- two same-name gates of the set, one of them with more than one target, which the rule of THIS
        # tree declares commuting (equal sorted targets or equal controls: Instruction has sorted the list that encodes the
        # roles of the qubits) but which do not commute: TOFFOLI([0,1,2]) / TOFFOLI([0,2,1]),
        # TOFFOLI(controls=[0], targets=[1,2]) / TOFFOLI(controls=[0], targets=[2,1])
        for i in range(len(specs)):
            for j in range(i + 1, len(specs)):
                a, b = specs[i], specs[j]
                if a[0] == b[0] and (len(a[1]) != 1 or len(b[1]) != 1 or (a[2] and b[2] and len(a[2]) == 1 and
                                                                          a[0] in EXCHANGE_SYMMETRIC)) \
                        and used_of(a) & used_of(b) and documented_rule(a, b):
                    A, B = gate_matrix(a, N), gate_matrix(b, N)
                    if np.abs(A @ B - B @ A).max() > 1e-9:
                        return (i, j)
        return None
    for i in range(len(specs)):
        for j in range(i + 1, len(specs)):
            a, b = specs[i], specs[j]
            if a[0] != b[0] or not (used_of(a) & used_of(b)) or not sc_flag(a[0]):
                continue
            same_t = sorted(a[1]) == sorted(b[1])
            same_c = bool(a[2]) and sorted(a[2]) == sorted(b[2])
            if not (same_t or same_c):
                continue
            A, B = gate_matrix(a, N), gate_matrix(b, N)
            if np.abs(A @ B - B @ A).max() > 1e-9:
                return (i, j)
    return None


def truly_commute(a, b):
    """Do the two gates commute as operators?  Decided from the real library's matrices (dense, on a register just
    large enough for both), independently of the scheduler's rule."""
    N = max(used_of(a) | used_of(b)) + 1
    A, B = gate_matrix(a, N), gate_matrix(b, N)
    return bool(np.abs(A @ B - B @ A).max() <= 1e-9)


def documented_rule(a, b):
    """Fixed reference copy of the DOCUMENTED commutation rule (= QipVerif.C05.comm_rule_table), on specs
    [name, targets, controls, arg].  It is never compared with the code here; it only *describes* the class
    "pairs declared commuting" of the recorded known findings, independently of the code under test (the only
    thing read from the tree is its literal list of self-commuting names, `self_commuting_names`)."""
    na, nb = a[0], b[0]
    ta, tb, ca, cb = sorted(a[1]), sorted(b[1]), sorted(a[2]), sorted(b[2])
    if na != nb:
        (x, tx, cx), (y, ty, cy) = sorted([(na, ta, ca), (nb, tb, cb)], key=lambda z: z[0])
        if x == "CNOT" and y in ("X", "RX"):
            return tx == ty
        if x == "CNOT" and y in ("Z", "RZ"):
            return cx == ty
        return False
    return bool(flag_ok(a) and flag_ok(b)) and (bool(ca and ca == cb) or ta == tb)
