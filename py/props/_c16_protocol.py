"""C16 — object-protocol facts the models rely on.

The models treat circuits, gates, measurements, instructions, pulses (and the simulator / processor objects) as plain
objects: always truthy, compared and hashed by identity, without a length.  Library code is full of `if qc:` /
`if gate in …` / dict keys of such objects, so an ADDED `__len__` / `__bool__` / `__eq__` / `__hash__` changes behaviour
without changing any pinned function.  `pins/protocol.json` records, for each class, the dunder names its class body
defines on the clean tree, and a few behavioural facts; every check compares.

    PYTHONPATH=py:$VERIF_REPO/src /venv/bin/python py/props/_c16_protocol.py --write     # regenerate on the clean tree
"""
import json, os, sys

CLASSES = [("qutip_qip.circuit", "QubitCircuit"), ("qutip_qip.circuit", "CircuitSimulator"),
           ("qutip_qip.circuit", "CircuitResult"), ("qutip_qip.operations", "Gate"), ("qutip_qip.operations", "Measurement"),
           ("qutip_qip.operations", "X"), ("qutip_qip.operations", "CNOT"), ("qutip_qip.compiler", "Instruction"),
           ("qutip_qip.compiler", "Scheduler"), ("qutip_qip.compiler", "GateCompiler"), ("qutip_qip.pulse", "Pulse"),
           ("qutip_qip.pulse", "Drift"), ("qutip_qip.device", "Processor"), ("qutip_qip.device", "ModelProcessor"),
           ("qutip_qip.noise", "Noise")]
IGNORED = {"__module__", "__doc__", "__dict__", "__weakref__", "__qualname__", "__firstlineno__", "__static_attributes__",
           "__annotations__", "__annotate__", "__annotations_cache__",
           "__slotnames__"}       # (__slotnames__: cache written by copy / pickle)


def path():
    here = os.path.dirname(os.path.dirname(os.path.dirname(os.path.abspath(__file__))))
    return os.path.join(here, "pins", "protocol.json")


def measure():
    import importlib
    out = {"dunders": {}, "facts": {}}
    for mod, name in CLASSES:
        cls = getattr(importlib.import_module(mod), name)
        out["dunders"][mod + "." + name] = sorted(k for k in vars(cls) if k.startswith("__") and k.endswith("__")
                                                 and k not in IGNORED)
    from qutip_qip.circuit import QubitCircuit
    from qutip_qip.operations import Gate, Measurement
    qc = QubitCircuit(2)
    g1, g2 = Gate("X", targets=[0]), Gate("X", targets=[0])
    m = Measurement("M", targets=[0])
    out["facts"] = {
        "bool(empty QubitCircuit)": bool(qc),
        "empty QubitCircuit has len()": hasattr(qc, "__len__"),
        "two equal Gate objects compare equal": bool(g1 == g2),
        "Gate is hashable": _hashable(g1),
        "bool(Gate)": bool(g1), "bool(Measurement)": bool(m),
        "QubitCircuit equals itself only": bool(qc == qc) and not bool(qc == QubitCircuit(2)),
    }
    return out


def _hashable(x):
    try:
        hash(x)
        return True
    except TypeError:
        return False


def differences():
    """-> list of human-readable differences between the recorded protocol and the tree under test"""
    rec = json.load(open(path()))
    now = measure()
    out = []
    for cls, names in rec["dunders"].items():
        cur = now["dunders"].get(cls)
        if cur is None:
            out.append(f"class {cls} not found")
            continue
        added, gone = sorted(set(cur) - set(names)), sorted(set(names) - set(cur))
        if added:
            out.append(f"{cls} now defines {added}")
        if gone:
            out.append(f"{cls} no longer defines {gone}")
    for k, v in rec["facts"].items():
        if now["facts"].get(k) != v:
            out.append(f"{k}: recorded {v}, now {now['facts'].get(k)}")
    return out


if __name__ == "__main__":
    if "--write" in sys.argv:
        json.dump(measure(), open(path(), "w"), indent=1, sort_keys=True)
        print("written", path())
    else:
        d = differences()
        print("\n".join(d) if d else "object protocol unchanged")
