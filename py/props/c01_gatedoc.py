"""The library gates' DEFINING matrices for the C01 oracle — transcribed from the documentation
(class docstrings of operations/gateclass.py, function docstrings of operations/gates.py, and the standard
definitions they cite), NOT computed by any function of qutip_qip.  Nothing here imports qutip or qutip_qip.

Convention (gateclass.Gate.get_compact_qobj docstring): "the first few qubits are controls, then targets";
the first qubit is the most significant digit of the row/column index.

DOC[name](arg) -> complex ndarray, arg = the gate's arg_value (None for fixed gates, a float, or a tuple).
"""
import numpy as np

_I2 = np.eye(2, dtype=complex)
_X = np.array([[0, 1], [1, 0]], dtype=complex)
_Y = np.array([[0, -1j], [1j, 0]], dtype=complex)
_Z = np.array([[1, 0], [0, -1]], dtype=complex)


def _c(t):
    return np.cos(t / 2.0)


def _s(t):
    return np.sin(t / 2.0)


def rx(t):
    """RX docstring:  [[cos t/2, -i sin t/2], [-i sin t/2, cos t/2]]"""
    return np.array([[_c(t), -1j * _s(t)], [-1j * _s(t), _c(t)]], dtype=complex)


def ry(t):
    """RY docstring:  [[cos t/2, -sin t/2], [sin t/2, cos t/2]]"""
    return np.array([[_c(t), -_s(t)], [_s(t), _c(t)]], dtype=complex)


def rz(t):
    """RZ docstring:  diag(e^{-i t/2}, e^{+i t/2})   (period 4 pi)"""
    return np.array([[np.exp(-0.5j * t), 0], [0, np.exp(0.5j * t)]], dtype=complex)


def phasegate(t):
    """PHASEGATE docstring: diag(1, e^{i t})"""
    return np.array([[1, 0], [0, np.exp(1j * t)]], dtype=complex)


def qrot(a):
    """R docstring: [[cos th/2, -i e^{-i phi} sin th/2], [-i e^{i phi} sin th/2, cos th/2]], arg = (theta, phi)"""
    th, ph = a
    return np.array([[_c(th), -1j * np.exp(-1j * ph) * _s(th)], [-1j * np.exp(1j * ph) * _s(th), _c(th)]], dtype=complex)


def qasmu(a):
    """QASMU docstring: U(theta, phi, gamma) = RZ(phi) RY(theta) RZ(gamma), arg = (theta, phi, gamma)"""
    th, ph, ga = a
    return rz(ph) @ ry(th) @ rz(ga)


def ctrl(u):
    """|0><0| (x) 1 + |1><1| (x) u   (one control, first qubit)"""
    k = u.shape[0]
    m = np.eye(2 * k, dtype=complex)
    m[k:, k:] = u
    return m


def ctrl_value(u, nc, value):
    """Gate docstring, `control_value`: "the decimal value of controlling bits for executing the unitary operator on
    the target qubits ... if the gate should be executed when the two bits are 1 and 0, control_value=2" — the
    `nc` controls come first (most significant), `u` acts on the targets iff the control bits spell `value`."""
    k = u.shape[0]
    m = np.eye((2 ** nc) * k, dtype=complex)
    m[value * k:(value + 1) * k, value * k:(value + 1) * k] = u
    return m


def _perm(n, swaps):
    m = np.eye(n, dtype=complex)
    for a, b in swaps:
        m[[a, b]] = m[[b, a]]
    return m


_S = np.array([[1, 0], [0, 1j]], dtype=complex)
_T = np.array([[1, 0], [0, np.exp(1j * np.pi / 4)]], dtype=complex)
_H = np.array([[1, 1], [1, -1]], dtype=complex) / np.sqrt(2.0)
_SQRTNOT = 0.5 * np.array([[1 + 1j, 1 - 1j], [1 - 1j, 1 + 1j]], dtype=complex)
_SWAP = _perm(4, [(1, 2)])
_ISWAP = np.array([[1, 0, 0, 0], [0, 0, 1j, 0], [0, 1j, 0, 0], [0, 0, 0, 1]], dtype=complex)
_SQRTSWAP = np.array([[1, 0, 0, 0], [0, 0.5 + 0.5j, 0.5 - 0.5j, 0], [0, 0.5 - 0.5j, 0.5 + 0.5j, 0], [0, 0, 0, 1]], dtype=complex)
_r = 1 / np.sqrt(2.0)
_SQRTISWAP = np.array([[1, 0, 0, 0], [0, _r, 1j * _r, 0], [0, 1j * _r, _r, 0], [0, 0, 0, 1]], dtype=complex)
_c1, _s1, _c3, _s3 = np.cos(np.pi / 8), np.sin(np.pi / 8), np.cos(3 * np.pi / 8), np.sin(3 * np.pi / 8)
# berkeley() docstring
_BERKELEY = np.array([[_c1, 0, 0, 1j * _s1], [0, _c3, 1j * _s3, 0], [0, 1j * _s3, _c3, 0], [1j * _s1, 0, 0, _c1]], dtype=complex)


def swapalpha(al):
    """swapalpha() docstring"""
    e = np.exp(1j * np.pi * al)
    return np.array([[1, 0, 0, 0], [0, 0.5 * (1 + e), 0.5 * (1 - e), 0], [0, 0.5 * (1 - e), 0.5 * (1 + e), 0], [0, 0, 0, 1]],
                    dtype=complex)


def ms(a):
    """MS docstring, arg = (theta, phi)"""
    th, ph = a
    return np.array([[_c(th), 0, 0, -1j * np.exp(-2j * ph) * _s(th)],
                     [0, _c(th), -1j * _s(th), 0],
                     [0, -1j * _s(th), _c(th), 0],
                     [-1j * np.exp(2j * ph) * _s(th), 0, 0, _c(th)]], dtype=complex)


def rzx(t):
    """RZX docstring"""
    return np.array([[_c(t), -1j * _s(t), 0, 0], [-1j * _s(t), _c(t), 0, 0],
                     [0, 0, _c(t), 1j * _s(t)], [0, 0, 1j * _s(t), _c(t)]], dtype=complex)


DOC = {
    "X": lambda a: _X, "Y": lambda a: _Y, "Z": lambda a: _Z, "S": lambda a: _S, "T": lambda a: _T,
    "SNOT": lambda a: _H, "SQRTNOT": lambda a: _SQRTNOT, "IDLE": lambda a: _I2,
    "RX": rx, "RY": ry, "RZ": rz, "PHASEGATE": phasegate, "R": qrot, "QASMU": qasmu,
    "CNOT": lambda a: ctrl(_X), "CY": lambda a: ctrl(_Y), "CZ": lambda a: ctrl(_Z), "CSIGN": lambda a: ctrl(_Z),
    "CS": lambda a: ctrl(_S), "CT": lambda a: ctrl(_T),
    "CRX": lambda t: ctrl(rx(t)), "CRY": lambda t: ctrl(ry(t)), "CRZ": lambda t: ctrl(rz(t)),
    "CPHASE": lambda t: ctrl(phasegate(t)),
    "SWAP": lambda a: _SWAP, "ISWAP": lambda a: _ISWAP, "SQRTSWAP": lambda a: _SQRTSWAP, "SQRTISWAP": lambda a: _SQRTISWAP,
    "BERKELEY": lambda a: _BERKELEY, "SWAPalpha": swapalpha, "MS": ms, "RZX": rzx,
    "FREDKIN": lambda a: _perm(8, [(5, 6)]),      # control, then the two swapped targets
    "TOFFOLI": lambda a: _perm(8, [(6, 7)]),      # two controls, then the target
}


def doc_matrix(name, arg_value):
    """the documented compact matrix of a library gate; KeyError for a name without a documented matrix"""
    return np.array(DOC[name](arg_value), dtype=complex)
