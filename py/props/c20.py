"""C20 — text drawings of circuits.  Correspondence of lean/QipVerif/Model/Render.lean with
QubitCircuit.draw("text", **style) (exact string equality of every printed row), plus the
property's clauses evaluated directly on the strings the real code prints (the oracle)."""
import ast, atexit, contextlib, io, itertools, os, re, shutil, tempfile, time
from fractions import Fraction

from vlib.core import PropertyCheck, TranslatorError
from vlib import paths

# ------------------------------------------------------------------------------------------
# witnesses: {"N":…, "C":…, "style": {...}, "ops": [op, …]}
#   gate op : {"k":"g","name":str,"label":str|None,"t":[…],"c":[…]|None,"cc":[…]|None,"raw":bool}
#             raw = built with the base class Gate (user gates, unusual shapes); otherwise add_gate(name)
#   meas op : {"k":"m","t":[…],"s":int|None}      s = None: classical_store=None (the result is not stored)
#   global  : {"k":"G","name":str,"label":str|None}   gate with targets = controls = None (GLOBALPHASE)
#   object form of an element (how it gets into the circuit; the model does not see it): op["form"] in FORMS_G / FORMS_M
#   (default: "gate" if raw else "name"), op["cont"] in CONTS = container / index types of targets, controls, classical_store,
#   op["cv"] = control_value (ControlledGate) — see make_obj
#   live-object history: w["ops0"] = the circuit at the FIRST drawing, w["edits"] = what is then done to the live objects
#   (re-assigned fields, appended / inserted / removed elements) — w["ops"] is the circuit at the SECOND drawing, the one
#   the model sees; w["reuse"] in REUSE = how the second drawing is made (see impl_draw_saved)
#   w["before"] = [witness, …]: OTHER circuits drawn earlier in the same process (nothing of them may influence the drawing)
# style keys given to draw(): gate_pad, end_wire_ext, align_layer, wire_label and "ignored" = dict of
# StyleConfig fields the text renderer does not read (passed to the code, not to the model).

ARGV = {"RX": 0.5, "RY": 0.5, "RZ": 0.5, "R": [0.5, 0.25], "QASMU": [0.5, 0.25, 0.125], "SWAPALPHA": 0.5,
        "MS": [0.5, 0.25], "RZX": 0.5, "CPHASE": 0.5, "CRX": 0.5, "CRY": 0.5, "CRZ": 0.5}
LIB_1Q = ["X", "Y", "Z", "H", "SNOT", "S", "T", "SQRTNOT", "RX", "RY", "RZ", "R", "QASMU"]
LIB_2T = ["SWAP", "ISWAP", "SQRTSWAP", "SQRTISWAP", "BERKELEY", "SWAPALPHA", "MS", "RZX"]
LIB_1C1T = ["CNOT", "CX", "CY", "CZ", "CS", "CT", "CSIGN", "CPHASE", "CRX", "CRY", "CRZ"]
STYLE_READ = {"gate_pad", "wire_label", "end_wire_ext", "align_layer", "gate_margin"}
# attributes of the circuit elements the model has (`classical_controls` is NOT among them: a
# classically controlled gate is drawn as the plain gate)
GATE_READ = {"targets", "controls", "name", "arg_label", "classical_store"}
GLYPHS = set("┤├█│┴┬╳╥║╩╨─═┌┐└┘")


# ------------------------------------------------------------------------------------------
# which of the repairs (fixes/C20-1..4) does the working tree contain?  (AST, formatting independent)
VARIANT = {"spanFix": False, "insideNode": False, "globalBox": False, "measBox": False, "resetLayout": False}   # set by C20.regenerate
RECOGNISED = [True]      # False: the tree is none of the 16 variants; the sweeps then cover the whole domain
_SPAN_OLD = ["sorted_controls[-1] > sorted_targets[0]", "sorted_controls[0] < sorted_targets[-1]",
             "wire not in gate.targets",
             "sorted_controls[-1] > sorted_targets[0]", "sorted_controls[0] < sorted_targets[-1]"]
_SPAN_NEW = ["sorted_controls[-1] > sorted_targets[-1]", "sorted_controls[0] < sorted_targets[0]",
             "not first_target <= wire <= last_target",
             "sorted_controls[-1] > sorted_targets[-1]", "sorted_controls[0] < sorted_targets[0]"]


def detect_variant():
    """(variant, problems): the variant of the tree, and what was not recognised (then the flag in
    question is the nearest guess, so that the correspondence still localises the difference)."""
    problems = []
    path = os.path.join(paths.REPO, "src", "qutip_qip", "circuit", "text_renderer.py")
    try:
        tree = ast.parse(open(path, encoding="utf-8").read())
    except Exception as e:
        raise TranslatorError(f"cannot parse {path}: {e}")
    fns = {n.name: n for n in ast.walk(tree) if isinstance(n, ast.FunctionDef)}
    for need in ("_draw_multiq_gate", "_update_qbridge", "_update_target_multiq", "layout"):
        if need not in fns:
            raise TranslatorError("TextRenderer." + need + " not found")
    seen = []
    # the two marks of the box frame
    for glyph in ("┴", "┬"):
        t = [ast.unparse(n.test) for n in ast.walk(fns["_draw_multiq_gate"]) if isinstance(n, ast.IfExp)
             and any(isinstance(k, ast.Constant) and k.value == glyph for k in ast.walk(n.body))]
        seen.append(t[0] if len(t) == 1 else "?")
    # the wires the bridge pass leaves out
    loops = [n for n in ast.walk(fns["_update_qbridge"]) if isinstance(n, ast.For)]
    if len(loops) != 1 or not isinstance(loops[0].body[0], ast.If):
        raise TranslatorError("_update_qbridge: loop over the bridge wires not recognised")
    seen.append(ast.unparse(loops[0].body[0].test))
    # is_top / is_bot of layout
    for nm in ("is_top", "is_bot"):
        v = [ast.unparse(n.value) for n in ast.walk(fns["layout"]) if isinstance(n, ast.Assign)
             and len(n.targets) == 1 and isinstance(n.targets[0], ast.Name) and n.targets[0].id == nm]
        seen.append(v[0] if len(v) == 1 else "?")
    if seen == _SPAN_OLD:
        span = False
    elif seen == _SPAN_NEW:
        span = True
    else:
        span = sum(a == b for a, b in zip(seen, _SPAN_NEW)) >= sum(a == b for a, b in zip(seen, _SPAN_OLD))
        problems.append("box-span tests of the text renderer not recognised: " + repr(seen))
    # node of a control between the targets
    nodes = [n for n in ast.walk(fns["_update_target_multiq"]) if isinstance(n, ast.Constant) and n.value == "█"]
    tests = [ast.unparse(n.test) for n in ast.walk(fns["_update_target_multiq"]) if isinstance(n, ast.If)]
    if not nodes:
        inside = False
    elif "gate.controls and wire in gate.controls" in tests:
        inside = True
    else:
        inside = True
        problems.append("_update_target_multiq draws a node under an unrecognised condition")
    # gate without targets
    gtests = [ast.unparse(n.test) for n in ast.walk(fns["layout"]) if isinstance(n, ast.If)]
    glob = "gate.targets is None and gate.controls is None" in gtests
    # measurement without classical_store (fixes/C20-4): three places
    if "_draw_measurement_gate" not in fns:
        raise TranslatorError("TextRenderer._draw_measurement_gate not found")
    mtests = [ast.unparse(n.test) for n in ast.walk(fns["_draw_measurement_gate"]) if isinstance(n, ast.If)]
    m_seen = ["measurement.classical_store is None" in mtests, "gate.classical_store is None" in gtests,
              "gate.classical_store is not None" in gtests]
    # every other mention of classical_store must be one of the shipped ones
    if all(m_seen):
        meas = True
    elif not any(m_seen):
        meas = False
    else:
        meas = sum(m_seen) >= 2
        problems.append("handling of classical_store=None in the text renderer not recognised: " + repr(m_seen))
    # does layout() start from empty rows (fixes/C20-5)?
    body = [n for n in fns["layout"].body if not (isinstance(n, ast.Expr) and isinstance(n.value, ast.Constant))]
    first = ast.unparse(body[0]) if body else ""
    writes = [n for n in ast.walk(fns["layout"]) if isinstance(n, (ast.Assign, ast.AugAssign)) and any(
        isinstance(t, ast.Attribute) and t.attr in ("_render_strs", "_layer_list")
        for t in (n.targets if isinstance(n, ast.Assign) else [n.target]))]
    reset = first == "self._reset_frames()" and "_reset_frames" in fns
    if first != "self._add_wire_labels()" and not reset or writes:
        problems.append("start of TextRenderer.layout not recognised: " + first[:80])
    return {"spanFix": span, "insideNode": inside, "globalBox": glob, "measBox": meas, "resetLayout": reset}, problems


def _impl():
    from qutip_qip.circuit import QubitCircuit
    from qutip_qip.operations import Gate
    return QubitCircuit, Gate


# ---- object forms -------------------------------------------------------------------------------------------
FORMS_G = ("name",      # qc.add_gate("CNOT", targets=…, controls=…)
           "gate",      # qc.add_gate(Gate(name=…, targets=…, controls=…))            generic Gate object, any name
           "class",     # qc.add_gate(CNOT(targets=…, controls=…))                    instance of the library class
           "ctrl",      # qc.add_gate(ControlledGate(controls, targets, control_value, target_gate))   name "ControlledGate"
           "moved",     # built into ANOTHER circuit; that circuit's gate object is added to this one
           "block",     # built into a smaller circuit which is inserted with qc.add_circuit(sub, start)
           "append")    # qc.gates.append(Gate(…))
FORMS_M = ("name",      # qc.add_measurement("M", targets=…, classical_store=…)
           "obj",       # qc.add_measurement(Measurement("MZ", targets=…, classical_store=…))
           "block", "append")
CONTS = ("list", "npint",       # list of int / list of numpy integers
         "scalar", "npscalar",  # a bare int / numpy integer where the list has one element (the constructors wrap it)
         "tuple", "ndarray")    # only where the library works with them: one-target gates without controls, measurements
REUSE = ("draw",        # qc.draw("text", save=True) again                                  (fresh renderer)
         "relayout",    # r = TextRenderer(qc); r.layout(); <edits>; r.layout(); r.save()    (the same renderer object)
         "reprint")     # r.layout(); then r.print_circuit() and r.save() (no edits): prints the same picture again


def _np():
    import numpy
    return numpy


def _cont(idx, cont, single_ok=True):
    """the index list `idx` in the container form `cont`"""
    if idx is None:
        return None
    idx = list(idx)
    if cont == "npint":
        return [_np().int64(x) for x in idx]
    if cont in ("scalar", "npscalar") and len(idx) == 1 and single_ok:
        return idx[0] if cont == "scalar" else _np().int64(idx[0])
    if cont == "tuple":
        return tuple(idx)
    if cont == "ndarray":
        return _np().array(idx, dtype=int)
    return idx


def form_of(op):
    return op.get("form") or ("gate" if op.get("raw") else "name")


def expected_name(op):
    """gate.name as the constructors set it for this form (the renderer prints gate.name)"""
    return op["name"]


def make_obj(op, shift=0):
    """the Gate / Measurement object of a witness element (indices lowered by `shift` for form "block")"""
    from qutip_qip.operations import Gate, Measurement
    from qutip_qip.operations.gateclass import ControlledGate
    from qutip_qip.operations import GATE_CLASS_MAP
    cont = op.get("cont", "list")
    if op["k"] == "m":
        st = op["s"]
        if st is not None and cont in ("npint", "npscalar", "ndarray"):
            st = _np().int64(st)
        return Measurement("M" if form_of(op) == "name" else "MZ", targets=_cont([t - shift for t in op["t"]], cont),
                           classical_store=st)
    plain = cont not in ("tuple", "ndarray") or (len(op["t"]) == 1 and op["c"] is None)
    ts = _cont([t - shift for t in op["t"]], cont if plain else "list")
    cs = _cont(None if op["c"] is None else [c - shift for c in op["c"]], cont if plain else "list", single_ok=bool(op["c"]))
    cc = _cont(op.get("cc"), "npint" if cont in ("npint", "npscalar") else "list")
    f = form_of(op)
    if f == "ctrl":
        import qutip_qip.operations as O
        tg = {1: O.X, 2: O.SWAP}[len(op["t"])]
        return ControlledGate(controls=cs, targets=ts, control_value=op.get("cv", 2 ** len(op["c"]) - 1), target_gate=tg,
                              arg_label=op["label"], classical_controls=cc)
    if f in ("class", "name") or (f in ("moved", "block") and not op.get("raw")):
        cls = GATE_CLASS_MAP.get(op["name"], Gate)
        kw = dict(targets=ts, arg_value=ARGV.get(op["name"]), arg_label=op["label"], classical_controls=cc)
        if cs is not None or cls is Gate:
            kw["controls"] = cs
        if getattr(cls, "__name__", None) != op["name"]:
            kw["name"] = op["name"]          # generic Gate, alias (SNOT -> H) or partial of a controlled class (CX, CRZ, …)
        return cls(**kw)
    return Gate(name=op["name"], targets=ts, controls=cs, arg_label=op["label"], classical_controls=cc)


def add_op(qc, op):
    """put one witness element into the live circuit `qc`, in the object form it asks for"""
    from qutip_qip.circuit import QubitCircuit
    from qutip_qip.operations import Gate, Measurement
    f, cont = form_of(op), op.get("cont", "list")
    if op["k"] == "G":
        qc.add_gate(op["name"], arg_value=0.5, arg_label=op["label"])
    elif f == "block":
        qs = list(op["t"]) + list(op.get("c") or [])
        shift = min(qs) if qs and min(qs) >= 0 else 0
        sub = QubitCircuit(max(1, qc.N - shift), num_cbits=qc.num_cbits)
        o = make_obj(op, shift)
        sub.add_measurement(o) if op["k"] == "m" else sub.add_gate(o)
        qc.add_circuit(sub, start=shift)
    elif f == "moved":
        other = QubitCircuit(qc.N, num_cbits=qc.num_cbits)
        other.add_gate("X", targets=[0])
        other.add_gate(make_obj(op))
        qc.add_gate(other.gates[1])
    elif f == "append":
        qc.gates.append(make_obj(op))
    elif op["k"] == "m":
        if f == "obj":
            qc.add_measurement(make_obj(op))
        else:
            o = make_obj(op)
            qc.add_measurement("M", targets=o.targets if cont == "list" else _cont(op["t"], cont), classical_store=o.classical_store)
    elif f == "name":
        plain = cont not in ("tuple", "ndarray") or (len(op["t"]) == 1 and op["c"] is None)
        c_ = cont if plain else "list"
        qc.add_gate(op["name"], targets=_cont(op["t"], c_), controls=_cont(op["c"], c_, single_ok=bool(op["c"])),
                    arg_value=ARGV.get(op["name"]), arg_label=op["label"], classical_controls=op.get("cc"))
    else:
        qc.add_gate(make_obj(op))


def build_ops(N, C, ops):
    QubitCircuit, Gate = _impl()
    qc = QubitCircuit(N, num_cbits=C)
    for op in ops:
        add_op(qc, op)
        if op["k"] == "g" and qc.gates[-1].name != op["name"]:
            raise AssertionError("object form %s gives gate.name %r, the witness says %r" % (form_of(op), qc.gates[-1].name, op["name"]))
    return qc


def build(w):
    """the circuit of the witness as it is when it is drawn (a freshly built one)"""
    return build_ops(w["N"], w["C"], w["ops"])


# ---- live-object histories ----------------------------------------------------------------------------------
ATTR = {"t": "targets", "c": "controls", "label": "arg_label", "name": "name", "s": "classical_store", "cc": "classical_controls"}


def apply_edits_spec(ops0, edits):
    """the witness elements after the edits (pure; what the circuit must then be drawn as)"""
    ops = [dict(o) for o in ops0]
    for e in edits:
        if e["e"] == "set":
            o = dict(ops[e["i"]], **{e["field"]: e["value"]})
            # a freshly built circuit with these fields: the generic object form (the live object keeps its class)
            o.pop("cv", None)
            o.update(cont="list", form="gate" if o["k"] == "g" else "obj")
            if o["k"] == "g":
                o["raw"] = True
            ops[e["i"]] = o
        elif e["e"] == "append":
            ops.append(dict(e["op"]))
        elif e["e"] == "insert":
            ops.insert(e["i"], dict(e["op"]))
        elif e["e"] == "remove":
            del ops[e["i"]]
    return ops


def apply_edits_live(qc, edits):
    """the same edits done to the live circuit: fields of its gate objects re-assigned, gates appended / inserted / removed"""
    for e in edits:
        if e["e"] == "set":
            v = e["value"]
            setattr(qc.gates[e["i"]], ATTR[e["field"]], list(v) if isinstance(v, list) else v)
        elif e["e"] == "append":
            add_op(qc, e["op"])
        elif e["e"] == "insert":
            add_op(qc, e["op"])
            qc.gates.insert(e["i"], qc.gates.pop())
        elif e["e"] == "remove":
            del qc.gates[e["i"]]


def snapshot(qc):
    """everything of the circuit a drawing must leave alone: the gate list (object identities) and every field of every element"""
    return (qc.N, qc.num_cbits, [(id(g), type(g).__name__, sorted((k, repr(v)) for k, v in vars(g).items())) for g in qc.gates])


def style_kwargs(sty):
    kw = {}
    for k in ("gate_pad", "end_wire_ext", "align_layer", "wire_label"):
        if k in sty:
            kw[k] = list(sty[k]) if k == "wire_label" and sty[k] is not None else sty[k]
    kw.update(sty.get("ignored", {}))
    return kw


def classify_exc(e):
    if isinstance(e, IndexError):
        return "index"
    if isinstance(e, ValueError):
        return "value"
    if isinstance(e, TypeError):
        return "type"
    return "other:" + type(e).__name__


def impl_draw(w, via="draw"):
    """What the real code prints: ('ok', [rows]) or (error kind, None)."""
    try:
        qc = build(w)                    # always a freshly built circuit with the current fields
    except Exception as e:
        return "build:" + type(e).__name__ + ":" + str(e)[:80], None
    buf = io.StringIO()
    try:
        with contextlib.redirect_stdout(buf):
            if via == "draw":
                qc.draw("text", **style_kwargs(w["style"]))
            else:
                from qutip_qip.circuit.text_renderer import TextRenderer
                TextRenderer(qc, **style_kwargs(w["style"])).layout()
    except Exception as e:
        return classify_exc(e), None
    out = buf.getvalue().split("\n")
    if out and out[-1] == "":
        out.pop()
    return "ok", out


# ---- the file output path: QubitCircuit.draw('text', save=True, file_path=...) and TextRenderer(qc).layout(); .save(path)
_SAVE = {"dir": None, "n": 0}
_KEEP = []      # the circuits built during one evaluation of the oracle stay alive until its end (no id() is re-used inside it)


def _save_path():
    """a fresh file name (without the .txt that save() appends) in this process's private temp dir"""
    if _SAVE["dir"] is None or not os.path.isdir(_SAVE["dir"]):
        _SAVE["dir"] = tempfile.mkdtemp(prefix="c20-save-")
        atexit.register(save_cleanup)
    _SAVE["n"] += 1
    return os.path.join(_SAVE["dir"], "circ%d" % _SAVE["n"])


def save_cleanup():
    if _SAVE["dir"] is not None:
        shutil.rmtree(_SAVE["dir"], ignore_errors=True)
        _SAVE["dir"] = None


def _read_saved(path):
    """the lines of the file save() wrote (and the file is removed); None if there is no file"""
    f = path + ".txt"
    if not os.path.exists(f):
        return None
    with open(f, encoding="utf-8") as fh:
        txt = fh.read().split("\n")
    os.remove(f)
    if txt and txt[-1] == "":
        txt.pop()
    return txt


def impl_draw_saved(w, via="draw"):
    """One rendering through the file output path: (verdict, printed rows, lines of the saved file).
    via = "draw": qc.draw("text", save=True, file_path=...);  "layout": r = TextRenderer(qc, **style); r.layout(); r.save(path)"""
    from qutip_qip.circuit.text_renderer import TextRenderer
    reuse = w.get("reuse", "draw")
    try:
        qc = build_ops(w["N"], w["C"], w.get("ops0", w["ops"]))
    except Exception as e:
        return "build:" + type(e).__name__ + ":" + str(e)[:80], None, None
    _KEEP.append(qc)
    buf = io.StringIO()
    path = _save_path()
    kw = style_kwargs(w["style"])
    for b in w.get("before", []):            # other circuits drawn earlier in this process (state kept across drawings?)
        try:
            with contextlib.redirect_stdout(io.StringIO()):
                build(b).draw("text", **style_kwargs(b["style"]))
        except Exception:
            pass
    try:
        r = None
        if "ops0" in w or reuse != "draw":
            # the first drawing of the history (its output is not the one judged; it must not raise)
            before = snapshot(qc)
            with contextlib.redirect_stdout(io.StringIO()):
                if reuse == "draw":
                    qc.draw("text", **kw)
                else:
                    r = TextRenderer(qc, **kw)
                    r.layout()
            if snapshot(qc) != before:
                return "circuit-changed-by-drawing", None, None
            apply_edits_live(qc, w.get("edits", []))
        before = snapshot(qc)
        with contextlib.redirect_stdout(buf):
            if reuse == "relayout":
                r.layout()
                r.save(path)
            elif reuse == "reprint":
                r.print_circuit()
                r.save(path)
            elif via == "draw":
                qc.draw("text", save=True, file_path=path, **kw)
            else:
                r = TextRenderer(qc, **kw)
                r.layout()
                r.save(path)
        if snapshot(qc) != before:
            _read_saved(path)
            return "circuit-changed-by-drawing", None, None
    except Exception as e:
        _read_saved(path)
        return classify_exc(e), None, None
    out = buf.getvalue().split("\n")
    if out and out[-1] == "":
        out.pop()
    return "ok", out, _read_saved(path)


def impl_save(w):
    """Rows written by TextRenderer.save (draw(..., save=True))."""
    return impl_draw_saved(w)[2]


# ------------------------------------------------------------------------------------------ model side

def enc_str(s):
    return ".".join(str(ord(ch)) for ch in s)


def enc_op(op):
    if op["k"] == "m":
        if op["s"] is None:
            return "M:%s" % ",".join(map(str, op["t"]))
        return "m:%s:%d" % (",".join(map(str, op["t"])), op["s"])
    lab = "-" if op["label"] is None else "L" + enc_str(op["label"])
    if op["k"] == "G":
        return "G:%s:%s" % (enc_str(op["name"]), lab)
    cs = "-" if op["c"] is None else "c" + ",".join(map(str, op["c"]))
    return "g:%s:%s:%s:%s" % (enc_str(op["name"]), lab, ",".join(map(str, op["t"])), cs)


def model_line(w, cmd="render"):
    sty = w["style"]
    fr = Fraction(sty.get("gate_pad", 0.05))      # exact value of the float the code receives
    assert fr > -1
    if cmd == "render" and w.get("reuse") == "relayout":
        cmd = "render2"          # the second layout() of one renderer object; the first one drew ops0
    s = "%s n=%d c=%d padn=%d padd=%d ext=%d align=%d var=%d%d%d%d%d" % (
        cmd, w["N"], w["C"], fr.numerator, fr.denominator, sty.get("end_wire_ext", 2),
        1 if sty.get("align_layer", False) else 0,
        VARIANT["spanFix"], VARIANT["insideNode"], VARIANT["globalBox"], VARIANT["measBox"], VARIANT["resetLayout"])
    if cmd == "render2":
        s += " ops0=" + "/".join(enc_op(o) for o in w.get("ops0", w["ops"]))
    wl = sty.get("wire_label")
    if wl is not None:
        s += " labels=" + "".join(enc_str(x) + ";" for x in wl)
    s += " ops=" + "/".join(enc_op(o) for o in w["ops"])
    return s


def dec_rows(ans):
    if not ans.startswith("ok"):
        return ans.replace("err ", ""), None
    body = ans[3:]
    return "ok", ["".join(chr(int(x)) for x in r.split(".") if x) for r in body.split("|")]


# ------------------------------------------------------------------------------------------ oracle
# The property's clauses evaluated on the printed strings, written without the model.

def gate_text(op):
    return op["label"] if op["label"] is not None else op["name"]


def norm_ops(w):
    """The circuit's elements with a gate on the whole register (k = G) written as the box over all
    qubits that the repaired renderer draws for it."""
    return [dict(k="g", name=o["name"], label=o["label"], t=list(range(w["N"])), c=None, cc=None, glob=True)
            if o["k"] == "G" else o for o in w["ops"]]


def op_class(op):
    """single | swap | multi | meas — the four pictures the renderer has."""
    if op["k"] == "m":
        return "meas"
    if op["k"] == "G":
        return "global"
    if len(op["t"]) == 1 and op["c"] is None:
        return "single"
    if op["name"] == "SWAP":
        return "swap"
    return "multi"


def gap_gate(op):
    """The class of the recorded finding: a multi-qubit box with controls whose targets do not fill
    their span (some wire strictly inside the span is not a target)."""
    if op_class(op) != "multi" or not op["c"] or not op["t"]:
        return False
    lo, hi = min(op["t"]), max(op["t"])
    return any(x not in op["t"] for x in range(lo, hi + 1))


def inside_ctrl(op):
    """... and one of its controls lies strictly between two targets."""
    return gap_gate(op) and any(min(op["t"]) < c < max(op["t"]) for c in op["c"])


def in_domain(w):
    """Circuits the property quantifies over and the oracle can read back unambiguously:
    distinct in-range qubits, single-target measurements into existing bits or without classical_store, labels without
    box-drawing glyphs / leading or trailing blanks, full-length wire labels, gate_pad > -1
    (ceil(gate_pad) >= 0), end_wire_ext >= 0.  Gates on the whole register (GLOBALPHASE) belong to it."""
    N, C, sty = w["N"], w["C"], w["style"]
    if N < 1 or sty.get("gate_pad", 0.05) <= -1 or sty.get("end_wire_ext", 2) < 0:
        return False
    wl = sty.get("wire_label")
    if wl is not None and (len(wl) != N + C or any(GLYPHS & set(x) or "\n" in x for x in wl)):
        return False
    for op in norm_ops(w):
        if op["k"] == "m":
            if len(op["t"]) != 1 or not (0 <= op["t"][0] < N) or not (op["s"] is None or 0 <= op["s"] < C):
                return False
        else:
            qs = list(op["t"]) + list(op["c"] or [])
            if not op["t"] or len(set(qs)) != len(qs) or not all(0 <= q < N for q in qs):
                return False
            if op["name"] == "SWAP" and (len(op["t"]) != 2 or op["c"]):
                return False
            txt = gate_text(op)
            if txt == "" or txt != txt.strip() or GLYPHS & set(txt) or "\n" in txt or "\r" in txt:
                return False
    return True


def covered(w):
    """in_domain and outside the classes of the recorded findings that the tree at hand still has
    (= the hypotheses of the theorems for the variant of the tree): boxes with controls and a gap
    in their targets unless the tree has fixes/C20-1 (and C20-2 if a control lies in the gap);
    gates on the whole register unless it has fixes/C20-3; measurements without classical_store unless
    it has fixes/C20-4.  On a tree that is none of the recognised variants: the whole domain."""
    if not in_domain(w):
        return False
    if "ops0" in w:            # the first drawing of a history must itself be one the tree can make
        first = {k: v for k, v in w.items() if k not in ("ops0", "edits", "reuse")}
        first["ops"] = w["ops0"]
        if not covered(first):
            return False
    if not RECOGNISED[0]:
        return True
    if w.get("reuse") == "relayout" and not VARIANT["resetLayout"]:
        return False           # finding C20-5: a second layout() on the same renderer object
    for o in w["ops"]:
        if o["k"] == "m" and o["s"] is None and not VARIANT["measBox"]:
            return False
        if o["k"] == "G" and not VARIANT["globalBox"]:
            return False
        if o["k"] == "g" and gap_gate(o) and not VARIANT["spanFix"]:
            return False
        if o["k"] == "g" and inside_ctrl(o) and not VARIANT["insideNode"]:
            return False
    return True


def oracle_rows(w, rows):
    """List of violated clauses of C20 for the rows printed by the real code."""
    from math import ceil
    N, C, sty = w["N"], w["C"], w["style"]
    bad = []
    if len(rows) != 3 * (N + C):
        return ["rows: %d printed rows for %d wires" % (len(rows), N + C)]
    widths = sorted(set(len(r) for r in rows))
    if len(widths) != 1:
        bad.append("equal_width: row widths %s" % widths)
    # position of a wire in the picture (qubits high -> low, then classical bits high -> low)
    order = list(range(N - 1, -1, -1)) + list(range(N + C - 1, N - 1, -1))
    pos = {wire: i for i, wire in enumerate(order)}
    wl = sty.get("wire_label")
    names = ["q%d" % i for i in range(N)] + ["c%d" % i for i in range(C)] if wl is None else list(wl[C:]) + list(wl[:C])
    mx = max(len(x) for x in names)
    pre = {}
    for wire in order:
        head = " " + names[wire] + " " + " " * (mx - len(names[wire])) + ":"
        pre[wire] = len(head)
        mid = rows[3 * pos[wire] + 1]
        if not mid.startswith(head):
            bad.append("row_order: picture row %d does not start with the label of wire %d" % (pos[wire], wire))
        elif set(rows[3 * pos[wire]][:len(head)] + rows[3 * pos[wire] + 2][:len(head)]) - {" "}:
            bad.append("row_order: label area of wire %d not blank above/below" % wire)
    # labels in order ---------------------------------------------------------------------
    p = ceil(sty.get("gate_pad", 0.05))
    ops = norm_ops(w)
    exp = {q: [] for q in range(N)}
    for op in ops:
        k = op_class(op)
        if k == "meas":
            exp[op["t"][0]].append("M")
        elif k == "single":
            exp[op["t"][0]].append(gate_text(op))
        elif k == "multi":
            exp[min(op["t"])].append(gate_text(op))
            if len(op["t"]) > 1:
                exp[max(op["t"])].append(" " * len(gate_text(op)))   # upper edge of the box: blank connector
    for q in range(N):
        mid = rows[3 * pos[q] + 1][pre[q]:]
        got = []
        for m in re.finditer("┤(.*?)├", mid):
            inner = m.group(1)
            if len(inner) < 2 * p or inner[:p].strip() or inner[len(inner) - p:].strip():
                got.append("<bad padding %r>" % inner)
            else:
                got.append(inner[p:len(inner) - p])
        if got != exp[q]:
            bad.append("labels_in_order: wire %d reads %r, expected %r" % (q, got, exp[q]))
    # links -------------------------------------------------------------------------------
    def at(r, x):
        return rows[r][x] if 0 <= r < len(rows) and 0 <= x < len(rows[r]) else ""

    def wire_of_row(r):
        return order[r // 3]

    def trace(r, x, step, through, stop):
        rr = r + step
        while at(rr, x) != "" and at(rr, x) in through:
            rr += step
        return rr if at(rr, x) == stop else None

    exp_ctrl, exp_swap, exp_meas = [], [], []
    for op in ops:
        k = op_class(op)
        if k == "multi" and op["c"]:
            lo, hi = min(op["t"]), max(op["t"])
            for c in op["c"]:
                exp_ctrl.append((c, "top", hi) if c > hi else (c, "bot", lo) if c < lo else (c, "inside", -1))
        elif k == "swap":
            exp_swap.append((max(op["t"]), min(op["t"])))
        elif k == "meas" and op["s"] is not None:
            exp_meas.append((op["t"][0], N + op["s"]))      # an unstored measurement has no link
    got_ctrl, got_swap, got_meas = [], [], []
    for r, row in enumerate(rows):
        body_from = pre[wire_of_row(r)]
        for x, ch in enumerate(row):
            if x < body_from:
                continue
            if ch == "█":
                if r % 3 != 1:
                    bad.append("links_reach: control node off the wire at row %d" % r)
                    continue
                hits = []
                d = trace(r, x, +1, "│█", "┴")
                if d is not None and d % 3 == 0:
                    hits.append((wire_of_row(r), "top", wire_of_row(d)))
                u = trace(r, x, -1, "│█", "┬")
                if u is not None and u % 3 == 2:
                    hits.append((wire_of_row(r), "bot", wire_of_row(u)))
                if not hits:
                    # a control between the targets of its gate: the node sits inside the box
                    lft = row[body_from:x].rstrip(" ")
                    rgt = row[x + 1:].lstrip(" ")
                    if lft.endswith("│") and rgt.startswith("│") and at(r - 1, x) == " " and at(r + 1, x) == " ":
                        hits.append((wire_of_row(r), "inside", -1))
                if len(hits) != 1:
                    bad.append("links_reach: control node on wire %d (column %d) reaches %s" % (wire_of_row(r), x, hits))
                got_ctrl.extend(hits)
            elif ch == "╳":
                d = trace(r, x, +1, "│", "╳")
                u = trace(r, x, -1, "│", "╳")
                if r % 3 != 1 or (d is None) == (u is None):
                    bad.append("links_reach: swap cross on wire %d (column %d) is not linked to exactly one partner" % (wire_of_row(r), x))
                elif d is not None:
                    got_swap.append((wire_of_row(r), wire_of_row(d)))
            elif ch == "╥":
                d = trace(r, x, +1, "║", "╩")
                if r % 3 != 2 or at(r - 1, x) != "M" or d is None or d % 3 != 1:
                    bad.append("links_reach: measurement link from wire %d (column %d) does not reach a classical wire" % (wire_of_row(r), x))
                else:
                    got_meas.append((wire_of_row(r), wire_of_row(d)))
            elif ch == "┴" and at(r - 1, x) not in ("│", "█"):
                bad.append("links_reach: mark ┴ on a box frame without a link above it (row %d column %d)" % (r, x))
            elif ch == "┬" and at(r + 1, x) not in ("│", "█"):
                bad.append("links_reach: mark ┬ on a box frame without a link below it (row %d column %d)" % (r, x))
            elif ch in "╩╨":
                if ch == "╨" or trace(r, x, -1, "║", "╥") is None:
                    bad.append("links_reach: dangling classical connector at row %d column %d" % (r, x))
    if sorted(got_ctrl) != sorted(exp_ctrl):
        bad.append("links_reach: control links %s, expected %s" % (sorted(got_ctrl), sorted(exp_ctrl)))
    if sorted(got_swap) != sorted(exp_swap):
        bad.append("links_reach: swap links %s, expected %s" % (sorted(got_swap), sorted(exp_swap)))
    if sorted(got_meas) != sorted(exp_meas):
        bad.append("links_reach: measurement links %s, expected %s" % (sorted(got_meas), sorted(exp_meas)))
    return bad


# ------------------------------------------------------------------------------------------ generators

PLAIN = "abcXYZ019+-*/()θπφ_.,^"
WILD = PLAIN + " ┤├│█量\U0001F600'\"\\|:;"


def rand_text(rng, wild, lo=1, hi=7):
    n = rng.randint(lo, hi)
    s = "".join(rng.choice(WILD if wild else PLAIN) for _ in range(n))
    return s if wild else (s.strip() or "g")


def rand_style(rng, N, C, wild=False):
    sty = {}
    r = rng.random()
    if r < 0.75:
        sty["gate_pad"] = rng.choice([0, 0.0, 0.05, 0.5, 1, 1.0, 1.2, 2, 2.5, 3.0000001, 0.999, -0.5, -0.999, -0.0])
    if rng.random() < 0.7:
        sty["end_wire_ext"] = rng.choice([0, 1, 2, 3, 5, 9] + ([-1, -4, 40] if wild else []))
    if rng.random() < 0.5:
        sty["align_layer"] = rng.random() < 0.7
    if rng.random() < 0.45:
        n = N + C
        if wild and rng.random() < 0.3:
            n = rng.choice([0, max(0, n - 1), n + 1, 1])
        sty["wire_label"] = [rand_text(rng, wild, 0 if wild else 1, 5) for _ in range(n)]
    elif wild and rng.random() < 0.1:
        sty["wire_label"] = None
    if rng.random() < 0.4:
        ign = {}
        for k, vals in (("layer_sep", [0.1, 2]), ("bulge", [False, True, "round"]), ("gate_margin", [0.4, 3]),
                        ("wire_sep", [1.5]), ("padding", [2.0]), ("label_pad", [1.0]), ("fontsize", [3, 30]),
                        ("dpi", [20]), ("theme", ["light", "dark", "modern"]), ("title", ["T"]),
                        ("color", ["#ff0000"]), ("bgcolor", ["#000000"]), ("wire_color", ["#00ff00"]),
                        ("fig_width", [2]), ("fig_height", [2])):
            if rng.random() < 0.25:
                ign[k] = rng.choice(vals)
        if ign:
            sty["ignored"] = ign
    return sty


def rand_gate(rng, N, C, wild=False, allow_gap=True):
    """A gate op on N qubits (valid placement unless wild)."""
    shapes = ["1q"] * 4 + (["2t", "1c1t", "1c1t", "swap"] * 2 if N >= 2 else []) + \
             (["toffoli", "fredkin", "user3", "c2user"] if N >= 3 else []) + ["user"] * 2 + (["c3user"] if N >= 4 else [])
    sh = rng.choice(shapes)
    lab = rand_text(rng, wild) if rng.random() < 0.35 else None
    cc = sorted(rng.sample(range(C), rng.randint(1, C))) if C and rng.random() < 0.25 else None

    def pick(k):
        if wild and rng.random() < 0.15:
            return [rng.randint(0, N + C + 1) for _ in range(k)]
        return rng.sample(range(N), k)
    if sh == "1q":
        op = {"name": rng.choice(LIB_1Q), "t": pick(1), "c": None, "raw": False}
    elif sh == "2t":
        op = {"name": rng.choice(LIB_2T), "t": pick(2), "c": None, "raw": False}
    elif sh == "swap":
        op = {"name": "SWAP", "t": pick(2), "c": None, "raw": False}
    elif sh == "1c1t":
        q = pick(2)
        op = {"name": rng.choice(LIB_1C1T), "t": [q[0]], "c": [q[1]], "raw": False}
    elif sh == "toffoli":
        q = pick(3)
        op = {"name": "TOFFOLI", "t": [q[0]], "c": q[1:], "raw": False} if rng.random() < 0.8 else \
             {"name": "TOFFOLI", "t": q, "c": None, "raw": False}
    elif sh == "fredkin":
        q = pick(3)
        op = {"name": "FREDKIN", "t": q[:2], "c": [q[2]], "raw": False} if rng.random() < 0.8 else \
             {"name": "FREDKIN", "t": q, "c": None, "raw": False}
    else:
        nt, nc = {"user": (rng.randint(1, min(3, N)), 0), "user3": (3, 0), "c2user": (1, 2), "c3user": (rng.choice([1, 2]), rng.choice([2, 3]))}[sh]
        nt, nc = min(nt, N), min(nc, max(0, N - min(nt, N)))
        q = pick(nt + nc)
        cs = q[nt:] if nc else (None if rng.random() < 0.8 else [])
        if wild and rng.random() < 0.05:
            q, nt = q[nt:], 0                      # a gate without any target (only controls, or nothing)
        op = {"name": rng.choice(["U", "CU", "MyGate", "CCRX", "G3", "Ux", "SWAP" if wild else "V"]), "t": q[:nt], "c": cs, "raw": True}
    op.update({"k": "g", "label": lab, "cc": cc})
    if not allow_gap and not wild and gap_gate(op):
        # make the targets contiguous, keep the controls outside
        lo = rng.randint(0, N - len(op["t"]))
        ts = list(range(lo, lo + len(op["t"])))
        rng.shuffle(ts)
        rest = [x for x in range(N) if x not in ts]
        if len(rest) < len(op["c"]):
            return rand_gate(rng, N, C, wild, allow_gap)
        op["t"], op["c"] = ts, rng.sample(rest, len(op["c"]))
    return op


def rand_circuit(rng, wild=False, allow_gap=True, maxN=6, maxC=3, maxops=12, minN=1):
    N = rng.randint(minN, maxN)
    C = rng.randint(0, maxC)
    ops = []
    for _ in range(rng.randint(0 if wild else 1, maxops)):
        r = rng.random()
        if C and r < 0.22:
            t = [rng.randrange(N)]
            s = rng.randrange(C)
            if wild and rng.random() < 0.2:
                t = [rng.randint(0, N + C + 1) for _ in range(rng.choice([0, 1, 1, 2]))]
                s = rng.randint(0, C + 1)
            ops.append({"k": "m", "t": t, "s": s})
        elif r < (0.30 if VARIANT["measBox"] or wild else 0.235):
            # a measurement whose result is not stored (classical_store=None)
            t = [rng.randrange(N)]
            if wild and rng.random() < 0.25:
                t = [rng.randint(0, N + C + 1) for _ in range(rng.choice([0, 1, 2, 3]))]
            ops.append({"k": "m", "t": t, "s": None})
        else:
            ops.append(rand_gate(rng, N, C, wild, allow_gap))
    if rng.random() < (0.08 if VARIANT["globalBox"] or wild else 0.03):
        # a gate on the whole register (the decompositions of resolve_gates emit GLOBALPHASE)
        ops.insert(rng.randint(0, len(ops)), {"k": "G", "name": rng.choice(["GLOBALPHASE", "GLOBALPHASE", "Gph"]),
                                              "label": rand_text(rng, wild) if rng.random() < 0.4 else None})
    return {"N": N, "C": C, "style": rand_style(rng, N, C, wild), "ops": ops}


def single_gate_cases(maxN, maxC=1):
    """Every placement of every gate shape (k targets, m controls, k+m <= 4, k <= 3), every SWAP,
    every measurement, on N <= maxN qubits."""
    for N in range(1, maxN + 1):
        for C in range(0, maxC + 1):
            for nt, nc in [(1, 0), (2, 0), (3, 0), (1, 1), (1, 2), (2, 1), (1, 3), (2, 2), (3, 1)]:
                if nt + nc > N:
                    continue
                for q in itertools.permutations(range(N), nt + nc):
                    if list(q[nt:]) != sorted(q[nt:]):      # the renderer only sorts the controls
                        continue
                    yield N, C, {"k": "g", "name": "Ug", "label": None, "t": list(q[:nt]),
                                 "c": list(q[nt:]) if nc else None, "cc": None, "raw": True}
            for a in range(N):
                if N >= 2:
                    for b in range(N):
                        if a != b:
                            yield N, C, {"k": "g", "name": "SWAP", "label": None, "t": [a, b], "c": None, "cc": None, "raw": False}
                yield N, C, {"k": "g", "name": "Z", "label": None, "t": [a], "c": [], "cc": None, "raw": True}
                for s in range(C):
                    yield N, C, {"k": "m", "t": [a], "s": s}
                yield N, C, {"k": "m", "t": [a], "s": None}
            yield N, C, {"k": "G", "name": "GLOBALPHASE", "label": None}


SINGLE_STYLES = [
    {}, {"gate_pad": 0}, {"gate_pad": 1.5, "end_wire_ext": 0}, {"align_layer": True, "gate_pad": 1},
]

# ---- the matrix stream: gate kind x position of the controls relative to the box x contiguity of the
#      targets x classical controls x neighbouring measurement x style
MATRIX_N, MATRIX_C = 7, 2
MATRIX_TARGETS = [("single", [3]), ("contig", [2, 3]), ("contig", [4, 3, 2]), ("gap", [1, 3]), ("gap", [5, 2]),
                  ("gap", [1, 5, 3])]
MATRIX_STYLES = [
    {}, {"gate_pad": 0}, {"gate_pad": 2.5, "end_wire_ext": 0}, {"align_layer": True, "gate_pad": 1},
    {"wire_label": ["", "classical bit", "a", "", "q2", "a rather long label", "ω", "5", "top"], "end_wire_ext": 5},
    {"align_layer": True, "wire_label": ["c", "d"] + [str(i) for i in range(7)], "gate_pad": 0.3, "end_wire_ext": 1},
]
MATRIX_LABELS = [None, "abc", "", "λ=π/2", "ab"]


def control_positions(op):
    """the set of relative positions (above / inside / below the span of the targets) of the quantum controls"""
    if op["k"] != "g" or not op["c"] or not op["t"]:
        return ()
    lo, hi = min(op["t"]), max(op["t"])
    return tuple(sorted({"above" if c > hi else "below" if c < lo else "inside" for c in op["c"]}))


def target_shape(op):
    if op["k"] != "g" or not op["t"]:
        return "-"
    ts = op["t"]
    if len(ts) == 1:
        return "single"
    return "contig" if set(ts) == set(range(min(ts), max(ts) + 1)) else "gap"


def cell_of(op):
    """the cell of the coverage matrix an element belongs to"""
    k = op_class(op)
    if op["k"] == "m":
        return ("meas-unstored" if op["s"] is None else "meas",)
    if op["k"] == "G":
        return ("global",)
    return (k, "+".join(control_positions(op)) or "none", target_shape(op), "cc" if op.get("cc") else "nocc")


def matrix_cases(thorough=False):
    N, C = MATRIX_N, MATRIX_C
    i = 0
    unstored = (lambda k: None) if VARIANT["measBox"] else (lambda k: k % C)     # kinds the tree cannot draw are left
    glob = [{"k": "G", "name": "GLOBALPHASE", "label": None}] if VARIANT["globalBox"] else []   # to the other streams
    for shape, ts in MATRIX_TARGETS:
        lo, hi = min(ts), max(ts)
        holes = [x for x in range(lo, hi + 1) if x not in ts]
        above, below = [hi + 1, 6] if hi + 1 < 6 else [6], [0, lo - 1] if lo - 1 > 0 else [0]
        pools = {"above": [above[-1:], above], "below": [below[:1], below], "inside": [holes[:1], holes] if holes else []}
        for mask in range(8):
            pos = [nm for b, nm in enumerate(("above", "inside", "below")) if mask >> b & 1]
            if any(not pools[nm] for nm in pos):
                continue
            for many in (0, 1):
                cs = sorted(set(x for nm in pos for x in pools[nm][many]))
                if many and cs == sorted(set(x for nm in pos for x in pools[nm][0])):
                    continue
                ctrl_opts = [cs] if pos else ([None, []] if not many else [])
                for c in ctrl_opts:
                    for cc in (None, [0, 1]) if not thorough else (None, [0], [0, 1]):
                        for si, sty in enumerate(MATRIX_STYLES):
                            for around in range(3):
                                i += 1
                                g = {"k": "g", "name": "Ug", "label": MATRIX_LABELS[i % len(MATRIX_LABELS)], "t": list(ts),
                                     "c": c, "cc": cc, "raw": True}
                                lib = {(1, 1): ["CNOT", "CZ", "CRX"], (1, 2): ["TOFFOLI"], (2, 1): ["FREDKIN"],
                                       (2, 0): ["ISWAP", "BERKELEY"], (1, 0): ["H", "RZ"]}.get((len(ts), len(c or [])))
                                if lib and c != [] and i % 2:      # the library classes of that shape
                                    g.update(name=lib[(i // 2) % len(lib)], raw=False)
                                ops = [g]
                                if around == 1:        # a stored measurement of a wire of the span before, an unstored one after
                                    ops = [{"k": "m", "t": [lo], "s": i % C}, g, {"k": "m", "t": [hi], "s": unstored(i + 1)}]
                                elif around == 2:      # a gate on a neighbouring wire before, so that the layers differ
                                    ops = [{"k": "g", "name": "H", "label": None, "t": [min(6, hi + 1)], "c": None, "cc": [1], "raw": False},
                                           g, {"k": "m", "t": [max(0, lo - 1)], "s": (i + 1) % C}]
                                yield {"N": N, "C": C, "style": {k: (list(v) if isinstance(v, list) else v) for k, v in sty.items()}, "ops": ops}
    # the other kinds: SWAP, one-qubit gate, both measurements, gate on the whole register x classical controls x style
    for si, sty in enumerate(MATRIX_STYLES):
        for cc in (None, [1]):
            for a, b in ((0, 1), (4, 1), (6, 0)):
                yield {"N": N, "C": C, "style": dict(sty), "ops": [
                    {"k": "g", "name": "SWAP", "label": None, "t": [a, b], "c": None, "cc": cc, "raw": False},
                    {"k": "g", "name": "RX", "label": "π/2", "t": [a], "c": None, "cc": cc, "raw": False},
                    {"k": "m", "t": [b], "s": 1}, {"k": "m", "t": [a], "s": unstored(0)}] + glob}


# ---- object forms and live-object histories: generators -----------------------------------------------------
FORM_STYLES = [
    {}, {"gate_pad": 0, "align_layer": True},
    {"wire_label": ["the classical register bit 0", "c", "q", "qq", "", "q three"]},      # a classical label longer than every qubit label
    {"wire_label": ["a", "bb", "ccc", "dddd", "eeeee", "ffffff"], "gate_pad": 1.2, "end_wire_ext": 0},   # all lengths different
]


def forms_cases():
    """systematic: every listed order of targets / controls of the multi-qubit gate families x every object form x
    container type, on 4 qubits + 2 bits"""
    N, C = 4, 2
    k = 0

    def case(op):
        nonlocal k
        k += 1
        sty = FORM_STYLES[k % len(FORM_STYLES)]
        return {"N": N, "C": C, "style": {a: (list(b) if isinstance(b, list) else b) for a, b in sty.items()}, "ops": [op]}
    P3 = list(itertools.permutations(range(N), 3))
    P4 = list(itertools.permutations(range(N), 4))
    for a, b, c in P3:
        for f in ("name", "gate", "class", "moved", "block", "append"):
            lib = f in ("name", "class") or (f in ("moved", "block") and (a + b) % 2)
            yield case({"k": "g", "name": "FREDKIN", "label": None, "t": [a, b], "c": [c], "cc": None, "raw": not lib, "form": f})
            yield case({"k": "g", "name": "TOFFOLI", "label": None, "t": [a], "c": [b, c], "cc": [1] if c % 2 else None,
                        "raw": not lib, "form": f})
        for f in ("gate", "moved", "block", "append"):
            yield case({"k": "g", "name": "MyGate", "label": "θ" if a % 2 else None, "t": [a, b], "c": [c], "cc": None, "raw": True, "form": f})
        for cv in range(4):
            yield case({"k": "g", "name": "ControlledGate", "label": None, "t": [a], "c": [b, c], "cc": None, "raw": True,
                        "form": "ctrl", "cv": cv})
        for cv in range(2):
            yield case({"k": "g", "name": "ControlledGate", "label": "cSWAP" if cv else None, "t": [a, b], "c": [c], "cc": [0],
                        "raw": True, "form": "ctrl", "cv": cv})
    for a, b, c, d in P4:
        for f in ("gate", "moved", "block", "append"):
            yield case({"k": "g", "name": "U3q", "label": None, "t": [a, b, c], "c": [d], "cc": None, "raw": True, "form": f})
            yield case({"k": "g", "name": "CCU", "label": None, "t": [a, b], "c": [c, d], "cc": None, "raw": True, "form": f})
    for a, b in itertools.permutations(range(N), 2):
        for cont in ("list", "npint", "scalar", "npscalar"):
            for f in ("name", "gate", "class", "moved", "block", "append"):
                lib = f in ("name", "class") or (f in ("moved", "block") and a % 2)
                yield case({"k": "g", "name": "CNOT", "label": None, "t": [a], "c": [b], "cc": None, "raw": not lib, "form": f, "cont": cont})
            yield case({"k": "g", "name": "ControlledGate", "label": None, "t": [a], "c": [b], "cc": None, "raw": True, "form": "ctrl",
                        "cv": 1, "cont": cont})
        for cont in ("list", "npint"):
            for f in ("name", "class", "moved", "block"):
                yield case({"k": "g", "name": "SWAP", "label": None, "t": [a, b], "c": None, "cc": None, "raw": False, "form": f, "cont": cont})
            for f in ("gate", "append"):        # a generic Gate object that is NAMED SWAP is drawn as a SWAP too
                yield case({"k": "g", "name": "SWAP", "label": None, "t": [a, b], "c": None, "cc": None, "raw": True, "form": f, "cont": cont})
    for a in range(N):
        for cont in CONTS:
            for f in ("name", "gate", "class", "moved", "block", "append"):
                lib = f in ("name", "class") or (f in ("moved", "block") and a % 2)
                yield case({"k": "g", "name": "RX" if a % 2 else "X", "label": "π/2" if a % 2 else None, "t": [a], "c": None,
                            "cc": [0] if a == 2 else None, "raw": not lib, "form": f, "cont": cont})
            for st in (0, 1, None):
                if st is None and not VARIANT["measBox"]:
                    continue
                for f in FORMS_M:
                    yield case({"k": "m", "t": [a], "s": st, "form": f, "cont": cont})


def random_forms(rng, w):
    """give every element of a (non-malformed) witness a random applicable object form and container type"""
    for op in w["ops"]:
        if op["k"] == "G":
            continue
        op["cont"] = rng.choice(CONTS)
        if op["k"] == "m":
            op["form"] = rng.choice(FORMS_M)
        elif op.get("raw"):
            if op["c"] and len(op["t"]) <= 2 and op["name"] != "SWAP" and rng.random() < 0.3:
                op.update(name="ControlledGate", form="ctrl", cv=rng.randrange(2 ** len(op["c"])))
            else:
                op["form"] = rng.choice(("gate", "moved", "block", "append"))
        else:
            op["form"] = rng.choice(("name", "class", "moved", "block"))
    return w


def _edit_gate(rng, N, C, i, old):
    """edits that re-assign fields of the live gate object number i"""
    new = rand_gate(rng, N, C)
    r = rng.random()
    if r < 0.2:
        return [{"e": "set", "i": i, "field": "label", "value": rand_text(rng, False)}]
    if r < 0.4 and len(old["t"]) > 1:
        return [{"e": "set", "i": i, "field": "t", "value": list(reversed(old["t"]))}]     # the same qubits, listed the other way round
    if r < 0.55 and old["name"] != "SWAP":
        free = [q for q in range(N) if q not in old["t"]]
        k = rng.randint(0, min(2, len(free)))
        # (targets re-assigned as a list too: a numpy / tuple target container works for gates without controls only)
        return [{"e": "set", "i": i, "field": "t", "value": list(old["t"])},
                {"e": "set", "i": i, "field": "c", "value": sorted(rng.sample(free, k), reverse=rng.random() < 0.5) if k else None}]
    return [{"e": "set", "i": i, "field": f, "value": new[f]} for f in ("name", "t", "c", "label")]


def history_case(rng, for_oracle=True):
    """a live-object history: circuit, first drawing, edits of the live objects, second drawing.  For the correspondence
    (for_oracle=False) also the class of finding C20-5 (second layout() of one renderer object on a tree without the
    repair): the model has that defect too."""
    for _ in range(50):
        w0 = random_forms(rng, rand_circuit(rng, wild=False, maxN=5, maxC=2, maxops=5))
        if not covered(w0):
            continue
        N, C = w0["N"], w0["C"]
        reuse = rng.choice(["draw"] * 5 + ["relayout"] * 3 + ["reprint"] * 2)
        edits = []
        ops = [dict(o) for o in w0["ops"]]
        for _ in range(0 if reuse == "reprint" else rng.randint(1, 3)):
            r = rng.random()
            idx = [i for i, o in enumerate(ops) if o["k"] in "gm"]
            if r < 0.5 and idx:
                i = rng.choice(idx)
                if ops[i]["k"] == "g":
                    e = _edit_gate(rng, N, C, i, ops[i])
                else:
                    st = rng.choice(list(range(C)) + ([None] if VARIANT["measBox"] else [])) if C or VARIANT["measBox"] else ops[i]["s"]
                    e = [{"e": "set", "i": i, "field": "t", "value": [rng.randrange(N)]}, {"e": "set", "i": i, "field": "s", "value": st}]
            elif r < 0.7:
                e = [{"e": "append", "op": random_forms(rng, {"ops": [rand_gate(rng, N, C)]})["ops"][0]}]
            elif r < 0.85:
                e = [{"e": "insert", "i": rng.randint(0, len(ops)), "op": random_forms(rng, {"ops": [rand_gate(rng, N, C)]})["ops"][0]}]
            elif ops:
                e = [{"e": "remove", "i": rng.randrange(len(ops))}]
            else:
                continue
            edits += e
            ops = apply_edits_spec(ops, e)
        w = {"N": N, "C": C, "style": w0["style"], "ops0": w0["ops"], "edits": edits, "ops": ops, "reuse": reuse}
        if rng.random() < 0.3:
            # the same elements drawn before by another circuit object under another style / on other wires
            sty2 = rand_style(rng, N, C)
            sty2.setdefault("gate_pad", rng.choice([0, 2, 3]))
            other = [dict(o) for o in w0["ops"]]
            for o in other:
                if o["k"] == "g" and o.get("c") and rng.random() < 0.5 and o["name"] != "SWAP":
                    o.update(t=list(o["c"][:1]) + list(o["t"][1:]), c=list(o["t"][:1]) + list(o["c"][1:]), form=None, cont="list")
            w["before"] = [{"N": N, "C": C, "style": sty2, "ops": other}]
        if covered(w if for_oracle else dict(w, reuse="draw")):
            return w
    raise RuntimeError("history generator: no covered case in 50 attempts")


def required_cells():
    """the cells every run must exercise (else the correspondence reports a coverage hole)"""
    need = {("meas",), ("meas-unstored",), ("global",), ("swap", "none", "contig", "nocc"), ("swap", "none", "gap", "nocc"),
            ("swap", "none", "contig", "cc"), ("single", "none", "single", "nocc"), ("single", "none", "single", "cc")}
    for cc in ("cc", "nocc"):
        for shape in ("single", "contig", "gap"):
            for pos in ("above", "below", "above+below"):
                need.add(("multi", pos, shape, cc))
        for pos in ("inside", "above+inside", "below+inside", "above+below+inside"):
            need.add(("multi", pos, "gap", cc))
        for shape in ("contig", "gap"):
            need.add(("multi", "none", shape, cc))
    return need


class C20(PropertyCheck):
    id = "C20"
    lean_modules = ["QipVerif.Props.C20"]
    drivers = ["drv_render"]
    theorems = [
        "QipVerif.C20.three_rows_per_wire",
        "QipVerif.C20.row_order",
        "QipVerif.C20.row_labels",
        "QipVerif.C20.aligned_after_every_step",
        "QipVerif.C20.aligned_after_every_append",
        "QipVerif.C20.aligned_final",
        "QipVerif.C20.equal_width_partial",
        "QipVerif.C20.draw_succeeds",
        "QipVerif.C20.equal_width_counterexample_inside",
        "QipVerif.C20.equal_width_counterexample_below",
        "QipVerif.C20.equal_width_refuted",
        "QipVerif.C20.labels_in_order",
        "QipVerif.C20.control_outside",
        "QipVerif.C20.links_reach_control",
        "QipVerif.C20.links_reach_swap",
        "QipVerif.C20.links_reach_measure",
        "QipVerif.C20.equal_width",
        "QipVerif.C20.draw_succeeds_valid",
        "QipVerif.C20.equal_width_witnesses_repaired",
        "QipVerif.C20.control_position",
        "QipVerif.C20.global_gate_not_drawn",
        "QipVerif.C20.global_gate_counterexample",
        "QipVerif.C20.global_gate_covered",
        "QipVerif.C20.valid_covered",
        "QipVerif.C20.well_formed_repaired",
        "QipVerif.C20.draws_iff",
        "QipVerif.C20.valid_drawable",
        "QipVerif.C20.unstored_measurement_not_drawn",
        "QipVerif.C20.unstored_measurement_counterexample",
        "QipVerif.C20.unstored_measurement_covered",
        "QipVerif.C20.unstored_measurement_box",
        "QipVerif.C20.relayout_is_fresh",
        "QipVerif.C20.relayout_counterexample",
    ]
    technique = ("Lean 4 proof (invariants of the renderer's append-only row state, by induction over the circuit; exact "
                 "characterisation of the inputs that are drawn) + model/implementation correspondence with exact string "
                 "equality, the variant of the tree read from its source")
    level_text = ("Lean 4 theorems about an executable model of TextRenderer (all of _add_wire_labels, _get_xskip, _manage_layers, "
                  "_adjust_layer_pad, _draw_*/_update_*, layout, print order; options gate_pad, wire_label, end_wire_ext, align_layer), "
                  "parametric in Render.Variant = which of the repairs fixes/C20-1..4 the tree contains (read from the source with ast "
                  "on every check). HEADLINE, repaired tree (C20-1..3 are applied in /repo, C20-4 is proposed): for EVERY valid "
                  "circuit and EVERY style the drawing succeeds, has three rows per wire and all rows have one width "
                  "(well_formed_repaired, equal_width at full strength). 'Valid' (circValid, decidable) is the property's quantifier "
                  "and nothing more: >= 1 qubit, any number of classical wires (0 included), no bound on wires or elements (two-digit "
                  "wire labels included), gate_pad > -1, end_wire_ext >= 0, any align_layer, default or one custom wire label per wire "
                  "(any strings: empty, wide, non-ASCII); gates with >= 1 target and existing pairwise distinct qubits - any number "
                  "of targets and controls, controls above / below / between the targets, targets with gaps, any name (SWAP too) "
                  "and any label (arg_label, LaTeX source, empty); one-target measurements, stored into an existing bit or not "
                  "stored; gates on the whole register (GLOBALPHASE). Classically controlled gates: the renderer never reads "
                  "classical_controls (checked on the source and by the correspondence), they are drawn as the plain gate. "
                  "For every variant, every circuit and every style whose drawing succeeds: three rows per wire in the stated order "
                  "with the wire's label at the start of its middle row (three_rows_per_wire, row_order, row_labels); len top = len "
                  "mid = len bot on every wire after every append; the boxed labels read off a qubit's middle row are, in circuit "
                  "order, the labels of the elements boxed on it (labels_in_order; no validity hypothesis). Totality, exact, every "
                  "variant: the drawing succeeds IFF the circuit is `drawable` (draws_iff: 1..N+C labels; every element of a kind "
                  "the tree draws, with >= 1 target and all wire indices < N+C; no align_layer without qubits) - so the inputs the "
                  "renderer rejects are exactly known. For circuits meeting the decidable hypothesis circOk (= every valid circuit "
                  "on the repaired tree, valid_covered): every control / SWAP / measurement link is one unbroken column from node "
                  "to box mark - controls above and below the box, and (C20-2) the node of a control between the targets inside the "
                  "box at the link column; an unstored measurement is the box M with unbroken frames, no link. REFUTED for the older "
                  "variants (kernel-decided counter-examples, reproduced on those trees, regression replays of the fixed findings): "
                  "equal widths on the shipped tree (rows of width 22 and 32 / 44), TypeError on GLOBALPHASE, TypeError on a "
                  "measurement without classical_store (still present in /repo: finding C20-4, fix proposed). The model is tied to "
                  "the code by exact string equality of every printed row: exhaustive over every placed single element on <= 4 "
                  "qubits (with and without classical controls), a matrix stream (kind x position of controls x contiguity x "
                  "classical controls x neighbouring measurements x style) with enforced coverage cells, random circuits, wide "
                  "registers (10-14 qubits, thorough: up to 24), malformed circuits; exceptions compared by class. Every case is "
                  "drawn through the file output path draw('text', save=True, file_path=<private temp dir>): the printed rows AND "
                  "the lines of the saved file are compared with the model's picture; TextRenderer(qc).layout(); .save(path) on a "
                  "further stream (half of it forced to have classical wires); the string oracle judges the printed and both "
                  "saved pictures. OBJECT FORMS: the same element enters the circuit by name string, as library class instance, "
                  "as generic Gate object, as ControlledGate(target_gate=...) with several controls / control values, moved "
                  "from another circuit, through add_circuit, appended to qc.gates, measurements by name / as Measurement object; "
                  "index containers list / numpy ints / bare ints / tuple / ndarray where the library works with them; FREDKIN, "
                  "TOFFOLI and user gates with 2-3 targets and 1-2 controls in EVERY listed order. LIVE-OBJECT HISTORIES: a "
                  "circuit is drawn, fields of its live gate objects are re-assigned, gates appended / inserted / removed, other "
                  "circuits drawn in between, then drawn again (fresh renderer, the same renderer object laid out again, printed "
                  "and saved again): the picture must be the model's picture of the circuit as it is then = the drawing of a "
                  "freshly built circuit, and every drawing must leave the gate list and every field of every element unchanged. "
                  "Contract in the model: render is a function of the current fields and the style only; the one place where the "
                  "code keeps state across calls - a second layout() on the same TextRenderer object - is modelled (relayoutSt / "
                  "render2): relayout_is_fresh for a tree with fixes/C20-5, relayout_counterexample for /repo (finding C20-5).")
    level_note = ("Full strength for the repaired variant; /repo has C20-1..4 applied. Open finding C20-5 (proposed "
                  "fixes/C20-5.patch): TextRenderer.layout() called a second time on the same renderer object writes the picture "
                  "again behind the first one; QubitCircuit.draw always makes a new renderer and is not affected. "
                  "Classical controls are not drawn by the text renderer at all (nor by the matplotlib renderer), so the clause "
                  "on links says nothing about them: a reader of the picture cannot see that a gate is classically controlled "
                  "(observation, not recorded as a finding). Outside the model: negative indices (Python wrap-around), "
                  "gate_pad <= -1 (the renderer's own assert fails), non-str labels, non-list target containers (numpy arrays, "
                  "ranges), non-int end_wire_ext. Not stated as theorems: the wire glyphs (dash vs double dash), centring of labels. "
                  "Trusted: Lean kernel; Model/Render.lean as transcription (validated by the correspondence); the harness "
                  "py/props/c20.py incl. the ast reader of the variant.")
    trusted_base = [
        "Lean 4.33 kernel; axioms propext, Classical.choice, Quot.sound",
        "lean/QipVerif/Model/Render.lean as a transcription of text_renderer.py / base_renderer.py "
        "(Python str = list of code points, += on per-wire strings = list append), validated by this correspondence "
        "(exact equality of every printed row; the variant sent to the driver is read from the tree's source)",
        "py/props/c20.py (harness: stdout capture of draw('text', save=True) and the lines of the file it writes into a private "
        "temp dir (removed afterwards), exception classes {IndexError, ValueError, TypeError}; "
        "detect_variant: ast comparison of the five box-span tests, the inside-node test, the GLOBALPHASE test and the three "
        "classical_store tests with the known old/new forms - anything else is reported as 'not recognised' and fails the check; "
        "ast scans of the StyleConfig fields and of the gate / measurement attributes the renderer reads)",
        "circValid / in_domain as the reading of the property's quantifier (valid circuits; malformed inputs are only compared, "
        "model against code, not judged)",
    ]
    assumptions = ["gate_pad > -1 (so that ceil(gate_pad) >= 0) and indices are non-negative (Python's negative-index wrap-around is outside the model)",
                   "labels contain no newline (rows are read back from the printed output line by line)",
                   "targets / controls are lists or tuples of ints, labels are str, end_wire_ext is an int (other container or "
                   "scalar types make the renderer raise TypeError/IndexError in Python operators; not modelled)"]
    rule = ("case = (N qubits, C <= 3 bits, style options, list of gates / stored and unstored measurements / whole-register gates); "
            "exhaustive stream: every placement of one gate of every shape (<= 3 targets, <= 3 controls; also classically "
            "controlled), SWAP, measurement on <= 4 qubits under 4 styles; matrix stream on 7+2 wires: 6 target shapes (single, "
            "contiguous, with gaps; sorted and unsorted) x every subset of control positions {above, inside, below} x classical "
            "controls x 6 styles x neighbouring measurements; random stream: 1-12 operations on <= 6 qubits; wide stream: 10-14 "
            "qubits; malformed stream: out-of-range wires, empty target lists, multi-target measurements, short/long/empty "
            "wire_label, negative end_wire_ext, glyphs inside labels; every required (kind, control positions, target shape, "
            "classical control) cell, every kind under each style option and every kind on >= 10 qubits must occur in the run "
            "(else a coverage disagreement); forms stream: every listed order of targets/controls of FREDKIN, TOFFOLI, user gates x "
            "object form x container type on 4+2 wires, + random forms; history stream: first drawing, 0-3 edits of the live "
            "objects, second drawing by draw / relayout / reprint, 30% after another circuit was drawn; every object form, "
            "container type, edit kind and reuse mode must occur; each case compares model picture = printed rows = saved file; non-trivial = at least one operation spanning >= 2 wires or >= 2 operations")

    # ---------------------------------------------------------------------------------
    def regenerate(self, ctx):
        """No generated Lean file: the model is parametric in `Render.Variant`; which variant the tree at
        hand is, is read from its source and sent to the driver with every request (`var=`)."""
        VARIANT.update({"spanFix": False, "insideNode": False, "globalBox": False, "measBox": False, "resetLayout": False})
        RECOGNISED[0] = False
        var, problems = detect_variant()
        VARIANT.update(var)
        ctx.log("text renderer variant: " + ", ".join(f"{k}={int(v)}" for k, v in VARIANT.items()))
        if problems:
            # the nearest variant stays selected (the correspondence then shows exactly what differs) and the
            # property sweeps cover the whole domain: no class is excused on a tree that is not a known variant
            raise TranslatorError("; ".join(problems))
        RECOGNISED[0] = True
        return []

    def _style_fields_read(self):
        """Names X of `self.style.X` in text_renderer.py and in BaseRenderer._get_xskip/_manage_layers."""
        base = os.path.join(paths.REPO, "src", "qutip_qip", "circuit")
        seen = set()
        for fn, funcs in (("text_renderer.py", None), ("base_renderer.py", {"_get_xskip", "_manage_layers"})):
            tree = ast.parse(open(os.path.join(base, fn), encoding="utf-8").read())
            for node in ast.walk(tree):
                if isinstance(node, ast.FunctionDef) and (funcs is None or node.name in funcs):
                    for a in ast.walk(node):
                        if (isinstance(a, ast.Attribute) and isinstance(a.value, ast.Attribute)
                                and a.value.attr == "style" and isinstance(a.value.value, ast.Name)
                                and a.value.value.id == "self"):
                            seen.add(a.attr)
        return seen

    def _gate_fields_read(self):
        """Names X of `gate.X` / `measurement.X` read in text_renderer.py (what the renderer looks at in a
        circuit element)."""
        path = os.path.join(paths.REPO, "src", "qutip_qip", "circuit", "text_renderer.py")
        seen = set()
        for a in ast.walk(ast.parse(open(path, encoding="utf-8").read())):
            if isinstance(a, ast.Attribute) and isinstance(a.value, ast.Name) and a.value.id in ("gate", "measurement"):
                seen.add(a.attr)
        return seen

    def _compare(self, ctx, res, cases, stream):
        """cases: list of witnesses.  One driver call for the whole batch."""
        lines = [model_line(w) for w in cases]
        outs = ctx.driver("drv_render").run(lines)
        for w, o in zip(cases, outs):
            mst, mrows = dec_rows(o)
            ist, irows, isaved = impl_draw_saved(w)      # draw("text", save=True, file_path=<private temp dir>)
            nontrivial = len(w["ops"]) >= 2 or any(
                (o_["k"] in "mG") or len(o_["t"]) + len(o_["c"] or []) >= 2 for o_ in w["ops"])
            cells = set(cell_of(o_) for o_ in w["ops"])
            kinds = sorted(set(c_[0] for c_ in cells))
            tags = [f"stream={stream}", f"N={min(w['N'], 10)}{'+' if w['N'] >= 10 else ''}", f"C={w['C']}", f"verdict={mst}",
                    f"ops={min(len(w['ops']), 12)}"] + \
                   [f"kind={k}" for k in kinds] + [f"style={k}" for k in sorted(w["style"]) if k != "ignored"] + \
                   sorted(set(f"controls={c_[1]}" for c_ in cells if len(c_) == 4 and c_[0] == "multi")) + \
                   sorted(set(f"targets={c_[2]}" for c_ in cells if len(c_) == 4 and c_[0] in ("multi", "swap")))
            if any(len(c_) == 4 and c_[3] == "cc" for c_ in cells):
                tags.append("classical-controls")
            allops = w["ops"] + w.get("ops0", []) + [e["op"] for e in w.get("edits", []) if "op" in e]
            forms = set(("g:" if o_["k"] == "g" else "m:") + form_of(o_) for o_ in allops if o_["k"] in "gm" and ("form" in o_))
            conts = set(o_["cont"] for o_ in allops if "cont" in o_)
            tags += sorted("form=" + f for f in forms) + sorted("cont=" + c_ for c_ in conts)
            if "before" in w:
                tags.append("drawn-after-another-circuit")
            if "ops0" in w or "reuse" in w:
                tags += ["reuse=" + w.get("reuse", "draw")] + sorted(set("edit=" + (e["e"] + (":" + e["field"] if e["e"] == "set" else ""))
                                                                          for e in w.get("edits", [])))
            if mst == "ok":
                self.forms |= forms | set("cont=" + c_ for c_ in conts) | ({"reuse=" + w["reuse"]} if "reuse" in w else set()) | \
                    set("edit=" + e["e"] for e in w.get("edits", []))
            if mst == "ok":
                self.cells |= cells
                for c_ in cells:
                    self.cells_style |= {(c_[0], k) for k in w["style"] if k != "ignored"}
                    if w["N"] >= 10:
                        self.cells_wide.add(c_[0])
            if any(o_["k"] == "g" and gap_gate(o_) for o_ in w["ops"]):
                tags.append("class=gap-gate")
            if any(o_["k"] == "g" and inside_ctrl(o_) for o_ in w["ops"]):
                tags.append("class=control-inside-box")
            res.case(w, nontrivial=nontrivial, tags=tags)
            if mst != ist:
                res.disagree(w, mst, ist, "verdict (ok / exception class) of the drawing", w)
            elif mst == "ok" and mrows != irows:
                k = next((i for i, (a, b) in enumerate(zip(mrows, irows)) if a != b), min(len(mrows), len(irows)))
                res.disagree(w, {"row": k, "text": mrows[k] if k < len(mrows) else None, "nrows": len(mrows)},
                             {"row": k, "text": irows[k] if k < len(irows) else None, "nrows": len(irows)},
                             "printed rows differ (first differing row shown)", w)
            elif mst == "ok" and mrows != isaved:
                sv = isaved if isaved is not None else []
                k = next((i for i, (a, b) in enumerate(zip(mrows, sv)) if a != b), min(len(mrows), len(sv)))
                res.disagree(w, {"row": k, "text": mrows[k] if k < len(mrows) else None, "nrows": len(mrows)},
                             {"row": k, "text": sv[k] if k < len(sv) else None, "nrows": len(sv), "file": isaved is not None},
                             "lines of the file written by draw('text', save=True) differ from the picture "
                             "(first differing line shown; the printed rows agree with the model)", w)

    def correspondence(self, ctx, res):
        rng = ctx.rng
        self.cells, self.cells_style, self.cells_wide, self.forms = set(), set(), set(), set()
        read = self._style_fields_read()
        res.case({"style_fields_read": sorted(read)}, nontrivial=False, tags=["stream=style-fields"])
        if read != STYLE_READ:
            res.disagree({"style_fields_read": sorted(read)}, sorted(STYLE_READ), sorted(read),
                         "the renderer reads other StyleConfig fields than the model has", None)
        gread = self._gate_fields_read()
        res.case({"gate_fields_read": sorted(gread)}, nontrivial=False, tags=["stream=gate-fields"])
        if gread != GATE_READ:
            res.disagree({"gate_fields_read": sorted(gread)}, sorted(GATE_READ), sorted(gread),
                         "the renderer reads other fields of the circuit elements than the model has "
                         "(e.g. classical_controls, which the model does not draw)", None)
        # 1. exhaustive: every placed single gate / swap / measurement
        maxN = 5 if ctx.thorough else 4
        batch = []
        for N, C, op in single_gate_cases(maxN, 2 if ctx.thorough else 1):
            for sty in SINGLE_STYLES:
                batch.append({"N": N, "C": C, "style": dict(sty), "ops": [op]})
                if op["k"] == "g" and op["name"] == "Ug":    # odd-length label: bridges are one column narrower
                    batch.append({"N": N, "C": C, "style": dict(sty), "ops": [dict(op, label="abc")]})
            if C and op["k"] == "g":                         # the same element classically controlled
                batch.append({"N": N, "C": C, "style": {}, "ops": [dict(op, cc=list(range(C)))]})
        self._compare(ctx, res, batch, "single")
        res.exhaustive = True
        res.notes.append(f"exhaustive over every placement of one gate of every shape (targets<=3, controls<=3, total<=4; with and "
                         f"without classical controls), every SWAP and every stored / unstored measurement on N<={maxN} qubits, "
                         f"{len(SINGLE_STYLES)} styles, even and odd label length ({len(batch)} drawings)")
        # 1b. the matrix: kind x position of the controls x contiguity x classical controls x neighbours x style
        batch = list(matrix_cases(ctx.thorough))
        self._compare(ctx, res, batch, "matrix")
        res.notes.append(f"matrix stream on {MATRIX_N}+{MATRIX_C} wires: target shapes {[t for _, t in MATRIX_TARGETS]} x controls "
                         f"above/inside/below (every subset, one or two per side) x classical controls x {len(MATRIX_STYLES)} styles "
                         f"x neighbouring stored/unstored measurements ({len(batch)} drawings)")
        # every library gate name once, in a valid shape
        lib = []
        for nm in LIB_1Q:
            lib.append({"k": "g", "name": nm, "label": None, "t": [1], "c": None, "cc": None, "raw": False})
        for nm in LIB_2T:
            lib.append({"k": "g", "name": nm, "label": None, "t": [2, 0], "c": None, "cc": None, "raw": False})
        for nm in LIB_1C1T:
            lib.append({"k": "g", "name": nm, "label": None, "t": [0], "c": [2], "cc": [0], "raw": False})
        lib.append({"k": "g", "name": "TOFFOLI", "label": None, "t": [1], "c": [0, 2], "cc": None, "raw": False})
        lib.append({"k": "g", "name": "FREDKIN", "label": None, "t": [0, 1], "c": [2], "cc": None, "raw": False})
        self._compare(ctx, res, [{"N": 3, "C": 1, "style": {}, "ops": lib}] +
                      [{"N": 3, "C": 1, "style": {"gate_pad": 1}, "ops": [g]} for g in lib], "library")
        # 2. random circuits (the class of the known finding included: the model has the defect too)
        n = 60000 if ctx.thorough else 6000
        self._compare(ctx, res, [rand_circuit(rng, wild=False, allow_gap=True) for _ in range(n)], "random")
        # 2b. wide registers: two-digit wire labels, long links
        n = 6000 if ctx.thorough else 700
        self._compare(ctx, res, [rand_circuit(rng, wild=False, allow_gap=True, minN=10, maxN=14 if not ctx.thorough else 24,
                                              maxops=8) for _ in range(n)], "wide")
        # 2c. object forms: every listed order of targets / controls x how the element gets into the circuit x container types
        batch = list(forms_cases())
        self._compare(ctx, res, batch, "forms")
        n = 12000 if ctx.thorough else 1200
        self._compare(ctx, res, [random_forms(rng, rand_circuit(rng, wild=False, allow_gap=True, maxops=8)) for _ in range(n)],
                      "forms-random")
        res.notes.append(f"object forms: {len(batch)} systematic drawings (FREDKIN / TOFFOLI / user gates with 2-3 targets and 1-2 controls "
                         f"in every listed order, CNOT, SWAP, one-qubit gates, measurements; forms {FORMS_G} / {FORMS_M}; containers "
                         f"{CONTS}; wire labels of different lengths incl. a classical label longer than every qubit label) + {n} random")
        # 2d. live-object histories: drawn, live gate objects re-assigned / gates appended, inserted, removed, drawn again
        #     (fresh renderer, the same renderer object laid out again, or printed again); the circuit must be left unchanged
        n = 10000 if ctx.thorough else 1200
        self._compare(ctx, res, [history_case(rng, for_oracle=False) for _ in range(n)], "history")
        res.notes.append(f"live-object histories: {n} (second drawing = model picture of the circuit as it is then = drawing of a "
                         f"freshly built circuit; reuse modes {REUSE}; the circuit's gate list and all fields unchanged by every drawing)")
        # 3. malformed / unusual stream
        n = 25000 if ctx.thorough else 2500
        self._compare(ctx, res, [rand_circuit(rng, wild=True, maxN=4, maxC=2, maxops=5) for _ in range(n)], "wild")
        # 4. entry points: draw("text") = TextRenderer(qc).layout() (printed), and r.layout(); r.save(path) writes the
        #    picture the model has (every stream above went through draw("text", save=True)); half of the cases are
        #    forced to have classical wires
        ep = []
        for k in range(1500 if ctx.thorough else 300):
            w = rand_circuit(rng, wild=False, maxN=5, maxops=5)
            if k % 2 and w["C"] == 0 and "wire_label" not in w["style"]:
                w["C"] = 1 + k % 3
                w["ops"].append({"k": "m", "t": [k % w["N"]], "s": k % w["C"]})
            ep.append(w)
        outs = ctx.driver("drv_render").run([model_line(w) for w in ep])
        for w, o in zip(ep, outs):
            mst, mrows = dec_rows(o)
            st, rows = impl_draw(w)
            st2, rows2, saved2 = impl_draw_saved(w, via="layout")
            res.case({"entry": w}, nontrivial=False, tags=["stream=entry-points", f"C={w['C']}"])
            if (st, rows) != (st2, rows2):
                res.disagree(w, {"draw": st}, {"layout": st2}, "draw('text') and TextRenderer.layout() print different rows", w)
            elif (mst, mrows) != (st2, saved2):
                res.disagree(w, {"verdict": mst, "rows": mrows}, {"verdict": st2, "saved": saved2},
                             "lines of the file written by TextRenderer.layout(); .save(path) differ from the picture", w)
        save_cleanup()
        # 5. coverage obligations of the streams (only kinds the tree at hand draws are demanded)
        need = required_cells()
        if not VARIANT["measBox"]:
            need.discard(("meas-unstored",))
        if not VARIANT["globalBox"]:
            need.discard(("global",))
        kinds = set(c_[0] for c_ in need)
        holes = sorted(need - self.cells) + \
            sorted((k, o) for k in kinds for o in ("gate_pad", "wire_label", "end_wire_ext", "align_layer")
                   if (k, o) not in self.cells_style) + \
            sorted((k, "N>=10") for k in kinds if k not in self.cells_wide)
        want = set("g:" + f for f in FORMS_G) | set("m:" + f for f in FORMS_M) | set("cont=" + c_ for c_ in CONTS) | \
            {"reuse=draw", "reuse=reprint", "edit=set", "edit=append", "edit=insert", "edit=remove"} | \
            {"reuse=relayout"}
        holes += sorted(("form", x) for x in want - self.forms)
        res.case({"coverage_cells": len(self.cells)}, nontrivial=False, tags=["stream=coverage"])
        res.notes.append(f"coverage: {len(self.cells)} distinct (kind, control positions, target shape, classical controls) cells "
                         f"drawn; every kind under each of the 4 style options and on >= 10 qubits; holes: {holes}")
        if holes:
            res.disagree({"coverage": [list(h) for h in holes]}, "every required cell exercised", "holes",
                         "the streams of this run did not exercise every required (kind x position x shape x classical "
                         "control / style / wide register) cell", None)

    # ---------------------------------------------------------------------------------
    def oracle_replay(self, ctx, w):
        """The property on the real code for one witness.  A failure seen in this (long-running) process is confirmed in a
        fresh process before it is reported, so that every reported input reproduces by its replay; a failure that exists
        only after the earlier drawings of this process is turned into a witness that names them (`before`)."""
        fails, detail = self._oracle_inproc(ctx, w)
        if not fails or os.environ.get("C20_HERMETIC_CHILD"):
            self._prev = w
            return fails, detail
        # at most FRESH_MAX confirmations per run (each costs a process start); beyond that only the self-contained
        # history witnesses (deterministic: they carry their own earlier drawings) are reported unconfirmed
        if self.fresh_used >= self.FRESH_MAX:
            return (True, detail) if ("ops0" in w or "before" in w) else (False, "unconfirmed (budget of fresh processes used): " + detail)
        self.fresh_used += 1
        f2, d2 = self._oracle_fresh(w)
        if f2 is not False:
            return True, detail
        prev = getattr(self, "_prev", None)
        note = "passes in a fresh process; failed after the earlier drawings of the checking process: " + detail
        if prev is not None and "before" not in w:
            w2 = dict(w, before=[{k: v for k, v in prev.items() if k in ("N", "C", "style", "ops")}])
            f3, d3 = self._oracle_fresh(w2)
            if f3:
                self.state_witnesses.append((w2, "drawn after another circuit in the same process: " + str(d3)))
        return False, note

    state_witnesses = []
    FRESH_MAX = 10
    fresh_used = 0

    def _oracle_fresh(self, w):
        """(fails, detail) of the witness evaluated by `./check C20 --replay` in a new process; (None, …) if that cannot be run"""
        import json, subprocess
        path = _save_path() + ".witness.json"
        with open(path, "w") as fh:
            json.dump({"property": "C20", "kind": "failing-input", "witness": w}, fh)
        try:
            out = subprocess.run([os.path.join(paths.VERIF, "check"), "C20", "--replay", path], capture_output=True, text=True,
                                 timeout=120, env=dict(os.environ, C20_HERMETIC_CHILD="1", VERIF_REPO=paths.REPO)).stdout
        except Exception as e:
            return None, repr(e)
        finally:
            os.remove(path)
        line = next((l for l in out.splitlines() if l.startswith(("FAILS: ", "passes: "))), None)
        if line is None:
            return None, out[-200:]
        return line.startswith("FAILS: "), line.split(": ", 1)[1]

    def _oracle_inproc(self, ctx, w):
        del _KEEP[:]
        if not in_domain(w):
            # outside the quantifier of the property: only "the two sides agree" is claimed there
            return False, "input outside the property's domain (malformed stream)"
        st, rows, saved = impl_draw_saved(w)                 # qc.draw("text", save=True, file_path=<private temp dir>)
        hist = ""
        if "ops0" in w or "reuse" in w:
            hist = f"live circuit after {len(w.get('edits', []))} edit(s), second drawing by {w.get('reuse', 'draw')}: "
        if st == "circuit-changed-by-drawing":
            return True, hist + "drawing changed the circuit (its gate list or a field of one of its elements)"
        if st != "ok":
            return True, hist + f"drawing fails with {st}"
        bad = oracle_rows(w, rows)
        if hist:
            fst, frows = impl_draw(w)
            if (fst, frows) != ("ok", rows):
                bad.insert(0, "the drawing differs from the drawing of a freshly built circuit with the same fields")
        if bad:
            return True, hist + "; ".join(bad[:4])
        # the file output: the same clauses on the lines of the saved file, for both ways of writing it
        st2, rows2, saved2 = impl_draw_saved(w, via="layout")    # r = TextRenderer(qc); r.layout(); r.save(path)
        if st2 != "ok":
            return True, f"TextRenderer.layout() / save() fails with {st2}"
        for how, sv in (("draw('text', save=True)", saved), ("TextRenderer.layout(); .save(path)", saved2)):
            if sv is None:
                return True, f"saved file [{how}]: no file written"
            bad = oracle_rows(w, sv)
            if sv != rows:
                bad.insert(0, "the saved picture differs from the printed one")
            if bad:
                return True, f"saved file [{how}]: " + "; ".join(bad[:4])
        return False, "well-formed drawing (printed and saved)"

    def _systematic(self):
        for N, C, op in single_gate_cases(4, 1):
            if op["k"] == "g" and op["c"] == []:
                continue
            for sty in SINGLE_STYLES:
                for lab in (None, "abc"):
                    if lab and op["k"] == "m":
                        continue
                    o = dict(op, label=lab) if op["k"] == "g" else op
                    yield {"N": N, "C": C, "style": dict(sty), "ops": [o]}

    def oracle_search(self, ctx, budget_s):
        t0 = time.time()
        for w in self._systematic():
            if not covered(w):
                continue
            f, d = self.oracle_replay(ctx, w)
            if f:
                yield w, d
            if time.time() - t0 > budget_s:
                return
        for w in matrix_cases(True):
            if covered(w):
                f, d = self.oracle_replay(ctx, w)
                if f:
                    yield w, d
            if time.time() - t0 > budget_s:
                return
        for w in forms_cases():
            if covered(w):
                f, d = self.oracle_replay(ctx, w)
                if f:
                    yield w, d
            if time.time() - t0 > budget_s:
                return
        k = 0
        while time.time() - t0 < budget_s:
            k += 1
            w = rand_circuit(ctx.rng, wild=False, allow_gap=VARIANT["spanFix"] or not RECOGNISED[0], maxops=rng_small(ctx.rng))
            if k % 3 == 1:
                w = history_case(ctx.rng)
            elif k % 3 == 2:
                w = random_forms(ctx.rng, w)
            if not covered(w):
                continue
            f, d = self.oracle_replay(ctx, w)
            if f:
                yield w, d

    def oracle_always(self, ctx):
        """Sweep of the string oracle over the class the theorems cover for the variant of the tree
        (`covered`): on the repaired tree the whole domain."""
        del self.state_witnesses[:]
        self.fresh_used = 0
        yield from self._sweep(ctx)
        yield from self.state_witnesses          # failures that need an earlier drawing in the same process

    def _sweep(self, ctx):
        k = 0
        for w in self._systematic():
            k += 1
            if k % 3 and not ctx.thorough:
                continue
            if covered(w):
                f, d = self.oracle_replay(ctx, w)
                if f:
                    yield w, d
        for k, w in enumerate(matrix_cases(False)):
            if (k % 2 == 0 or ctx.thorough) and covered(w):
                f, d = self.oracle_replay(ctx, w)
                if f:
                    yield w, d
        for k, w in enumerate(forms_cases()):
            if (k % 3 == 0 or ctx.thorough) and covered(w):
                f, d = self.oracle_replay(ctx, w)
                if f:
                    yield w, d
        for k in range(6000 if ctx.thorough else 600):
            w = history_case(ctx.rng) if k % 2 else random_forms(ctx.rng, rand_circuit(ctx.rng, wild=False, maxops=6))
            if covered(w):
                f, d = self.oracle_replay(ctx, w)
                if f:
                    yield w, d
        for k in range(15000 if ctx.thorough else 1500):
            wide = k % 10 == 0
            w = rand_circuit(ctx.rng, wild=False, allow_gap=VARIANT["spanFix"] or not RECOGNISED[0], maxops=rng_small(ctx.rng),
                             minN=10 if wide else 1, maxN=13 if wide else 6)
            if covered(w):
                f, d = self.oracle_replay(ctx, w)
                if f:
                    yield w, d


def rng_small(rng):
    return rng.choice([1, 2, 3, 5, 8, 12])


CHECK = C20()
