"""C16 — the pulses a processor holds under noisy evaluation (model: lean/QipVerif/Model/SimPulse.lean).

A witness (`kind = "pnoise"`) is ONE processor (generic `Processor` with integer-valued step pulses, or a model
processor with a loaded circuit) carrying noise objects of every shipped class (ControlAmpNoise, RandomNoise,
RelaxationNoise, DecoherenceNoise, ZZCrossTalk, user `Noise` subclasses touching pulses and/or `systematic_noise`)
and a history of noisy evaluations (`get_noisy_pulses`, `get_qobjevo(noisy=True)`, `run_state`).

* correspondence: per call, the pulses returned and the pulses the processor holds afterwards, each as
  (ideal token, tokens of its coherent_noise list, tokens of its lindblad_noise list), against driver `pulses`;
* oracle (independent of the model): deep snapshots of `processor.pulses` (noise lists of every Pulse included) and of
  every noise object before/after each call, each call repeated on the same processor, and on a fresh processor."""
import ast, copy, math, os
import numpy as np

from props._c16_snap import snap, close

NOT_EVALUABLE = ("IntegratorException", "LinAlgError", "FloatingPointError", "MemoryError")


# ------------------------------------------------------------------------------------------
# which copies the code makes (flags of Sim.PCfg): source reading cross-checked by behaviour

def _func(tree, cls, name):
    for node in ast.walk(tree):
        if cls is None and isinstance(node, ast.FunctionDef) and node.name == name:
            return node
        if isinstance(node, ast.ClassDef) and node.name == cls:
            for f in node.body:
                if isinstance(f, ast.FunctionDef) and f.name == name:
                    return f
    return None


def _is_call(node, fname):
    return isinstance(node, ast.Call) and ((isinstance(node.func, ast.Name) and node.func.id == fname) or
                                           (isinstance(node.func, ast.Attribute) and node.func.attr == fname))


def _is_self_pulses(node):
    return isinstance(node, ast.Attribute) and node.attr == "pulses" and isinstance(node.value, ast.Name) \
        and node.value.id == "self"


def ast_pcfg(repo):
    from vlib.core import TranslatorError
    # Processor.get_noisy_pulses: what is the first argument of process_noise
    tree = ast.parse(open(os.path.join(repo, "src/qutip_qip/device/processor.py")).read())
    f = _func(tree, "Processor", "get_noisy_pulses")
    if f is None:
        raise TranslatorError("Processor.get_noisy_pulses not found")
    env = {}
    for st in ast.walk(f):
        if isinstance(st, ast.Assign) and len(st.targets) == 1 and isinstance(st.targets[0], ast.Name):
            env[st.targets[0].id] = st.value
    call = next((n for n in ast.walk(f) if _is_call(n, "process_noise")), None)
    if call is None or not call.args:
        raise TranslatorError("Processor.get_noisy_pulses: call of process_noise not recognised")
    a0 = call.args[0]
    if isinstance(a0, ast.Name) and a0.id in env:
        a0 = env[a0.id]
    if _is_call(a0, "deepcopy") and a0.args and _is_self_pulses(a0.args[0]):
        proc = True
    elif _is_self_pulses(a0):
        proc = False
    else:
        raise TranslatorError("Processor.get_noisy_pulses: argument of process_noise not recognised: " + ast.dump(a0)[:120])
    # process_noise: noisy_pulses = …
    tree = ast.parse(open(os.path.join(repo, "src/qutip_qip/noise.py")).read())
    f = _func(tree, None, "process_noise")
    if f is None:
        raise TranslatorError("process_noise not found")
    val = None
    for st in f.body:
        if isinstance(st, ast.Assign) and len(st.targets) == 1 and isinstance(st.targets[0], ast.Name) \
                and st.targets[0].id == "noisy_pulses":
            val = st.value
            break
    if val is None:
        raise TranslatorError("process_noise: assignment of noisy_pulses not recognised")
    if _is_call(val, "deepcopy") and val.args and isinstance(val.args[0], ast.Name) and val.args[0].id == "pulses":
        kind = "deep"
    elif isinstance(val, ast.ListComp) and _is_call(val.elt, "copy") and not _is_call(val.elt, "deepcopy"):
        kind = "shallow"
    elif isinstance(val, ast.Name) and val.id == "pulses":
        kind = "alias"
    elif _is_call(val, "list") or (isinstance(val, ast.Call) and isinstance(val.func, ast.Attribute)
                                   and val.func.attr == "copy" and not val.args):
        kind = "alias"          # a new LIST of the same Pulse objects
    else:
        raise TranslatorError("process_noise: copy of the pulses not recognised: " + ast.dump(val)[:120])
    return {"procCopy": proc, "noiseCopy": kind}


def behaviour_pcfg():
    """deep copies counted through a Pulse subclass; identity of what process_noise hands to the noise objects"""
    import qutip
    from qutip_qip.pulse import Pulse
    from qutip_qip.noise import process_noise, Noise
    from qutip_qip.device import Processor
    count = [0]

    class CountingPulse(Pulse):
        def __deepcopy__(self, memo):
            count[0] += 1
            new = self.__class__.__new__(self.__class__)
            memo[id(self)] = new
            new.__dict__.update(copy.deepcopy(self.__dict__, memo))
            return new

    def mk():
        return CountingPulse(qutip.sigmax(), 0, tlist=np.array([0.0, 1.0]), coeff=np.array([1.0]), label="p")

    seen = []

    class Spy(Noise):
        def get_noisy_pulses(self, dims=None, pulses=None, systematic_noise=None):
            seen.append(list(pulses))
            return pulses, systematic_noise

    p = mk()
    count[0] = 0
    process_noise([p], [Spy()], [2])
    n_noise = count[0]
    got = seen[-1][0]
    if got is p:
        kind = "alias"
    elif got.coherent_noise is p.coherent_noise:
        kind = "shallow"
    else:
        kind = "deep"
    if (kind == "deep") != (n_noise == 1):
        kind = "unknown(%d deep copies, %s)" % (n_noise, kind)
    proc = Processor(1)
    proc.add_control(qutip.sigmax(), 0, label="p")
    proc.pulses = [mk()]
    count[0] = 0
    proc.get_noisy_pulses()
    return {"procCopy": (count[0] - n_noise) == 1, "noiseCopy": kind}


def probe_pcfg(repo):
    from vlib.core import TranslatorError
    a = ast_pcfg(repo)
    b = behaviour_pcfg()
    if a != b:
        raise TranslatorError(f"copies of the pulses in get_noisy_pulses/process_noise: source reading {a} and "
                              f"behaviour {b} differ")
    return a


def ast_lcfg(repo):
    """A: process_noise copies the list of noise objects it is given; B: Model.get_noise returns a new list"""
    from vlib.core import TranslatorError
    tree = ast.parse(open(os.path.join(repo, "src/qutip_qip/noise.py")).read())
    f = _func(tree, None, "process_noise")
    a = False
    for st in f.body:
        if isinstance(st, ast.Assign) and len(st.targets) == 1 and isinstance(st.targets[0], ast.Name) \
                and st.targets[0].id == "noise_list":
            v = st.value
            if (isinstance(v, ast.Call) and isinstance(v.func, ast.Attribute) and v.func.attr == "copy"
                    and isinstance(v.func.value, ast.Name) and v.func.value.id == "noise_list") or \
                    ((_is_call(v, "list") or _is_call(v, "copy") or _is_call(v, "deepcopy")) and v.args
                     and isinstance(v.args[0], ast.Name) and v.args[0].id == "noise_list"):
                a = True
            else:
                raise TranslatorError("process_noise: assignment of noise_list not recognised: " + ast.dump(v)[:120])
    tree = ast.parse(open(os.path.join(repo, "src/qutip_qip/device/processor.py")).read())
    f = _func(tree, "Model", "get_noise")
    if f is None:
        raise TranslatorError("Model.get_noise not found")
    rets = [n.value for n in ast.walk(f) if isinstance(n, ast.Return) and n.value is not None
            and not (isinstance(n.value, ast.List) and not n.value.elts)]
    if len(rets) != 1:
        raise TranslatorError("Model.get_noise: return statements not recognised")
    v = rets[0]
    if isinstance(v, ast.Attribute) and v.attr == "_noise":
        b = False
    elif (_is_call(v, "list") or _is_call(v, "copy") or _is_call(v, "deepcopy")) or \
            (isinstance(v, ast.Call) and isinstance(v.func, ast.Attribute) and v.func.attr == "copy"):
        b = True
    else:
        raise TranslatorError("Model.get_noise: returned value not recognised: " + ast.dump(v)[:120])
    return {"noiseListCopy": a, "modelCopy": b}


def behaviour_lcfg():
    from qutip_qip.noise import process_noise, ControlAmpNoise
    from qutip_qip.device.processor import Model
    lst = [ControlAmpNoise(coeff=1)]
    process_noise([], lst, [2], t1=5.0)
    m = Model(1)
    m._add_noise(ControlAmpNoise(coeff=1))
    return {"noiseListCopy": len(lst) == 1, "modelCopy": m.get_noise() is not m._noise}


def probe_lcfg(repo):
    from vlib.core import TranslatorError
    a, b = ast_lcfg(repo), behaviour_lcfg()
    if a != b:
        raise TranslatorError(f"copies of the LIST of noise objects (process_noise / Model.get_noise): source reading {a} "
                              f"and behaviour {b} differ")
    return a


def lcopy_of(w, lcfg):
    """is a copy of the noise LIST made between its owner and process_noise's append, for this witness"""
    if w.get("via") == "direct" or w.get("model", "builtin") in ("duck", "sub"):
        return lcfg["noiseListCopy"]
    return lcfg["noiseListCopy"] or lcfg["modelCopy"]


def pcfg_str(p):
    return ("1" if p["procCopy"] else "0") + p["noiseCopy"][0]


# ------------------------------------------------------------------------------------------
# building the processor of a witness

class ScriptGen:
    """a deterministic `rand_gen`: the k-th draw is `vals[k]` (constant over the requested size)"""

    def __init__(self, vals):
        self.vals = list(vals)
        self.pos = 0

    def __call__(self, size=None, **kw):
        v = self.vals[self.pos] if self.pos < len(self.vals) else 0
        self.pos += 1
        return np.ones(size) * float(v)


def _zz_params(n):
    from qutip_qip.device.circuitqed import SCQubitsModel
    return SCQubitsModel(n).params


def zlike(d):
    """diag(1, …, -1): a traceless diagonal operator on a d-level component"""
    import qutip
    return qutip.sigmaz() if d == 2 else qutip.Qobj(np.diag([1.0] + [0.0] * (d - 2) + [-1.0]))


def make_user_noise(acts, ret):
    """a user Noise subclass performing the appends `acts`; `ret`: what get_noisy_pulses returns
    ("tuple", "list" = the pulses only, "none" = in-place)"""
    import qutip
    from qutip_qip.noise import Noise

    class UserNoise(Noise):
        def __init__(self, acts, ret):
            self.acts = [tuple(a) for a in acts]
            self.ret = ret

        def get_noisy_pulses(self, dims=None, pulses=None, systematic_noise=None):
            for a in self.acts:
                arr = np.ones(3) * float(a[-1])
                tl = np.array([0.0, 0.25, 0.5])
                op = zlike(dims[0])
                if a[0] == "c":
                    pulses[a[1]].add_coherent_noise(op, 0, tl, arr)
                elif a[0] == "l":
                    pulses[a[1]].add_lindblad_noise(op, 0, tl, arr)
                elif a[0] == "sc":
                    systematic_noise.add_control_noise(op, 0, tl, arr)
                elif a[0] == "sl":
                    systematic_noise.add_lindblad_noise(op, 0, tl, arr)
            if self.ret == "none":
                return None
            if self.ret == "list":
                return pulses
            return pulses, systematic_noise

    return UserNoise(acts, ret)


def make_noise(spec, n, gen, d=2):
    import qutip
    from qutip_qip.noise import ControlAmpNoise, RandomNoise, RelaxationNoise, DecoherenceNoise, ZZCrossTalk
    c = spec["c"]
    if c == "amp":
        return ControlAmpNoise(coeff=spec["coeff"], indices=(None if spec["idx"] is None else list(spec["idx"])))
    if c == "amp_arr":
        return ControlAmpNoise(coeff=np.ones(3) * float(spec["tok"]), tlist=np.array([0.0, 0.25, 0.5]),
                               indices=(None if spec["idx"] is None else list(spec["idx"])))
    if c == "rand":
        return RandomNoise(dt=0.37, rand_gen=gen, indices=(None if spec["idx"] is None else list(spec["idx"])), loc=0.0)
    if c == "relax":
        return RelaxationNoise(t1=spec["t1"], t2=spec["t2"])
    if c == "deco":
        return DecoherenceNoise(zlike(d), targets=(None if spec["all"] else 0),
                                coeff=(None if spec["tok"] is None else np.ones(3) * float(spec["tok"])),
                                tlist=(None if spec["tok"] is None else np.array([0.0, 0.25, 0.5])),
                                all_qubits=spec["all"])
    if c == "zz":
        return ZZCrossTalk(_zz_params(n))
    if c == "user":
        return make_user_noise(spec["acts"], spec.get("ret", "tuple"))
    raise ValueError(c)


def build(w):
    """-> (processor, ideal tokens per held pulse, generator, noise objects added by the harness)"""
    import qutip
    from qutip_qip.device import Processor, LinearSpinChain, CircularSpinChain, DispersiveCavityQED, SCQubits
    from qutip_qip.circuit import QubitCircuit
    gen = ScriptGen(w.get("rng") or [])
    n = w["n"]
    kw = {}
    if w.get("t1") is not None:
        kw["t1"] = w["t1"]
    if w.get("t2") is not None:
        kw["t2"] = w["t2"]
    if w["proc"] == "generic":
        ops = [qutip.sigmax(), qutip.sigmay(), qutip.sigmaz()]
        mk = w.get("model", "builtin")
        if mk == "duck":
            proc = Processor(model=DuckModel(n, {"u%d" % i: (ops[i % 3], [i % n]) for i in range(len(w["ideals"]))}, kw))
        elif mk == "sub":
            proc = Processor(model=make_sub_model(n, kw))
        else:
            proc = Processor(n, **kw)
        for i, ideal in enumerate(w["ideals"]):
            if mk != "duck":
                proc.add_control(ops[i % 3], i % n, label="u%d" % i)
        if w["ideals"]:
            proc.set_coeffs({"u%d" % i: np.ones(2) * float(v) for i, v in enumerate(w["ideals"])})
            proc.set_tlist({"u%d" % i: np.array([0.0, 0.5, 1.0]) for i, v in enumerate(w["ideals"])})
        ideals = list(w["ideals"])
    else:
        cls = {"linear": LinearSpinChain, "circular": CircularSpinChain}.get(w["proc"])
        if cls is not None:
            proc = cls(n, **kw)
        elif w["proc"] == "cqed":
            proc = DispersiveCavityQED(n, num_levels=2, **kw)
        else:
            proc = SCQubits(n, zz_crosstalk=bool(w.get("zz_builtin")), **kw)
        qc = QubitCircuit(n)
        for g in w["circuit"]:
            qc.add_gate(g["name"], targets=g["targets"], controls=g.get("controls"), arg_value=g.get("arg"))
        proc.load_circuit(qc)
        ideals = [i + 1 for i in range(len(proc.pulses))]
    objs = []
    for spec in w["noise"]:
        o = make_noise(spec, n, gen, d=proc.dims[0])
        if isinstance(proc.model, DuckModel):
            proc.model.noise_objects.append(o)
        else:
            proc.add_noise(o)
        objs.append(o)
    if w.get("via") == "direct":
        proc = DirectCall(proc.pulses, objs, proc.dims, w.get("t1"), w.get("t2"))
    return proc, ideals, gen, objs


class DuckModel:
    """a user-defined hardware model that does not inherit from Model (allowed by its documentation); `get_noise`
    hands out the model's own list"""

    def __init__(self, num_qubits, controls, params):
        self.num_qubits = num_qubits
        self.dims = [2] * num_qubits
        self.params = dict(params)
        self.controls = controls
        self.noise_objects = []

    def get_all_drift(self):
        return []

    def get_control(self, label):
        return self.controls[label]

    def get_control_labels(self):
        return list(self.controls)

    def get_noise(self):
        return self.noise_objects


def make_sub_model(n, params):
    from qutip_qip.device.processor import Model

    class SubModel(Model):
        """a user subclass of Model whose get_noise hands out its own list"""

        def get_noise(self):
            return self._noise

    return SubModel(n, **params)


class DirectCall:
    """the public function `process_noise` called with caller-owned lists of pulses and of noise objects"""

    def __init__(self, pulses, noise_list, dims, t1, t2):
        self.pulses = pulses
        self.noise_list = noise_list
        self.dims = dims
        self.t1, self.t2 = t1, t2

    @property
    def noise(self):
        return self.noise_list

    def get_noisy_pulses(self, device_noise=False):
        from qutip_qip.noise import process_noise
        return process_noise(self.pulses, self.noise_list, self.dims, t1=self.t1, t2=self.t2,
                             device_noise=device_noise)


def owner_list(proc):
    """the list object that owns the noise objects"""
    if isinstance(proc, DirectCall):
        return proc.noise_list
    if isinstance(proc.model, DuckModel):
        return proc.model.noise_objects
    return getattr(proc.model, "_noise", None)


# ------------------------------------------------------------------------------------------
# reading pulses as tokens (correspondence)

def _const_int(a):
    a = np.asarray(a, dtype=float)
    if a.size and np.all(a == a.flat[0]) and float(a.flat[0]).is_integer():
        return int(a.flat[0])
    return None


def elem_token(e, pulse, ideal, n):
    """the model's token of one noise element"""
    import qutip
    co = e.coeff
    if isinstance(co, np.ndarray) and pulse is not None and isinstance(pulse.coeff, np.ndarray) \
            and e.tlist is not None and pulse.tlist is not None and np.array_equal(e.tlist, pulse.tlist) \
            and co.shape == pulse.coeff.shape and np.any(pulse.coeff != 0):
        j = int(np.argmax(pulse.coeff != 0))
        ratio = co[j] / pulse.coeff[j]
        if np.allclose(co, ratio * pulse.coeff, atol=1e-12, rtol=1e-12) and abs(ratio - round(ratio)) < 1e-9:
            return int(round(ratio)) * ideal
    if isinstance(co, np.ndarray):
        m = _const_int(co)
        return m if m is not None else "arr?"
    if co is True or co is None:
        # pulse-independent elements: recognised by operator and targets
        t = e.targets if isinstance(e.targets, (list, tuple)) else [e.targets]
        q = e.qobj
        full = q.full()
        if len(t) == 2:
            return 2000 + int(t[0])                                   # ZZ cross talk on (i, i+1)
        if np.allclose(full, np.diag(np.diag(full))):
            # diagonal: dephasing (num) of RelaxationNoise, or sigmaz of a constant DecoherenceNoise
            if abs(full[0, 0] + full[-1, -1]) < 1e-12 and abs(abs(full[0, 0]) - 1) < 1e-12:
                return 3000 + (0 if t[0] is None else int(t[0]))
            return 1000 + 10 * int(t[0]) + 2
        return 1000 + 10 * int(t[0]) + 1                                # destroy: relaxation
    return "coeff?"


def pulse_tokens(p, ideal, n):
    return (ideal, [elem_token(e, p, ideal, n) for e in p.coherent_noise],
            [elem_token(e, p, ideal, n) for e in p.lindblad_noise])


def show_pv(t):
    us = lambda l: "_".join(str(x) for x in l) if l else "e"
    return f"{t[0]}:{us(t[1])}:{us(t[2])}"


def relax_tokens(t1, t2, n):
    """elements RelaxationNoise(t1, t2) appends to systematic_noise for n qubits (None = ValueError)"""
    def tl(T):
        if T is None or (isinstance(T, (int, float)) and T > 0):
            return [T] * n
        if isinstance(T, (list, tuple)) and len(T) == n:
            return list(T)
        return None
    l1, l2 = tl(t1), tl(t2)
    if l1 is None or l2 is None:
        return None
    out = []
    for q in range(n):
        a, b = l1[q], l2[q]
        if a is not None:
            out.append(1000 + 10 * q + 1)
        if b is not None:
            if a is not None:
                if 2 * a < b:
                    return None
                if 1.0 / b - 1.0 / 2.0 / a == 0.0:
                    continue
            out.append(1000 + 10 * q + 2)
    return out


def encode_noise(spec, n):
    us = lambda l: "_".join(str(x) for x in l) if l else "e"
    idx = lambda s: "N" if s["idx"] is None else us(s["idx"])
    c = spec["c"]
    if c == "amp":
        return f"A.{idx(spec)}.{spec['coeff']}"
    if c == "amp_arr":
        return None      # encoded per processor (needs the number of pulses), see encode()
    if c == "rand":
        return f"R.{idx(spec)}"
    if c == "relax":
        t = relax_tokens(spec["t1"], spec["t2"], n)
        return None if t is None else "X." + us(t)
    if c == "deco":
        tok = (3000 if spec["tok"] is None else spec["tok"])
        toks = [(3000 + q if spec["tok"] is None else tok) for q in range(n)] if spec["all"] else [tok]
        return "D." + us(toks)
    if c == "zz":
        return "Z." + us([2000 + i for i in range(n - 1)])
    if c == "user":
        acts = []
        for a in spec["acts"]:
            acts.append({"c": f"c{a[1]}:{a[-1]}", "l": f"l{a[1]}:{a[-1]}", "sc": f"sc:{a[-1]}", "sl": f"sl:{a[-1]}"}[a[0]])
        return "U." + ("+".join(acts) if acts else "e")
    raise ValueError(c)


def encode(w, pcfg, ideals, ndims, ncalls=None, lcfg=None):
    """driver request for the first `ncalls` calls (None when the witness is outside the model: invalid t1/t2);
    `ndims` = number of components of the processor (noise objects are given `dims`)"""
    n = ndims
    k = len(ideals)
    parts = []
    for spec in w["noise"]:
        if spec["c"] == "amp_arr":
            ids = range(k) if spec["idx"] is None else spec["idx"]
            e = "U." + ("+".join(f"c{i}:{spec['tok']}" for i in ids) if len(list(ids)) else "e")
        else:
            e = encode_noise(spec, n)
        if e is None:
            return None
        parts.append(e)
    if w.get("zz_builtin"):
        parts.insert(0, encode_noise({"c": "zz"}, n))
    t12 = "N"
    if w.get("t1") is not None or w.get("t2") is not None:
        t = relax_tokens(w.get("t1"), w.get("t2"), n)
        if t is None:
            return None
        us = lambda l: "_".join(str(x) for x in l) if l else "e"
        t12 = us(t)           # RelaxationNoise(t1, t2) is appended by process_noise on every call
    calls = w["calls"] if ncalls is None else w["calls"][:ncalls]
    cs = ",".join("1" if (c[0] != "noisy" or c[1]) else "0" for c in calls)
    pc = dict(pcfg, procCopy=False) if w.get("via") == "direct" else pcfg      # no Processor.get_noisy_pulses in between
    return (f"pulses pcfg={pcfg_str(pc)} held={','.join(map(str, ideals)) if ideals else 'N'} "
            f"noise={';'.join(parts) if parts else 'N'} rng={','.join(map(str, w.get('rng') or [])) or 'N'} calls={cs} "
            f"t12={t12} lcopy={'1' if (lcfg is None or lcopy_of(w, lcfg)) else '0'}")


def do_call(proc, c, n):
    """one noisy evaluation; returns the value for repeat/fresh comparison (exceptions propagate)"""
    import qutip
    if c[0] == "noisy":
        return ("pulses", proc.get_noisy_pulses(device_noise=bool(c[1])))
    if c[0] == "qobjevo":
        qu, c_ops = proc.get_qobjevo(noisy=True)
        ts = [0.05, 0.3, 0.45, 0.8]
        return ("evo", [qu(t).full() for t in ts], [[co(t).full() for t in ts] for co in c_ops])
    if c[0] == "run_state":
        init = qutip.basis(proc.dims, [0] * len(proc.dims))
        try:
            r = proc.run_state(init)
        except AttributeError as e:
            if "Options" in str(e):
                return ("na", "run_state not usable with this QuTiP")
            raise
        return ("state", r.states[-1].full())
    raise ValueError(c[0])


def run_impl(w):
    """history on one processor: per call `(verdict, returned pulse tokens | None, held pulse tokens)`"""
    proc, ideals, gen, objs = build(w)
    n = w["n"]
    out = []
    for c in w["calls"]:
        try:
            r = do_call(proc, c, n)
            verdict = "ok"
        except IndexError:
            r, verdict = None, "err index"
        except Exception as e:
            r, verdict = None, "err other:" + type(e).__name__
        ret = None
        if verdict == "ok" and r[0] == "pulses":
            k = len(ideals)
            ret = []
            for i, p in enumerate(r[1]):
                if i < k:
                    ret.append(pulse_tokens(p, ideals[i], n))
                else:
                    ret.append(pulse_tokens(p, 0, n))
        held = [pulse_tokens(p, ideals[i], n) for i, p in enumerate(proc.pulses)]
        ol = owner_list(proc)
        out.append((verdict, ret, held, None if ol is None else len(ol)))
    return out, ideals, len(proc.dims)


# ------------------------------------------------------------------------------------------
# the oracle (independent of the model)

def elem_snap(e):
    return ("elem", snap(e.qobj), snap(e.targets), snap(e.tlist), snap(e.coeff))


def pulse_snap(p):
    """a Pulse as a user sees it: label, ideal element (a step pulse by its first len(tlist)-1 coefficients: some
    accessors append the value 0 at the last grid point, the same function of time), and its two noise lists"""
    coeff, tlist = p.coeff, p.tlist
    if (getattr(p, "spline_kind", None) == "step_func" and isinstance(coeff, np.ndarray) and tlist is not None
            and np.ndim(tlist) == 1 and len(coeff) == len(tlist)):
        coeff = coeff[:-1] if coeff[-1] == 0 else coeff
    return (type(p).__name__, p.label if hasattr(p, "label") else None, snap(getattr(p, "spline_kind", None)),
            snap(p.qobj) if hasattr(p, "qobj") else None, snap(p.targets) if hasattr(p, "targets") else None,
            snap(tlist), snap(None if coeff is None else (coeff if isinstance(coeff, bool) else np.array(coeff, dtype=float))),
            tuple(elem_snap(e) for e in getattr(p, "coherent_noise", [])),
            tuple(elem_snap(e) for e in getattr(p, "lindblad_noise", [])),
            snap(getattr(p, "drift_hamiltonians", None)) if type(p).__name__ == "Drift" else None)


def value_snap(r):
    if r[0] == "pulses":
        return ("pulses", tuple(pulse_snap(p) for p in r[1]))
    return snap(r)


def noise_counts(proc):
    return [(len(p.coherent_noise), len(p.lindblad_noise)) for p in proc.pulses]


def oracle_pnoise(w):
    """Noisy evaluations never change the pulses the processor holds (noise lists of every Pulse included) nor the
    noise objects; the same call repeated on the same processor, and on a freshly built processor, returns an equal
    value (the scripted generator put back to the same position)."""
    try:
        proc, ideals, gen, objs = build(w)
    except Exception as e:
        return False, "processor not constructible: " + type(e).__name__
    n = w["n"]
    held0 = tuple(pulse_snap(p) for p in proc.pulses)
    counts0 = noise_counts(proc)
    noise0 = [snap({k: v for k, v in vars(o).items() if k != "rand_gen"}) for o in proc.noise]
    ids0 = [id(p) for p in proc.pulses]
    own = owner_list(proc)
    own0 = None if own is None else [id(o) for o in own]
    for j, c in enumerate(w["calls"]):
        c = tuple(c)
        pos = gen.pos
        try:
            r = do_call(proc, c, n)
            v = value_snap(r)
        except Exception as e:
            if type(e).__name__ in NOT_EVALUABLE:
                return False, f"call {j} {c[0]} not evaluable: {type(e).__name__}"
            r, v = None, ("exc", type(e).__name__)
        pos_after = gen.pos

        def changed(when):
            if own is not None and [id(o) for o in own] != own0:
                whose = ("the caller's list of noise objects given to process_noise" if isinstance(proc, DirectCall)
                         else "the list of noise objects held by the processor's model (" + type(proc.model).__name__ + ")")
                return (f"call {j} {c[0]}{when} changed {whose}: {len(own0)} entries before, now "
                        f"{[type(o).__name__ for o in own]}")
            if [id(p) for p in proc.pulses] != ids0:
                return f"call {j} {c[0]}{when} replaced the Pulse objects held by the processor"
            cn = noise_counts(proc)
            if cn != counts0:
                i = next(i for i, (a, b) in enumerate(zip(counts0, cn)) if a != b)
                return (f"call {j} {c[0]}{when} changed the pulses held by the processor: pulse {i} "
                        f"({proc.pulses[i].label!r}) had {counts0[i][0]} coherent / {counts0[i][1]} Lindblad noise "
                        f"elements, now {cn[i][0]} / {cn[i][1]}")
            if not close(tuple(pulse_snap(p) for p in proc.pulses), held0):
                return f"call {j} {c[0]}{when} changed the pulses held by the processor"
            nz = [snap({k: v for k, v in vars(o).items() if k != "rand_gen"}) for o in proc.noise]
            if nz != noise0:
                i = next((i for i, (a, b) in enumerate(zip(noise0, nz)) if a != b), None)
                return (f"call {j} {c[0]}{when} changed the noise objects of the processor"
                        + (f" (object {i}: {type(proc.noise[i]).__name__})" if i is not None else " (their number)"))
            return None

        d = changed("")
        if d:
            return True, d
        if r is not None and r[0] == "pulses":
            # nothing returned is (or shares a noise list with) something the processor holds
            held_ids = {id(p) for p in proc.pulses} | {id(p.coherent_noise) for p in proc.pulses} | \
                       {id(p.lindblad_noise) for p in proc.pulses}
            for i, p in enumerate(r[1]):
                if id(p) in held_ids or id(p.coherent_noise) in held_ids or id(p.lindblad_noise) in held_ids:
                    return True, (f"call {j} {c[0]}: returned pulse {i} is, or shares a noise list with, a pulse the "
                                  f"processor holds")
        if v == ("na", "run_state not usable with this QuTiP"):
            continue
        # the same call again on the same processor
        gen.pos = pos
        try:
            v2 = value_snap(do_call(proc, c, n))
        except Exception as e:
            if type(e).__name__ in NOT_EVALUABLE:
                return False, f"call {j} {c[0]} (repeated) not evaluable: {type(e).__name__}"
            v2 = ("exc", type(e).__name__)
        if not close(v, v2, 1e-7):
            return True, f"call {j} {c[0]} repeated on the same processor returns a different value"
        d = changed(" (repeated)")
        if d:
            return True, d
        # the same call on a freshly built processor
        try:
            fproc, _, fgen, _ = build(w)
            fgen.pos = pos
            v3 = value_snap(do_call(fproc, c, n))
        except Exception as e:
            if type(e).__name__ in NOT_EVALUABLE:
                return False, f"call {j} {c[0]} (fresh processor) not evaluable: {type(e).__name__}"
            v3 = ("exc", type(e).__name__)
        if not close(v, v3, 1e-7):
            return True, f"call {j} {c[0]} on the used processor differs from the same call on a fresh processor"
        gen.pos = pos_after
    return False, f"{len(w['calls'])} noisy evaluations: held pulses and noise objects unchanged, repeats equal, used = fresh"


# ------------------------------------------------------------------------------------------
# generators

W_AMP = {"kind": "pnoise", "proc": "generic", "n": 1, "ideals": [3], "noise": [{"c": "amp", "idx": None, "coeff": 2}],
         "rng": [], "calls": [["noisy", False], ["noisy", False]]}
W_AMP_CHAIN = {"kind": "pnoise", "proc": "linear", "n": 2,
               "circuit": [{"name": "RX", "targets": [0], "controls": None, "arg": math.pi / 2},
                           {"name": "ISWAP", "targets": [0, 1], "controls": None, "arg": None}],
               "noise": [{"c": "amp", "idx": None, "coeff": 2}], "rng": [], "calls": [["run_state"], ["run_state"]]}
W_RAND = {"kind": "pnoise", "proc": "generic", "n": 2, "ideals": [2, 5], "noise": [{"c": "rand", "idx": [1]}],
          "rng": [4, 7, 9, 11], "calls": [["qobjevo"], ["noisy", True]]}
W_LIST_DIRECT = {"kind": "pnoise", "proc": "generic", "via": "direct", "n": 1, "ideals": [3], "t1": 20, "t2": 15,
                 "noise": [{"c": "amp", "idx": None, "coeff": 2}], "rng": [], "calls": [["noisy", True], ["noisy", True]]}
W_LIST_DUCK = {"kind": "pnoise", "proc": "generic", "model": "duck", "n": 1, "ideals": [2], "t1": 5,
               "noise": [{"c": "amp", "idx": None, "coeff": 2}], "rng": [], "calls": [["run_state"], ["run_state"]]}
W_LIST_SUB = dict(W_LIST_DUCK, model="sub", calls=[["qobjevo"], ["noisy", True]])
FIXED = [W_AMP, W_AMP_CHAIN, W_RAND, W_LIST_DIRECT, W_LIST_DUCK, W_LIST_SUB]

DEVICE_1Q = ["SNOT", "X", "RX", "RZ", "RY"]


def rand_noise_spec(rng, k, n, generic, qubits_only=True):
    r = rng.random()
    def idx():
        if k == 0 or rng.random() < 0.5:
            return None
        if rng.random() < 0.12:
            return [rng.randrange(k + 2)]            # possibly out of range: IndexError
        return sorted(rng.sample(range(k), rng.randint(1, k)))
    if r < 0.28:
        return {"c": "amp", "idx": idx(), "coeff": rng.choice([2, 3, -1, 5])}
    if r < 0.36:
        return {"c": "amp_arr", "idx": idx(), "tok": rng.choice([2, 3])}
    if r < 0.56:
        return {"c": "rand", "idx": idx()}
    if r < 0.66:
        t1 = rng.choice([None, 50, 80, [60] * n])
        t2 = rng.choice([None, 40, 50]) if not isinstance(t1, list) else rng.choice([None, [40] * n])
        if t1 is not None and t2 is not None and not isinstance(t1, list) and 2 * t1 < t2:
            t2 = t1
        return {"c": "relax", "t1": t1, "t2": t2}
    if r < 0.74:
        return {"c": "deco", "tok": rng.choice([None, 1, 2]), "all": qubits_only and rng.random() < 0.4}
    if r < 0.8 and n >= 2 and generic:
        return {"c": "zz"}
    acts = []
    for _ in range(rng.randint(0, 3)):
        kind = rng.choice(["c", "l", "sc", "sl"])
        if kind in ("c", "l"):
            if k == 0:
                continue
            acts.append([kind, rng.randrange(k), rng.choice([3, 4, 5])])
        else:
            acts.append([kind, rng.choice([6, 7])])
    return {"c": "user", "acts": acts, "ret": rng.choice(["tuple", "tuple", "list", "none"])}


def rand_pnoise(rng, thorough=False):
    generic = rng.random() < 0.6
    if generic:
        n = rng.randint(1, 3)
        k = rng.randint(1, 4)
        w = {"kind": "pnoise", "proc": "generic", "n": n, "ideals": [rng.choice([2, 3, 5, -4]) for _ in range(k)]}
        r = rng.random()
        if r < 0.25:
            w["model"] = "duck"            # user-defined hardware model (not a Model subclass)
        elif r < 0.4:
            w["model"] = "sub"             # Model subclass overriding get_noise
        elif r < 0.65:
            w["via"] = "direct"            # the public process_noise with caller-owned lists
    else:
        proc = rng.choice(["linear", "linear", "circular", "cqed", "scq"])
        n = rng.randint(2, 3) if proc in ("circular", "scq") else rng.randint(1, 3)
        gs = []
        for _ in range(rng.randint(1, 3)):
            if n >= 2 and rng.random() < 0.3 and proc != "scq":
                a = rng.randrange(n - 1)
                gs.append({"name": "ISWAP", "targets": [a, a + 1], "controls": None, "arg": None})
            elif n >= 2 and rng.random() < 0.3:
                a = rng.randrange(n - 1)
                gs.append({"name": "CNOT", "targets": [a + 1], "controls": [a], "arg": None})
            else:
                nm = rng.choice(DEVICE_1Q if proc != "scq" else ["RX", "RY", "X"])
                gs.append({"name": nm, "targets": [rng.randrange(n)], "controls": None,
                           "arg": (rng.choice([0.25, 0.5, 1.0]) * math.pi if nm in ("RX", "RY", "RZ") else None)})
        w = {"kind": "pnoise", "proc": proc, "n": n, "circuit": gs}
        if proc == "scq" and rng.random() < 0.5:
            w["zz_builtin"] = True
    if rng.random() < (0.6 if (w.get("model") or w.get("via")) else 0.25):
        w["t1"] = rng.choice([50, 100])
        if rng.random() < 0.5:
            w["t2"] = rng.choice([40, 50])
    w["rng"] = [rng.choice([1, 2, 3, 4, 6]) for _ in range(12)]
    return w


def finish_pnoise(rng, w, k):
    n = w["n"]
    noise = [rand_noise_spec(rng, k, n, w["proc"] == "generic", w["proc"] != "scq") for _ in range(rng.randint(1, 3))]
    # every history carries at least one pulse-dependent noise object two times out of three
    if rng.random() < 0.66 and not any(s["c"] in ("amp", "rand", "amp_arr") for s in noise) and k:
        noise.append({"c": rng.choice(["amp", "rand"]), "idx": None, "coeff": 2})
    w["noise"] = noise
    calls = []
    # the numerical solver only on small systems (transmon registers with O(1) noise amplitudes over hundreds of ns take seconds)
    solver_ok = w["proc"] in ("generic", "linear", "circular") or (w["proc"] == "cqed" and n <= 2)
    for _ in range(rng.randint(2, 5)):
        r = rng.random() * (1.0 if solver_ok else 0.8)
        if r < 0.55 or w.get("via") == "direct":
            calls.append(["noisy", rng.random() < 0.5])
        elif r < 0.8:
            calls.append(["qobjevo"])
        else:
            calls.append(["run_state"])
    w["calls"] = calls
    return w


def gen_pnoise(rng):
    w = rand_pnoise(rng)
    if w["proc"] == "generic":
        k = len(w["ideals"])
    else:
        try:
            base = dict(w, noise=[], calls=[])
            proc, ideals, _, _ = build(base)
            k = len(ideals)
        except Exception:
            k = 0
    return finish_pnoise(rng, w, k)
