"""C15 — T1/T2 decoherence has exactly the specified rates and keeps states physical.

Correspondence of lean/QipVerif/Model/Noise.lean with qutip_qip.noise.RelaxationNoise / process_noise /
Processor.get_noisy_pulses (which Lindblad operators, on which subsystems, with which squared prefactor, which
exception), plus the direct numerical statement of the property: decay curves from
Processor.get_qobjevo(noisy=True) + qutip.mesolve against exp(-t/t1), exp(-t/t2), rejection of invalid times, and
Hermiticity / unit trace / positivity of simulated states (support only)."""
import itertools, time, warnings
from fractions import Fraction
import numpy as np

from vlib.core import PropertyCheck


def _impl():
    import qutip
    from qutip_qip import noise
    from qutip_qip.device import Processor
    return qutip, noise, Processor


# ---- times as exact fractions <-> the values handed to the implementation ---------------------------------------
def fr(x):
    return None if x is None else Fraction(x)


def enc_frac(f):
    return "none" if f is None else f"{f.numerator}/{f.denominator}"


def enc_T(T):
    """T: None | Fraction | list of (Fraction|None)  ->  driver encoding"""
    if T is None:
        return "none"
    if isinstance(T, list):
        return "l:" + ";".join(enc_frac(x) for x in T)
    return "s:" + enc_frac(T)


def py_T(T, numpy_float=False):
    conv = (lambda x: np.float64(float(x))) if numpy_float else float
    if T is None:
        return None
    if isinstance(T, list):
        return [None if x is None else conv(x) for x in T]
    return conv(T)


def json_T(T):
    if T is None:
        return None
    if isinstance(T, list):
        return [None if x is None else str(x) for x in T]
    return str(T)


def unjson_T(T):
    if T is None:
        return None
    if isinstance(T, list):
        return [None if x is None else Fraction(x) for x in T]
    return Fraction(T)


def enc_targets(t):
    return "none" if t is None else ("-" if not t else ",".join(map(str, t)))


def spec_json(sp):
    if sp[0] == "R":
        return ["R", json_T(sp[1]), json_T(sp[2]), sp[3]]
    if sp[0] == "D":
        return ["D", sp[1], list(sp[2]), bool(sp[3])]
    return ["C"]


def spec_unjson(sp):
    if sp[0] == "R":
        return ("R", unjson_T(sp[1]), unjson_T(sp[2]), sp[3])
    if sp[0] == "D":
        return ("D", int(sp[1]), list(sp[2]), bool(sp[3]))
    return ("C",)


def classify_exc(e):
    msg = str(e)
    if isinstance(e, ValueError):
        if "Invalid relaxation time" in msg:
            return "invalidT"
        if "does not fulfill" in msg:
            return "t2gt2t1"
        return "other:ValueError:" + msg[:50]
    if isinstance(e, ZeroDivisionError):
        return "zerodiv"
    if isinstance(e, IndexError):
        return "index"
    return "other:" + type(e).__name__ + ":" + msg[:50]


def canon_element(el, user_ops):
    """one _EvoElement of systematic_noise.lindblad_noise -> (targets, kind, dim, coef^2 | 'nan', problems)"""
    qutip, _, _ = _impl()
    tg = el.targets
    tg = [int(tg)] if isinstance(tg, (int, np.integer)) else [int(t) for t in tg]
    problems = []
    if el.coeff is not True or el.tlist is not None:
        problems.append("not a time-independent operator")
    for i, u in enumerate(user_ops):
        if el.qobj is u:
            return tg, f"user{i}", (2 if el.qobj.dims == [[2], [2]] else 0), 1.0, problems
    M = el.qobj.full()
    d = M.shape[0]
    if el.qobj.dims != [[d], [d]]:
        problems.append("operator dims " + str(el.qobj.dims))
    a, n = qutip.destroy(d).full(), qutip.num(d).full()
    if not np.all(np.isfinite(M)):
        bad = ~np.isfinite(M)
        # nan * (stored zero) is nan as well: accept any non-empty subset of the operator's band
        sup = np.eye(d, k=1, dtype=bool)
        dia = np.eye(d, dtype=bool)
        kind = "destroy" if not (bad & ~sup).any() else ("num" if not (bad & ~dia).any() else "?")
        return tg, kind, d, "nan", problems
    if M[0, 1] != 0 and np.allclose(M, M[0, 1] * a, rtol=1e-14, atol=0):
        c = M[0, 1]
        kind = "destroy"
    elif M[1, 1] != 0 and np.allclose(M, M[1, 1] * n, rtol=1e-14, atol=0):
        c = M[1, 1]
        kind = "num"
    elif not M.any():
        c, kind = 0.0, "zero"
    else:
        c, kind = 0.0, "?"
    if abs(np.imag(c)) > 0:
        problems.append("complex prefactor")
    return tg, kind, d, float(np.real(c)) ** 2, problems


def build_noises(specs):
    """specs: list of ('R', t1, t2, targets) | ('D', nops, targets, allq) | ('C',) -> noise objects, user ops, encoding"""
    qutip, noise, _ = _impl()
    objs, user, enc = [], [], []
    for s in specs:
        if s[0] == "R":
            objs.append(noise.RelaxationNoise(py_T(s[1]), py_T(s[2]), s[3]))
            enc.append(f"R~{enc_T(s[1])}~{enc_T(s[2])}~{enc_targets(s[3])}")
        elif s[0] == "D":
            ops = [qutip.sigmaz() * (0.1 + 0.05 * (len(user) + i)) for i in range(s[1])]
            ids = list(range(len(user), len(user) + s[1]))
            user.extend(ops)
            objs.append(noise.DecoherenceNoise(ops, targets=(None if s[3] else s[2]), all_qubits=s[3]))
            enc.append(f"D~{','.join(map(str, ids))}~{enc_targets([] if s[3] else s[2])}~{1 if s[3] else 0}")
        else:
            # coherent noise only (acts on control pulses; there are none on an idle processor)
            objs.append(noise.ControlAmpNoise(coeff=np.array([0.01, 0.02, 0.01]), tlist=np.array([0.0, 1.0, 2.0])))
            enc.append("C")
    return objs, user, "+".join(enc) if enc else "-"


def impl_elements(via, dims, t1, t2, targets=None, specs=(), device=True, numpy_float=False):
    """-> ('ok', [canonical elements], extra problems) | (error kind, None, [])"""
    qutip, noise, Processor = _impl()
    N = len(dims)
    user = []
    with warnings.catch_warnings():
        warnings.simplefilter("ignore")
        try:
            if via == "noise":
                nz = noise.RelaxationNoise(py_T(t1, numpy_float), py_T(t2, numpy_float), targets)
                _, sysn = nz.get_noisy_pulses(dims=list(dims), pulses=[])
                els = sysn.lindblad_noise
            elif via == "process":
                objs, user, _ = build_noises(specs)
                out = noise.process_noise([], objs, list(dims), t1=py_T(t1, numpy_float), t2=py_T(t2, numpy_float),
                                          device_noise=device)
                if not device:
                    return "ok", [], ([] if out == [] else ["pulses returned without device noise"])
                els = out[-1].lindblad_noise
            else:  # processor
                objs, user, _ = build_noises(specs)
                p = Processor(N, dims=list(dims), t1=py_T(t1, numpy_float), t2=py_T(t2, numpy_float))
                for o in objs:
                    p.add_noise(o)
                els = p.get_noisy_pulses(device_noise=True)[-1].lindblad_noise
                H, c_ops = p.get_qobjevo(noisy=True)
                extra = []
                if len(c_ops) != len(els):
                    extra.append(f"get_qobjevo returned {len(c_ops)} collapse operators for {len(els)} elements")
                else:
                    for el, c in zip(els, c_ops):
                        tg = [el.targets] if isinstance(el.targets, (int, np.integer)) else list(el.targets)
                        if len(tg) != 1 or not np.all(np.isfinite(el.qobj.full())):
                            continue      # nan/inf prefactors (non-positive list entries): nothing to compare
                        exp = embed_np(el.qobj.full(), dims, tg)
                        got = c(0).full()
                        if not np.allclose(got, exp, rtol=1e-12, atol=1e-14):
                            extra.append("a collapse operator of get_qobjevo is not the element embedded on its target")
                            break
                return "ok", [canon_element(e, user) for e in els], extra
        except Exception as e:  # canonicalised
            return classify_exc(e), None, []
    return "ok", [canon_element(e, user) for e in els], []


def embed_np(M, dims, targets):
    """independent embedding of a single-subsystem operator (Kronecker product with identities)"""
    assert len(targets) == 1
    out = np.array([[1.0 + 0j]])
    for i, d in enumerate(dims):
        out = np.kron(out, M if i == targets[0] else np.eye(d))
    return out


# ---- the explicit solution proved in Lean (relaxSol2 / relaxSol3 / regSol), written with numpy -------------------
def sol2_np(R, g1, gphi, t):
    """relaxSol2 g1 (g1/2+gphi/2): populations relax with g1 towards |0><0|, coherences decay with g1/2+gphi/2"""
    e, g = np.exp(-g1 * t), np.exp(-(g1 / 2 + gphi / 2) * t)
    return np.array([[R[0, 0] + (1 - e) * R[1, 1], g * R[0, 1]], [g * R[1, 0], e * R[1, 1]]], dtype=complex)


def sol3_np(R, g1, gphi, t):
    """relaxSol3 sqrt2 g1 gphi (destroy(3), num(3))"""
    s = np.sqrt(2.0)
    e1, e2 = np.exp(-g1 * t), np.exp(-2 * g1 * t)
    a, b, c = np.exp(-(g1 / 2 + gphi / 2) * t), np.exp(-(3 * g1 / 2 + gphi / 2) * t), np.exp(-(g1 + 2 * gphi) * t)
    out = np.zeros((3, 3), dtype=complex)
    out[0, 0] = R[0, 0] + R[1, 1] + R[2, 2] - (R[1, 1] + 2 * R[2, 2]) * e1 + R[2, 2] * e2
    out[1, 1] = (R[1, 1] + 2 * R[2, 2]) * e1 - 2 * R[2, 2] * e2
    out[2, 2] = R[2, 2] * e2
    out[0, 1] = R[0, 1] * a + s * R[1, 2] * (a - b)
    out[1, 0] = R[1, 0] * a + s * R[2, 1] * (a - b)
    out[1, 2], out[2, 1] = R[1, 2] * b, R[2, 1] * b
    out[0, 2], out[2, 0] = R[0, 2] * c, R[2, 0] * c
    return out


def apply_local(rho, dims, q, fn):
    """(id x ... x fn x ... x id) rho: fn applied to every block of rho w.r.t. the other subsystems (liftL / liftR)"""
    N = len(dims)
    T = np.asarray(rho, dtype=complex).reshape(list(dims) + list(dims))
    T = np.moveaxis(T, [q, N + q], [0, 1])
    rest = T.shape[2:]
    T2 = T.reshape(dims[q], dims[q], -1).copy()
    for k in range(T2.shape[2]):
        T2[:, :, k] = fn(T2[:, :, k])
    T = np.moveaxis(T2.reshape((dims[q], dims[q]) + rest), [0, 1], [q, N + q])
    D = int(np.prod(dims))
    return T.reshape(D, D)


def explicit_state(rho0, dims, rates, t):
    """regSol: the explicit single-subsystem solution applied on every tensor factor; rates[q] = (g1, gphi)"""
    rho = np.asarray(rho0, dtype=complex)
    for q, d in enumerate(dims):
        g1, gphi = rates[q]
        rho = apply_local(rho, dims, q, (lambda R, g1=g1, gphi=gphi: (sol2_np if d == 2 else sol3_np)(R, g1, gphi, t)))
    return rho


def spec_rates(dims, t1, t2):
    """squared prefactors (destroy, num) per subsystem, written from the property: 1/t1 and 2(1/t2 - 1/(2 t1))"""
    N = len(dims)
    l1 = t1 if isinstance(t1, list) else [t1] * N
    l2 = t2 if isinstance(t2, list) else [t2] * N
    out = []
    for a, b in zip(l1, l2):
        g1 = 0.0 if a is None else 1 / float(a)
        gphi = 0.0 if b is None else float(2 / Fraction(b) - (0 if a is None else 1 / Fraction(a)))
        out.append((g1, gphi))
    return out


def restrict(T, targets, N):
    """the times that act when a RelaxationNoise is restricted to `targets`: every targeted subsystem keeps ITS OWN entry,
    the others get none"""
    if targets is None:
        return T
    l = T if isinstance(T, list) else [T] * N
    return [l[q] if q in targets else None for q in range(N)]


def good_targets(targets, N):
    return targets is None or (all(isinstance(q, int) and 0 <= q < N for q in targets) and len(set(targets)) == len(targets))


def random_targets(rng, N, strict=True):
    """an explicit targets list; strict: not the ordered prefix 0,1,..,k-1 (single target != 0, subsets, reversed order)"""
    for _ in range(50):
        tg = rng.sample(range(N), rng.randint(1, N))
        if not strict or tg != list(range(len(tg))):
            return tg
    return [N - 1]


def make_processor(dims, t1, t2, targets=None):
    """idle processor with relaxation: Processor(t1=, t2=) or, with explicit targets, Processor + add_noise(RelaxationNoise)"""
    _, noise, Processor = _impl()
    N = len(dims)
    if targets is None:
        return Processor(N, dims=list(dims), t1=py_T(t1), t2=py_T(t2))
    p = Processor(N, dims=list(dims))
    p.add_noise(noise.RelaxationNoise(py_T(t1), py_T(t2), list(targets)))
    return p


def initial_state(kind, dims, seed):
    """density matrix of the register: 'plus' | 'product' (random mixed factors) | 'entangled' (random mixed, full rank
    mixture of two random pure joint states) | 'ghz' ((|0..0> + |1..1>)/sqrt2)"""
    rs = np.random.RandomState(seed)
    D = int(np.prod(dims))

    def rand_dm(d, rank):
        A = rs.normal(size=(d, rank)) + 1j * rs.normal(size=(d, rank))
        M = A @ A.conj().T
        return M / np.trace(M).real
    if kind == "plus":
        out = np.array([[1.0 + 0j]])
        for d in dims:
            v = np.zeros(d, dtype=complex); v[0] = v[1] = 1 / np.sqrt(2)
            out = np.kron(out, np.outer(v, v.conj()))
        return out
    if kind == "product":
        out = np.array([[1.0 + 0j]])
        for d in dims:
            out = np.kron(out, rand_dm(d, rs.randint(1, d + 1)))
        return out
    if kind == "ghz":
        v = np.zeros(D, dtype=complex)
        v[0] = 1 / np.sqrt(2)
        idx = 0
        for d in dims:
            idx = idx * d + 1
        v[idx] = 1 / np.sqrt(2)
        return np.outer(v, v.conj())
    return rand_dm(D, 2)


def time_scales(dims, t1, t2):
    N = len(dims)
    l1 = t1 if isinstance(t1, list) else [t1] * N
    l2 = t2 if isinstance(t2, list) else [t2] * N
    return sorted(float(x) for x in l1 + l2 if x is not None)


def time_grid(dims, t1, t2, fracs=(0.3, 1.0), last=2.5):
    """evaluation times scaled to EVERY relaxation time of the register (scales closer than a factor 10 share their
    points), so that the decay of a long-lived subsystem next to a short-lived one is actually observed"""
    sc = time_scales(dims, t1, t2) or [1.0]
    kept = []
    for x in sc:
        if not kept or x > 10 * kept[-1]:
            kept.append(x)
    times = [0.0]
    for x in kept:
        times += [x * f for f in fracs]
    times.append(last * sc[-1])
    return sorted(set(times))


def solver_options(dims, t1, t2):
    """QuTiP's default integrator, unless the relaxation times span more than 3 decades (stiff): then lsoda"""
    sc = time_scales(dims, t1, t2) or [1.0]
    opts = {"atol": 1e-12, "rtol": 1e-10, "nsteps": 200000}
    if sc[-1] > 1e3 * sc[0]:
        opts["method"] = "lsoda"
    return opts


TIDY_FLOOR = 1e-12


def tidyup_guard(rates):
    """QuTiP removes every matrix element below settings.core['auto_tidyup_atol'] = 1e-14 (ABSOLUTE) from the Liouvillian it
    builds, so qutip.mesolve at default settings silently loses Lindblad rates below ~2e-14 per time unit (t1 > 5e13 time
    units does not decay at all) - a convention of the solver, outside the code under test.  When a squared prefactor of
    the case lies below TIDY_FLOOR the dynamics is integrated with auto_tidyup switched off (and the detail says so)."""
    import contextlib
    qutip = _impl()[0]
    small = [r for r in rates if 0 < r < TIDY_FLOOR]
    return (qutip.CoreOptions(auto_tidyup=False), True) if small else (contextlib.nullcontext(), False)


def mesolve_states(dims, t1, t2, rho0, times, targets=None):
    """the implementation: idle Processor with t1/t2 (or Processor + add_noise(RelaxationNoise(t1, t2, targets))) ->
    get_qobjevo(noisy=True) -> qutip.mesolve"""
    qutip, _, Processor = _impl()
    N = len(dims)
    r1, r2 = restrict(t1, targets, N), restrict(t2, targets, N)
    guard, _ = tidyup_guard([x for pr in spec_rates(dims, r1, r2) for x in pr])
    with guard:
        p = make_processor(dims, t1, t2, targets)
        H, c_ops = p.get_qobjevo(noisy=True)
        r0 = qutip.Qobj(rho0, dims=[list(dims), list(dims)])
        r = qutip.mesolve(H, r0, times, c_ops=c_ops, options=solver_options(dims, r1, r2))
    return [(st if st.isoper else qutip.ket2dm(st)).full() for st in r.states]


# ---- construction histories: several processors built from the SAME t1/t2 container objects --------------------------
def _container(kind, vals):
    """a mutable container handed to Processor(t1=...): 'list' | 'ndarray' | 'scalar' | 'none'"""
    if kind == "none" or vals is None:
        return None
    if kind == "scalar":
        return float(Fraction(vals))
    fl = [None if x is None else float(Fraction(x)) for x in vals]
    return np.array(fl, dtype=float) if kind == "ndarray" else fl


def build_history(w):
    """Run a construction history on the implementation and, next to it, the bookkeeping of the CONTRACT written directly:
    a processor keeps the relaxation times it was built with (a snapshot of the containers at construction) until they are
    changed through ITS OWN public attribute (in-place `p.t1[q] = x` or assignment `p.t1 = ...`); editing the caller's
    container or another processor's attribute changes nothing.
    ops: ["new", pid, cid] | ["edit_caller", cid, q, t1, t2] | ["edit_proc", pid, q, t1, t2] |
         ["assign", pid, ["list"|"ndarray"|"scalar", t1], [kind, t2]] | ["sim", pid, "pulses"|"qobjevo"|"run"]
    yields (k, pid, how, processor, expected t1, expected t2) at every "sim"."""
    _, _, Processor = _impl()
    dims = list(w["dims"])
    N = len(dims)
    cont = {}          # cid -> [t1 container object, t2 container object]  (what the caller holds)
    contv = {}         # cid -> [t1 values, t2 values] as fractions / None: the caller's view, for the bookkeeping
    for cid, c in w["containers"].items():
        cont[cid] = [_container(c["type"][0], c["t1"]), _container(c["type"][1], c["t2"])]
        contv[cid] = [unjson_T(c["t1"]), unjson_T(c["t2"])]
    procs, own = {}, {}

    def cp(T):
        return list(T) if isinstance(T, list) else T

    def setv(T, q, x):
        if isinstance(T, list):
            T[q] = x
    for k, op in enumerate(w["ops"], 1):
        if op[0] == "new":
            _, pid, cid = op
            procs[pid] = Processor(N, dims=list(dims), t1=cont[cid][0], t2=cont[cid][1])
            own[pid] = [cp(contv[cid][0]), cp(contv[cid][1])]
        elif op[0] == "edit_caller":
            _, cid, q, a, b = op
            for i, x in enumerate((a, b)):
                if isinstance(contv[cid][i], list) and x is not None:
                    cont[cid][i][q] = float(Fraction(x))
                    contv[cid][i][q] = Fraction(x)
        elif op[0] == "edit_proc":
            _, pid, q, a, b = op
            for i, x in enumerate((a, b)):
                if isinstance(own[pid][i], list) and x is not None:
                    (procs[pid].t1 if i == 0 else procs[pid].t2)[q] = float(Fraction(x))
                    own[pid][i][q] = Fraction(x)
        elif op[0] == "assign":
            _, pid, (k1, v1), (k2, v2) = op
            procs[pid].t1 = _container(k1, v1)
            procs[pid].t2 = _container(k2, v2)
            own[pid] = [unjson_T(v1) if k1 != "none" else None, unjson_T(v2) if k2 != "none" else None]
        elif op[0] == "sim":
            _, pid, how = op
            yield k, pid, how, procs[pid], cp(own[pid][0]), cp(own[pid][1])


def parse_model(ans):
    if ans.startswith("err "):
        return ans[4:].strip(), None
    body = ans[2:].strip()
    els = []
    for cell in filter(None, body.split(";")):
        tg, kind, dim, rate = cell.split(":")
        els.append(([int(x) for x in tg.split(".") if x != ""], kind, int(dim),
                    "nan" if rate == "nan" else Fraction(rate)))
    return "ok", els


def valid_times(dims, t1, t2):
    """the property's class: positive times, lists of the right length, t2 <= 2 t1 wherever both are given"""
    N = len(dims)

    def lst(T):
        if T is None:
            return [None] * N
        if isinstance(T, list):
            return T if len(T) == N else None
        return [T] * N if T > 0 else None
    l1, l2 = lst(t1), lst(t2)
    if l1 is None or l2 is None:
        return False
    for a, b in zip(l1, l2):
        if (a is not None and a <= 0) or (b is not None and b <= 0):
            return None           # non-positive list entry: the property is silent
        if a is not None and b is not None and b > 2 * a:
            return False
    return True


def dyadic(rng, lo_exp=-3, hi_exp=6, bits=10):
    return Fraction(rng.randint(2 ** (bits - 1), 2 ** bits - 1), 2 ** bits) * Fraction(2) ** rng.randint(lo_exp, hi_exp)


def snap(f):
    """the float nearest to f, as an exact fraction: model and implementation then see the very same number"""
    return Fraction(float(f))


def magnitude(rng):
    """a factor that spreads the relaxation times over 1e-6 ... 1e12 time units (the property quantifies over ALL
    positive times; a time unit of ns with t1 ~ s gives 1e9)"""
    r = rng.random()
    if r < 0.35:
        return Fraction(1)
    if r < 0.7:
        return Fraction(10) ** rng.randint(-6, 12)
    return Fraction(2) ** rng.randint(-20, 40)


def pair(rng, rel, mag=None):
    """(t1, t2) exactly representable as floats, in the requested relation, at a magnitude between 1e-6 and 1e12"""
    m = magnitude(rng) if mag is None else mag
    t1 = snap(dyadic(rng) * m)
    if rel == "boundary":
        return t1, 2 * t1
    if rel == "near":
        # just inside the boundary: relative distance 2^-6 ... 2^-9, sometimes down to 2^-30
        k = rng.randint(6, 9) if rng.random() < 0.7 else rng.randint(10, 30)
        t2 = snap(2 * t1 - t1 * Fraction(1, 2 ** k))
        assert 0 < t2 < 2 * t1
        return t1, t2
    if rel == "outside":
        t2 = snap(2 * t1 + t1 * Fraction(rng.randint(1, 2 ** 8), 2 ** 8))
        assert t2 > 2 * t1
        return t1, t2
    t2 = snap(t1 * Fraction(rng.randint(1, 2 ** 9 - 1), 2 ** 8))      # inside: 0 < t2 < 2 t1
    assert 0 < t2 < 2 * t1
    return t1, t2


def strict_variant():
    """does RelaxationNoise._T_to_list of the tree under test check the ENTRIES of a list (fixes/C15-3.patch)?  Read from the
    source with ast: an `all(...)` / `any(...)` call or a loop / comprehension inside the function."""
    import ast
    from vlib import paths
    tree = ast.parse(open(paths.REPO + "/src/qutip_qip/noise.py").read())
    for cls in tree.body:
        if isinstance(cls, ast.ClassDef) and cls.name == "RelaxationNoise":
            for fn in cls.body:
                if isinstance(fn, ast.FunctionDef) and fn.name == "_T_to_list":
                    for n in ast.walk(fn):
                        if isinstance(n, (ast.For, ast.GeneratorExp, ast.ListComp)):
                            return True
                        if isinstance(n, ast.Call) and isinstance(n.func, ast.Name) and n.func.id in ("all", "any"):
                            return True
                    return False
    raise RuntimeError("RelaxationNoise._T_to_list not found in the source")


_SV = []


def sv():
    """1 / 0: the `strict` flag of the driver for the tree under test (read once from the source)"""
    if not _SV:
        _SV.append(1 if strict_variant() else 0)
    return _SV[0]


ENTRY_POINTS = ["Processor", "OptPulseProcessor", "LinearSpinChain", "CircularSpinChain", "DispersiveCavityQED", "SCQubits",
                "Model", "SpinChainModel", "CavityQEDModel", "SCQubitsModel"]


def make_entry(name, N, t1, t2):
    """every way a user hands t1 / t2 to a processor: the processor classes, and Processor(model=<Model class>(...)) where
    the times travel through `params`"""
    qutip = _impl()[0]
    from qutip_qip import device
    from qutip_qip.device.processor import Model
    from qutip_qip.device.spinchain import SpinChainModel
    from qutip_qip.device.cavityqed import CavityQEDModel
    from qutip_qip.device.circuitqed import SCQubitsModel
    if name == "Processor":
        return device.Processor(N, t1=t1, t2=t2)
    if name == "OptPulseProcessor":
        return device.OptPulseProcessor(N, drift=qutip.tensor([qutip.sigmaz()] * N) * 0.0, t1=t1, t2=t2)
    if name == "LinearSpinChain":
        return device.LinearSpinChain(N, t1=t1, t2=t2)
    if name == "CircularSpinChain":
        return device.CircularSpinChain(N, t1=t1, t2=t2)
    if name == "DispersiveCavityQED":
        return device.DispersiveCavityQED(N, t1=t1, t2=t2)
    if name == "SCQubits":
        return device.SCQubits(N, t1=t1, t2=t2)
    if name == "Model":
        return device.Processor(model=Model(N, t1=t1, t2=t2))
    if name == "SpinChainModel":
        return device.Processor(model=SpinChainModel(N, "linear", t1=t1, t2=t2))
    if name == "CavityQEDModel":
        return device.Processor(model=CavityQEDModel(N, t1=t1, t2=t2))
    if name == "SCQubitsModel":
        return device.Processor(model=SCQubitsModel(N, t1=t1, t2=t2))
    raise ValueError(name)


_ENTRY_DIMS = {}


def entry_dims(name, N):
    """the subsystems of the entry point (the cavity-QED processor has a resonator in front of its qubits)"""
    if (name, N) not in _ENTRY_DIMS:
        with warnings.catch_warnings():
            warnings.simplefilter("ignore")
            _ENTRY_DIMS[(name, N)] = [int(d) for d in make_entry(name, N, None, None).dims]
    return _ENTRY_DIMS[(name, N)]


def form_value(form, T):
    """T (None | Fraction | list of Fraction/None) in the requested Python form: scalar float / numpy float, list, ndarray"""
    if T is None:
        return None
    if isinstance(T, list):
        fl = [None if x is None else float(x) for x in T]
        if form == "ndarray" and None not in fl:
            return np.array(fl, dtype=float)
        return fl
    return np.float64(float(T)) if form == "npfloat" else float(T)


def setup_alphabet(M, ok1, ok2):
    """the small alphabet of the validation correspondence for M subsystems; ok1, ok2: a valid pair (t2 <= 2 t1).
    -> list of (tag, t1, t2)"""
    neg, zero, tiny = -ok1, Fraction(0), Fraction(1, 2 ** 40)
    gt = 2 * ok1 + ok1 / 4
    one = {
        "none": None, "s-neg": neg, "s-zero": zero, "s-tiny": tiny, "s-ok": ok1,
        "l-ok": [ok1 * (q + 1) for q in range(M)],
        "l-neg": [ok1] * (M - 1) + [neg], "l-zero": [zero] + [ok1] * (M - 1), "l-none": [None] + [ok1] * (M - 1),
        "l-short": [ok1] * (M - 1), "l-long": [ok1] * (M + 1),
    }
    two = {
        "none": None, "s-neg": -ok2, "s-zero": zero, "s-tiny": tiny, "s-ok": ok2, "s-gt": gt, "s-boundary": 2 * ok1,
        "l-ok": [ok2] * M, "l-neg": [ok2] * (M - 1) + [-ok2], "l-zero": [zero] + [ok2] * (M - 1),
        "l-gt": [ok2] * (M - 1) + [gt], "l-short": [ok2] * (M - 1), "l-long": [ok2] * (M + 1),
    }
    return [(a + "/" + b, one[a], two[b]) for a in one for b in two]


def property_verdict(M, t1, t2):
    """C15 read directly: 'reject' (non-positive scalar, list of the wrong length, t2 > 2 t1 for a subsystem with both times),
    'accept' (everything valid), 'entry' (right length but a non-positive ENTRY: nan/inf rates, the state cannot stay physical)"""
    def bad_shape(T):
        return (isinstance(T, list) and len(T) != M) or (T is not None and not isinstance(T, list) and T <= 0)
    if bad_shape(t1) or bad_shape(t2):
        return "reject"
    l1 = t1 if isinstance(t1, list) else [t1] * M
    l2 = t2 if isinstance(t2, list) else [t2] * M
    if any(x is not None and x <= 0 for x in l1 + l2):
        return "entry"
    if any(a is not None and b is not None and b > 2 * a for a, b in zip(l1, l2)):
        return "reject"
    return "accept"


# ---- Processor.run_state with its options -----------------------------------------------------------------------------
RUN_ENTRIES = ["Processor", "OptPulseProcessor", "LinearSpinChain", "CircularSpinChain", "SCQubits"]
RUN_OPTS = {
    "args": [None, "empty", "omega"],            # absent | {} | {"omega": 2.0}
    "noisy": [None, True, False],                # default (True) | explicit
    "c_ops": [None, "one", "list"],              # extra collapse operators of the caller: a single Qobj | a list
    "e_ops": [None, "num"],                      # expectation values instead of states
    "options": [None, "tight", "maxstep"],       # solver options dict
    "tlist": ["list", "ndarray"],
    "solver": [None, "mesolve"],
    "init": ["dm", "ket", "states-kw"],          # density matrix | ket | the old keyword `states=`
    "pulse": [False, True],                      # a switched-off pulse that only defines the duration of the idle run
}


def embed_on(dims, q, M):
    qutip = _impl()[0]
    return qutip.tensor([qutip.Qobj(M) if i == q else qutip.qeye(d) for i, d in enumerate(dims)])


def run_state_case(entry, N, dims_in, t1, t2, opts, state, seed, rates):
    """run_state of an idle processor with the given options.  `rates`: squared prefactors (destroy, num) per subsystem the
    relaxation is specified to have.  -> (times, got, expected, tol, what) where got/expected are lists of arrays (states,
    absolute values for processors with a diagonal drift) or of expectation-value vectors"""
    qutip = _impl()[0]
    from qutip_qip import device
    if entry == "Processor":
        p = device.Processor(len(dims_in), dims=list(dims_in), t1=py_T(t1), t2=py_T(t2))
    elif entry == "OptPulseProcessor":
        p = device.OptPulseProcessor(N, drift=qutip.tensor([qutip.sigmaz()] * N) * 0.0, t1=py_T(t1), t2=py_T(t2))
    else:
        p = getattr(device, entry)(N, t1=py_T(t1), t2=py_T(t2))
    dims = [int(d) for d in p.dims]
    M = len(dims)
    rates = [list(r) for r in rates]
    times = time_grid(dims, t1, t2)
    scale = times[-1]
    if opts.get("noisy") is False:
        rates = [[0.0, 0.0] for _ in dims]
    kw = {}
    if opts.get("args") == "empty":
        kw["args"] = {}
    elif opts.get("args") == "omega":
        kw["args"] = {"omega": 2.0}
    if opts.get("noisy") is not None:
        kw["noisy"] = opts["noisy"]
    g = 0.7 / scale
    if opts.get("c_ops") == "one":
        kw["c_ops"] = np.sqrt(g) * embed_on(dims, 0, qutip.num(dims[0]).full())
        rates[0][1] += g
    elif opts.get("c_ops") == "list":
        kw["c_ops"] = [np.sqrt(g) * embed_on(dims, 0, qutip.num(dims[0]).full()),
                       np.sqrt(g / 2) * embed_on(dims, M - 1, qutip.num(dims[M - 1]).full())]
        rates[0][1] += g
        rates[M - 1][1] += g / 2
    e_ops = None
    if opts.get("e_ops") == "num":
        e_ops = [embed_on(dims, q, qutip.num(dims[q]).full()) for q in range(M)]
        kw["e_ops"] = e_ops
    tol = 1e-6
    if opts.get("options") == "tight":
        kw["options"] = {"nsteps": 200000, "atol": 1e-12, "rtol": 1e-10}
    elif opts.get("options") == "maxstep":
        kw["options"] = {"nsteps": 200000, "atol": 1e-11, "rtol": 1e-9, "max_step": scale / 40, "store_states": True}
    else:
        tol = 5e-5          # QuTiP's default tolerances
    kw["tlist"] = np.array(times) if opts.get("tlist") == "ndarray" else list(times)
    if opts.get("pulse") or opts.get("noisy") is False:
        # (without any pulse get_qobjevo(noisy=False) has nothing to sum: `sum([])` is the int 0 and run_state raises
        # AttributeError - an idle run without noise needs at least a switched-off pulse; observation, not part of C15)
        from qutip_qip.pulse import Pulse
        p.add_pulse(Pulse(qutip.qeye(dims[0]), 0, tlist=np.array([0.0, scale]), coeff=False))
    if opts.get("solver"):
        kw["solver"] = opts["solver"]
    rho0 = initial_state("plus" if opts.get("init") == "ket" else state, dims, seed)
    if opts.get("init") == "ket":
        v = np.ones(1, dtype=complex)
        for d in dims:
            w = np.zeros(d, dtype=complex); w[0] = w[1] = 1 / np.sqrt(2)
            v = np.kron(v, w)
        init = qutip.Qobj(v.reshape(-1, 1), dims=[dims, [1] * M])
    else:
        init = qutip.Qobj(rho0, dims=[dims, dims])
    guard, _ = tidyup_guard([x for r in rates for x in r])
    with guard:
        if opts.get("init") == "states-kw":
            res = p.run_state(states=init, **kw)
        else:
            res = p.run_state(init, **kw)
    diag_drift = entry == "SCQubits"
    exp_states = [explicit_state(rho0, dims, rates, t) for t in times]
    if e_ops is not None and not (opts.get("options") == "maxstep"):
        got = [np.array([res.expect[q][k] for q in range(M)]).real for k in range(len(times))]
        expd = [np.array([np.trace(e.full() @ st).real for e in e_ops]) for st in exp_states]
        return times, got, expd, tol, "expectation values <n_q>"
    got = [(st if st.isoper else qutip.ket2dm(st)).full() for st in res.states]
    if diag_drift:
        # the SC-qubit drift (anharmonicity) is diagonal: it leaves the populations alone but rotates the 1-2 coherence that
        # feeds the 0-1 coherence with another frequency - only the diagonal of rho follows the idle solution
        return times, [np.diag(x).real for x in got], [np.diag(x).real for x in exp_states], tol, "populations diag(rho)"
    return times, got, exp_states, tol, "rho"


def run_opts_text(opts):
    return ", ".join(f"{k}={v}" for k, v in sorted(opts.items()) if v is not None) or "defaults"


SOL_TOL = 5e-8     # mesolve is run with atol 1e-12 / rtol 1e-10 (measured worst deviation ~6e-10)


class C15(PropertyCheck):
    id = "C15"
    lean_modules = ["QipVerif.Props.C15"]
    drivers = ["drv_noise"]
    theorems = [
        "QipVerif.C15.dissipator_population",
        "QipVerif.C15.dissipator_coherence",
        "QipVerif.C15.dissipator_t1_only",
        "QipVerif.C15.dissipator_t2_only",
        "QipVerif.C15.dissipator_qutrit",
        "QipVerif.C15.prefactor_squared",
        "QipVerif.C15.trace_preserved",
        "QipVerif.C15.hermiticity_preserved",
        "QipVerif.C15.subsystems_independent",
        "QipVerif.C15.validation_T",
        "QipVerif.C15.validation_setup",
        "QipVerif.C15.validation_t2_gt_2t1",
        "QipVerif.C15.accepts_iff",
        "QipVerif.C15.boundary",
        "QipVerif.C15.C15_counterexample_orig",
        "QipVerif.C15.ops_per_subsystem",
        "QipVerif.C15.process_noise_collection",
        "QipVerif.C15.validation_T_strict",
        "QipVerif.C15.strict_agrees",
        "QipVerif.C15.strict_no_nan",
        "QipVerif.C15.C15_counterexample_list_entry",
        "QipVerif.C15.solves_iff_matrix_derivative",
        "QipVerif.C15.qubit_solution",
        "QipVerif.C15.qubit_solution_unique",
        "QipVerif.C15.exponential_laws",
        "QipVerif.C15.qubit_state_valid",
        "QipVerif.C15.valid_iff_t2_le_2t1",
        "QipVerif.C15.accepted_iff_physical",
        "QipVerif.C15.C15_unphysical_beyond_boundary",
        "QipVerif.C15.qutrit_solution",
        "QipVerif.C15.qutrit_state_valid",
        "QipVerif.C15.product_states",
        "QipVerif.C15.register_solution",
        "QipVerif.C15.register_independent",
    ]
    level_text = ("Lean 4 theorems about the exact-rational model of RelaxationNoise/process_noise: for every positive t1 and every "
                  "0 < t2 <= 2 t1 (boundary included), t1-only and t2-only, the Lindblad operators the code adds define a generator "
                  "with d/dt rho11 = -rho11/t1 and d/dt rho01 = -rho01/t2 for qubits, and the destroy(3)/num(3) analogue for "
                  "three-level subsystems; every Lindblad generator preserves trace and Hermiticity (any dimension); the set-up "
                  "rejects exactly non-positive scalars, wrong-length lists and t2 > 2 t1; each subsystem gets its own operators. "
                  "SOLUTION of the idle master equation dρ/dt = 𝓛ρ with 𝓛 built from the model's operators (Mathlib HasDerivAt, "
                  "every matrix entry, every initial matrix): the explicit ρ(t) for d = 2 (populations e^{-t/t1} towards |0><0|, "
                  "coherences e^{-t/t2}) and d = 3 solves it, starts at ρ0 and is the ONLY solution on [0,∞) (uniqueness "
                  "proved); the exponential laws are corollaries. VALIDITY: for all t >= 0 the explicit ρ(t) of a density matrix "
                  "(Mathlib Matrix.PosSemidef, trace 1) is a density matrix, for d = 2 and d = 3 (operator-sum form of the "
                  "solution); for d = 2 this holds for all states and times IF AND ONLY IF t2 <= 2 t1 (for t2 > 2 t1 |+><+| "
                  "gets a negative determinant at t = 1/(1/t1 - 2/t2)) - exactly the pairs the repaired code accepts. SEVERAL "
                  "SUBSYSTEMS: for a register of any number of qubits with per-qubit (t1,t2) the explicit joint solution solves "
                  "the joint master equation (operators embedded as 1⊗..⊗A⊗..⊗1) for EVERY initial matrix, product or entangled, "
                  "keeps density matrices density matrices (complete positivity of the qubit channel), and evolves each qubit "
                  "of a product state by its own law; for two subsystems of any dimensions the product of local solutions "
                  "solves the joint equation and is a density matrix. "
                  "The boundary t2 = 2 t1 raises ZeroDivisionError in the code as shipped (proved on the model, confirmed on the "
                  "code) and is repaired by fixes/C15-1.patch, which model and theorems describe. Model tied to the code by an exact "
                  "correspondence (targets, operator kind, dimension, verdict; squared prefactor to 1e-12) and by comparing "
                  "qutip.mesolve's ρ(t) on the implementation's (H, c_ops) with the explicit solution evaluated with the model's "
                  "prefactors (1-3 subsystems of dimension 2/3, product / entangled / GHZ initial states, boundary, t1-only, "
                  "t2-only, lists and scalars; relaxation times from 1e-6 to 1e12 time units, mixed per subsystem, evaluated "
                  "at times scaled to every t1/t2; 5e-8).")
    level_note = ("entries of per-subsystem lists: the shipped _T_to_list does not check them (non-positive entry -> nan/inf collapse "
                  "operators; proved on the model: C15_counterexample_list_entry; finding proposed with fixes/C15-3.patch); the model has "
                  "both variants (strict flag read from the source of the tree under test), validation_T_strict / strict_no_nan "
                  "describe the repaired one. partial: proved for the idle processor with relaxation noise: rates, validation, the solution of the master "
                  "equation, its uniqueness (single subsystem), validity of evolved states (single qubit / qutrit; qubit registers "
                  "with arbitrary joint states; product states of any two subsystems). NOT proved: that qutip.mesolve returns this "
                  "solution (numerical integrator: compared to 5e-8 on every check, not proved); uniqueness for several "
                  "subsystems; entangled joint states involving a three-level subsystem (numerical only); positivity with "
                  "control pulses (time-dependent Hamiltonian) or the other shipped noise models (RandomNoise, ControlAmpNoise, "
                  "DecoherenceNoise, ZZCrossTalk) - the general GKLS statement - is only checked numerically by the oracle "
                  "(eigenvalues >= -1e-6). List entries are not validated for positivity by the code (modelled, nan/inf prefactors).")
    technique = ("Lean 4 proof (exact rationals, Mathlib matrices over C, entrywise dissipator computation; explicit solutions with "
                 "HasDerivAt, integrating-factor uniqueness, operator-sum (Kraus) forms for positivity, induction over the "
                 "register) + model/implementation correspondence incl. solver-vs-explicit-solution comparison")
    trusted_base = [
        "Lean 4.33 kernel; axioms propext, Classical.choice, Quot.sound",
        "qutip.destroy(d), qutip.num(d) are the matrices a2/n2/a3/n3 of Lemmas/NoiseLindblad.lean (checked by the correspondence for d = 2, 3)",
        "qutip.mesolve integrates d rho/dt = -i[H,rho] + sum D[c](rho) for the returned (H, c_ops) (numerical solver; its rho(t) is compared with the proved explicit solution to 5e-8 on every check)",
        "positivity under control pulses / other noise models (complete positivity of general Lindblad evolution): not proved, numerical support only",
        "Pulse.add_lindblad_noise / get_noisy_qobjevo / expand_operator place each element on its target, i.e. as 1⊗..⊗A⊗..⊗1 (C08; re-checked numerically here)",
        "the numpy transcription of relaxSol2 / relaxSol3 / regSol in py/props/c15.py (sol2_np, sol3_np, explicit_state) equals the Lean definitions (by reading; 25 lines)",
        "QuTiP removes Liouvillian entries below settings.core['auto_tidyup_atol'] = 1e-14 (absolute): for squared prefactors below 1e-12 per time unit the oracle integrates with auto_tidyup off (solver convention outside the code under test; prefactors themselves are compared at full strength)",
        "py/props/c15.py (harness; exceptions canonicalised to {invalidT,t2gt2t1,zerodiv,index})",
    ]
    assumptions = ["a ZERO entry of a per-subsystem list is modelled for Python floats (ZeroDivisionError); numpy floats give inf and go on - compared in list form only while the entries are unchecked (with fixes/C15-3.patch both forms are rejected and compared)",
                   "contract for construction histories: a processor keeps the relaxation times it was built with (the constructor copies them) until they are changed through its own t1/t2 attribute; containers handed to the t1/t2 SETTER or to RelaxationNoise(...) are kept by reference in the shipped code (candidate fixes/C15-2.patch) and are not edited afterwards by the generated histories",
                   "relaxation times are Python floats or ints (numpy scalars behave identically after the patch; sampled)",
                   "idle processor (no control pulses) for the decay laws"]
    rule = ("relaxation times span 1e-6 ... 1e12 time units (10-bit dyadic mantissa x 10^k or 2^e, magnitudes independent per "
            "subsystem, each value exactly a float); "
            "case = (dims over {2,3}^N, N<=3; t1/t2 each None | scalar | per-subsystem list with optional None entries; relation "
            "t2 vs 2 t1 in {inside, near-boundary, boundary, outside}; explicit targets; entry point RelaxationNoise / "
            "process_noise / Processor; extra noise objects); exact dyadic times; non-trivial = at least one time given; "
            "malformed stream = non-positive scalars, wrong-length lists, non-positive list entries, out-of-range targets; "
            "solution cases = (dims, relation, argument shape, initial state in {|+..+>, random mixed product, random entangled "
            "mixed, GHZ}) with mesolve's rho(t) at 4 times against the explicit solution with the model's prefactors; the "
            "explicit targets = every ordered non-empty subset of the subsystems with per-subsystem lists, RelaxationNoise used "
            "directly and via Processor.add_noise (oracle kind 'targets': one object, repeated uses, other processor sizes); the "
            "run_state options = 5 entry points x all (args, noisy, caller's c_ops) combinations, e_ops / options / tlist form / solver "
            "keyword / ket, density matrix, `states=` / idle pulse cycled; "
            "validation = every processor entry point (6 processor classes + Processor(model=<4 Model classes>)) x exhaustive alphabet of "
            "11 x 13 (t1, t2) values and forms (float / numpy float / list / ndarray), verdict and operators; "
            "construction histories = several processors built from the same t1/t2 containers (list/ndarray/scalar), in-place edits "
            "of the caller's container and of other processors' t1/t2, own edits and re-assignments, simulations in between; the "
            "property oracle additionally replays histories (one processor, 0-2 extra noise objects, 1-3 requests)")

    # ---------------------------------------------------------------------------------
    def _compare(self, ctx, res, via, dims, t1, t2, targets=None, specs=(), device=True, numpy_float=False, tags=()):
        if via == "noise":
            line = f"relax fixed=1 strict={sv()} dims={','.join(map(str, dims))} t1={enc_T(t1)} t2={enc_T(t2)} targets={enc_targets(targets)}"
        else:
            _, _, encn = build_noises(specs)
            line = (f"process fixed=1 strict={sv()} dims={','.join(map(str, dims))} t1={enc_T(t1)} t2={enc_T(t2)} "
                    f"device={1 if device else 0} noises={encn}")
        model = ctx.driver("drv_noise").run([line])[0]
        mst, mels = parse_model(model)
        ist, iels, extra = impl_elements(via, dims, t1, t2, targets, specs, device, numpy_float)
        inp = {"via": via, "dims": dims, "t1": json_T(t1), "t2": json_T(t2), "targets": targets,
               "noises": [spec_json(sp) for sp in specs],
               "device": device, "np": numpy_float}
        res.case(inp, nontrivial=(t1 is not None or t2 is not None or bool(specs)),
                 tags=list(tags) + [f"via={via}", f"N={len(dims)}", "verdict=" + mst.split(":")[0]])
        v = valid_times(dims, t1, t2) if via != "noise" or targets is None else None
        if not device:
            wit = None
        elif via == "noise" and targets is not None:
            ok = valid_times(dims, t1, t2) is True and good_targets(targets, len(dims)) and len(targets) > 0
            wit = {"kind": "targets", "t1": json_T(t1), "t2": json_T(t2), "targets": list(targets),
                   "uses": [["direct", dims], ["processor", dims]]} if ok else None
        elif specs:
            # the same processor asked twice, as the Processor entry point of this correspondence does
            srcs_ok = v is True and all(valid_times(dims, sp[1], sp[2]) is True for sp in specs if sp[0] == "R")
            wit = {"kind": "history", "dims": dims, "t1": json_T(t1), "t2": json_T(t2), "noises": [spec_json(sp) for sp in specs],
                   "calls": ["pulses", "qobjevo"], "drive": False} if srcs_ok else None
        elif v is True:
            wit = {"kind": "decay", "dims": dims, "t1": json_T(t1), "t2": json_T(t2)}
        elif v is False:
            wit = {"kind": "reject", "dims": dims, "t1": json_T(t1), "t2": json_T(t2)}
        else:
            wit = None
        if mst != ist:
            res.disagree(inp, model, "err " + ist if ist != "ok" else "ok", "verdict of the noise set-up", wit)
            return
        if mst != "ok":
            return
        if extra:
            res.disagree(inp, model, extra[0], "collapse operators of get_qobjevo", wit)
            return
        impl_str = [(tg, k, d, c) for tg, k, d, c, _ in iels]
        if len(mels) != len(iels):
            res.disagree(inp, model, str(impl_str), "number of Lindblad operators", wit)
            return
        for (mt, mk, md, mr), (it, ik, idim, ic, probs) in zip(mels, iels):
            if probs:
                res.disagree(inp, model, str(impl_str), probs[0], wit)
                return
            if mt != it or mk != ik or (md != idim and not mk.startswith("user")):
                res.disagree(inp, model, str(impl_str), "target / kind / dimension of a Lindblad operator", wit)
                return
            if mr == "nan" or ic == "nan":
                if mr != ic:
                    res.disagree(inp, model, str(impl_str), "finiteness of a prefactor", wit)
                    return
                continue
            scale = abs(float(mr))
            if mk == "num" and len(mt) == 1:
                # 1/t2 - 1/(2 t1) cancels: the float error is relative to 1/t2 OF THIS SUBSYSTEM, not to the difference.
                # (Relative band only - no absolute term: rates of 1e-12 are compared as strictly as rates of 1e6.)
                q = mt[0]

                def entry(T):
                    if T is None:
                        return None
                    if isinstance(T, list):
                        return T[q] if q < len(T) else None
                    return T
                ts = [entry(t2)] + [entry(sp[2]) for sp in specs if sp[0] == "R" and (sp[3] is None or q in sp[3])]
                scale += max([2 / float(x) for x in ts if x], default=0.0)
            if abs(ic - float(mr)) > 1e-12 * scale:
                res.disagree(inp, model, str(impl_str), f"squared prefactor {ic!r} vs exact {mr} = {float(mr)!r}", wit)
                return

    def _solution_case(self, ctx, res, dims, t1, t2, kind, seed, tags=(), targets=None):
        """mesolve on the implementation's (H, c_ops) against the explicit solution (Lean: relaxSol2 / relaxSol3 / regSol)
        evaluated with the MODEL's squared prefactors, for an arbitrary initial density matrix, at 4 times"""
        line = f"relax fixed=1 strict={sv()} dims={','.join(map(str, dims))} t1={enc_T(t1)} t2={enc_T(t2)} targets={enc_targets(targets)}"
        model = ctx.driver("drv_noise").run([line])[0]
        mst, mels = parse_model(model)
        inp = {"via": "solution", "dims": dims, "t1": json_T(t1), "t2": json_T(t2), "state": kind, "seed": seed}
        wit = {"kind": "solution", "dims": dims, "t1": json_T(t1), "t2": json_T(t2), "state": kind, "seed": seed}
        if targets is not None:
            inp["targets"] = wit["targets"] = list(targets)
        res.case(inp, nontrivial=True, tags=list(tags) + ["solution", f"state={kind}", f"N={len(dims)}", "verdict=" + mst]
                 + (["explicit-targets"] if targets is not None else []))
        if mst != "ok":
            res.disagree(inp, model, "valid times (generated inside the property's class)", "model rejects valid times", wit)
            return
        rates = [[0.0, 0.0] for _ in dims]
        for tg, kd, d, r in mels:
            if r == "nan" or len(tg) != 1 or kd not in ("destroy", "num"):
                res.disagree(inp, model, "-", "unexpected operator of the model for valid times", wit)
                return
            rates[tg[0]][0 if kd == "destroy" else 1] += float(r)
        rho0 = initial_state(kind, dims, seed)
        times = time_grid(dims, restrict(t1, targets, len(dims)), restrict(t2, targets, len(dims)))
        with warnings.catch_warnings():
            warnings.simplefilter("ignore")
            try:
                states = mesolve_states(dims, t1, t2, rho0, times, targets)
            except Exception as e:  # canonicalised
                res.disagree(inp, model, "err " + classify_exc(e), "the implementation's master equation cannot be set up / integrated", wit)
                return
        for t, st in zip(times, states):
            exp = explicit_state(rho0, dims, rates, t)
            err = float(np.abs(st - exp).max())
            if not err <= SOL_TOL:
                i, j = np.unravel_index(np.abs(st - exp).argmax(), st.shape)
                res.disagree(inp, f"explicit rho({t:.4g})[{i},{j}] = {exp[i, j]:.9f}", f"mesolve {st[i, j]:.9f}",
                             f"mesolve's state differs from the explicit solution by {err:.3g}", wit)
                return

    def _run_block(self, ctx, res):
        rng = ctx.rng
        k = 0
        keys = ["e_ops", "options", "tlist", "solver", "init"]
        for entry in RUN_ENTRIES:
            for a in RUN_OPTS["args"]:
                for nz in RUN_OPTS["noisy"]:
                    for c in RUN_OPTS["c_ops"]:
                        k += 1
                        if not ctx.thorough and entry in ("OptPulseProcessor", "CircularSpinChain") and k % 3:
                            continue
                        opts = {"args": a, "noisy": nz, "c_ops": c}
                        for i, key in enumerate(keys):
                            opts[key] = RUN_OPTS[key][(k // (i + 1)) % len(RUN_OPTS[key])]
                        N = 2 if entry != "Processor" else rng.choice([1, 2, 2])
                        dims_in = [rng.choice([2, 2, 3]) for _ in range(N)] if entry == "Processor" else None
                        M = N
                        # (the SC-qubit model has a diagonal drift of a few rad per time unit: its times stay at magnitude 1)
                        mag = Fraction(1) if entry == "SCQubits" else magnitude(rng)
                        opts["pulse"] = bool(k % 2)
                        ps = [pair(rng, rng.choice(["inside", "inside", "boundary", "near"]), mag) for _ in range(M)]
                        shape = rng.choice(["s/s", "l/l", "s/none", "none/s"] if opts["options"] else ["s/s", "s/none", "none/s"])
                        t1, t2 = {"s/s": ps[0], "l/l": ([x[0] for x in ps], [x[1] for x in ps]),
                                  "s/none": (ps[0][0], None), "none/s": (None, ps[0][1])}[shape]
                        self._run_case(ctx, res, entry, N, dims_in, t1, t2, opts,
                                       rng.choice(["plus", "product", "entangled", "ghz"]), rng.randint(0, 10 ** 6))
        res.notes.append("run_state options: entry points " + ", ".join(RUN_ENTRIES) + " x all (args, noisy, c_ops) combinations, the "
                         "other options (e_ops, options dict, tlist form, solver keyword, ket / density matrix / `states=`) cycled; "
                         "states or expectation values against the explicit solution with the model's prefactors (+ the caller's "
                         "collapse operators), no decay only for noisy=False")

    def _run_case(self, ctx, res, entry, N, dims_in, t1, t2, opts, state, seed):
        from qutip_qip import device
        dims = list(dims_in) if dims_in else ([3] * N if entry == "SCQubits" else [2] * N)
        line = f"relax fixed=1 strict={sv()} dims={','.join(map(str, dims))} t1={enc_T(t1)} t2={enc_T(t2)} targets=none"
        model = ctx.driver("drv_noise").run([line])[0]
        mst, mels = parse_model(model)
        wit = {"kind": "run", "entry": entry, "n": N, "dims": dims_in, "t1": json_T(t1), "t2": json_T(t2), "opts": opts,
               "state": state, "seed": seed}
        inp = dict(wit); inp["via"] = "run_state"; del inp["kind"]
        res.case(inp, nontrivial=True, tags=["run_state", "entry=" + entry] + [f"{k}={v}" for k, v in sorted(opts.items())])
        if mst != "ok":
            res.disagree(inp, model, "valid times", "model rejects valid times", wit)
            return
        rates = [[0.0, 0.0] for _ in dims]
        for tg, kd, d, r in mels:
            rates[tg[0]][0 if kd == "destroy" else 1] += float(r)
        with warnings.catch_warnings():
            warnings.simplefilter("ignore")
            try:
                times, got, expd, tol, what = run_state_case(entry, N, dims_in, t1, t2, opts, state, seed, rates)
            except Exception as e:  # canonicalised
                res.disagree(inp, model, "err " + classify_exc(e), "run_state raised for valid times / documented options", wit)
                return
        for t, a, b in zip(times, got, expd):
            err = float(np.abs(a - b).max())
            if not err <= tol:
                res.disagree(inp, f"explicit {what} at t={t:.4g}: {np.round(b.ravel()[:4], 6)}", f"run_state: {np.round(a.ravel()[:4], 6)}",
                             f"run_state({run_opts_text(opts)}): {what} differs from the explicit solution by {err:.3g}", wit)
                return

    def _run(self, ctx, w):
        """run_state of an idle processor with relaxation, called with documented options: unless noisy=False is passed the
        result (states or expectation values) follows exp(-t/t1), exp(-t/t2) (plus the caller's own collapse operators)"""
        entry, N = w["entry"], int(w["n"])
        dims_in = w.get("dims")
        t1, t2 = unjson_T(w["t1"]), unjson_T(w["t2"])
        dims = list(dims_in) if dims_in else ([3] * N if entry == "SCQubits" else [2] * N)
        if valid_times(dims, t1, t2) is not True:
            return False, "not valid relaxation times: outside the property's class"
        opts = dict(w.get("opts", {}))
        try:
            times, got, expd, tol, what = run_state_case(entry, N, dims_in, t1, t2, opts, w.get("state", "plus"),
                                                         int(w.get("seed", 0)), spec_rates(dims, t1, t2))
        except Exception as e:
            return True, f"{entry}.run_state({run_opts_text(opts)}) raised {type(e).__name__}: {str(e)[:100]}"
        for t, a, b in zip(times, got, expd):
            err = float(np.abs(a - b).max())
            if not err <= tol:
                i = int(np.abs(a - b).argmax())
                return True, (f"{entry}({N}, t1={json_T(t1)}, t2={json_T(t2)}).run_state({run_opts_text(opts)}): {what} at t={t:.4g}: "
                              f"{a.ravel()[i]:.9f}, the decay laws give {b.ravel()[i]:.9f}")
        return False, f"run_state({run_opts_text(opts)}): {what} follows the explicit solution at {len(times)} times"

    def _run_witness(self, rng):
        entry = rng.choice(RUN_ENTRIES)
        N = 2 if entry != "Processor" else rng.choice([1, 2, 2, 3])
        dims_in = [rng.choice([2, 2, 3]) for _ in range(N)] if entry == "Processor" else None
        if dims_in and int(np.prod(dims_in)) > 12:
            dims_in = [2] * N
        mag = Fraction(1) if entry == "SCQubits" else magnitude(rng)
        ps = [pair(rng, rng.choice(["inside", "inside", "boundary", "near"]), mag) for _ in range(N)]
        opts = {k: rng.choice(v) for k, v in RUN_OPTS.items()}
        # with QuTiP's default solver options (nsteps 2500) per-subsystem times that differ by decades are not integrable:
        # lists only together with an options dict
        shape = rng.choice(["s/s", "l/l", "s/none", "none/s"] if opts["options"] else ["s/s", "s/none", "none/s"])
        t1, t2 = {"s/s": ps[0], "l/l": ([x[0] for x in ps], [x[1] for x in ps]),
                  "s/none": (ps[0][0], None), "none/s": (None, ps[0][1])}[shape]
        return {"kind": "run", "entry": entry, "n": N, "dims": dims_in, "t1": json_T(t1), "t2": json_T(t2), "opts": opts,
                "state": rng.choice(["plus", "product", "entangled", "ghz"]), "seed": rng.randint(0, 10 ** 6)}

    def _setup_block(self, ctx, res):
        """verdict (and, when accepted, the Lindblad operators) of every entry point against the model, for the alphabet
        {None, negative, 0, tiny, ok, t2 > 2 t1, boundary, lists: ok / negative entry / zero entry / None entry / too short /
        too long} x forms {float, numpy float, list, ndarray}, observed at set-up (get_noisy_pulses / get_qobjevo)"""
        rng = ctx.rng
        strict = strict_variant()
        N = 2
        k = 0
        for name in ENTRY_POINTS:
            dims = entry_dims(name, N)
            M = len(dims)
            ok1, ok2 = pair(rng, "inside", Fraction(1))
            for tag, t1, t2 in setup_alphabet(M, ok1, ok2):
                k += 1
                if not ctx.thorough and name in ("CircularSpinChain", "SpinChainModel", "CavityQEDModel") and k % 3:
                    continue
                form = ("list", "ndarray", "npfloat")[k % 3]
                if "zero" in tag and not strict:
                    # a zero ENTRY: Python floats raise ZeroDivisionError (modelled), numpy floats give inf and go on -
                    # without the entry check the model speaks about Python floats only (see `assumptions`)
                    form = "list"
                how = ("pulses", "qobjevo")[k % 2]
                self._setup_case(ctx, res, strict, name, N, dims, t1, t2, form, how, tag)
        res.notes.append("validation: every processor entry point (Processor, OptPulseProcessor, LinearSpinChain, CircularSpinChain, "
                         "DispersiveCavityQED, SCQubits and Processor(model=Model / SpinChainModel / CavityQEDModel / SCQubitsModel)) x "
                         "alphabet of 11 x 13 (t1, t2) forms and values, verdict and operators against the model "
                         f"(_T_to_list variant read from the source: entries {'checked' if strict else 'not checked'})")

    def _setup_case(self, ctx, res, strict, name, N, dims, t1, t2, form, how, tag):
        line = (f"relax fixed=1 strict={1 if strict else 0} dims={','.join(map(str, dims))} t1={enc_T(t1)} t2={enc_T(t2)} "
                f"targets=none")
        model = ctx.driver("drv_noise").run([line])[0]
        mst, mels = parse_model(model)
        inp = {"via": "setup", "entry": name, "n": N, "t1": json_T(t1), "t2": json_T(t2), "form": form, "how": how}
        res.case(inp, nontrivial=(t1 is not None or t2 is not None),
                 tags=["setup", "entry=" + name, "alphabet=" + tag, "form=" + form, "verdict=" + mst.split(":")[0]])
        wit = {"kind": "setup", "entry": name, "n": N, "t1": json_T(t1), "t2": json_T(t2), "form": form, "how": how}
        with warnings.catch_warnings():
            warnings.simplefilter("ignore")
            try:
                p = make_entry(name, N, form_value(form, t1), form_value(form, t2))
                els = p.get_noisy_pulses(device_noise=True)[-1].lindblad_noise
                if how == "qobjevo":
                    p.get_qobjevo(noisy=True)
                ist = "ok"
            except Exception as e:  # canonicalised
                ist = classify_exc(e)
        if mst != ist:
            res.disagree(inp, model, "err " + ist if ist != "ok" else "ok", f"verdict of the set-up through {name}", wit)
            return
        if mst != "ok":
            return
        got = [canon_element(e, []) for e in els]
        if len(got) != len(mels):
            res.disagree(inp, model, str([(tg, kd, d, c) for tg, kd, d, c, _ in got]), f"number of Lindblad operators through {name}", wit)
            return
        M = len(dims)
        l2 = t2 if isinstance(t2, list) else [t2] * M
        for (mt, mk, md, mr), (it, ik, idim, ic, probs) in zip(mels, got):
            band = 2 / abs(float(l2[mt[0]])) if (mk == "num" and l2[mt[0]]) else 0.0
            same = (mr == "nan" and ic == "nan") or (mr != "nan" and ic != "nan"
                                                       and abs(ic - float(mr)) <= 1e-12 * (abs(float(mr)) + band))
            if probs or mt != it or mk != ik or md != idim or not same:
                res.disagree(inp, model, str([(tg, kd, d, c) for tg, kd, d, c, _ in got]),
                             f"Lindblad operator through {name}: {ik} on {it} prefactor^2 {ic!r}, model {mk} on {mt}: {mr}", wit)
                return

    def _setup(self, ctx, w):
        """the validation clause of C15 at one entry point, judged by the property alone: invalid times must raise when the
        simulation is set up (get_noisy_pulses / get_qobjevo / the start of run_state), valid ones must be accepted, and an
        accepted configuration must not contain a non-finite collapse operator"""
        qutip = _impl()[0]
        name, N = w["entry"], int(w["n"])
        dims = entry_dims(name, N)
        M = len(dims)
        t1, t2 = unjson_T(w["t1"]), unjson_T(w["t2"])
        v = property_verdict(M, t1, t2)
        how = w.get("how", "qobjevo")
        c_ops = None
        try:
            p = make_entry(name, N, form_value(w.get("form", "list"), t1), form_value(w.get("form", "list"), t2))
            if how == "pulses":
                p.get_noisy_pulses(device_noise=True)
            if how == "run":
                d0 = qutip.basis(dims, [0] * M)
                p.run_state(d0, tlist=[0.0, 1e-3 * float(min([abs(x) for T in (t1, t2) if T is not None
                                                               for x in (T if isinstance(T, list) else [T]) if x] or [1]))],
                            options={"nsteps": 2000})
            _, c_ops = p.get_qobjevo(noisy=True)
            raised = None
        except Exception as e:
            raised = e
        desc = f"{name}({N}, t1={json_T(t1)}, t2={json_T(t2)}) [{w.get('form', 'list')}, {how}]"
        if v == "reject":
            if raised is None:
                bad = [c for c in c_ops if not np.all(np.isfinite(c(0).full()))]
                return True, (f"{desc}: invalid relaxation times accepted at set-up"
                              + (f" ({len(bad)} collapse operator(s) with nan/inf entries)" if bad else ""))
            if not isinstance(raised, ValueError):
                return True, f"{desc}: invalid relaxation times are not rejected by the validation but fail with {type(raised).__name__}: {str(raised)[:80]}"
            return False, f"rejected (ValueError)"
        if v == "accept":
            if raised is not None:
                return True, f"{desc}: valid relaxation times rejected: {type(raised).__name__}: {str(raised)[:80]}"
            if any(not np.all(np.isfinite(c(0).full())) for c in c_ops):
                return True, f"{desc}: valid relaxation times give a non-finite collapse operator"
            return False, "accepted, finite collapse operators"
        # a non-positive ENTRY of a list of the right length
        if raised is not None:
            return (False, "non-positive list entry rejected at set-up") if isinstance(raised, ValueError) else \
                (True, f"{desc}: non-positive list entry fails with {type(raised).__name__}: {str(raised)[:80]}")
        bad = [c for c in c_ops if not np.all(np.isfinite(c(0).full()))]
        if bad:
            return True, (f"{desc}: a non-positive entry of a per-subsystem list is accepted at set-up and {len(bad)} collapse "
                          f"operator(s) handed to the solver have nan/inf entries (no physical state can result)")
        return False, "accepted, all collapse operators finite"

    def _setup_witness(self, rng, entries_too=False):
        name = rng.choice(ENTRY_POINTS)
        N = rng.choice([1, 2, 2, 3]) if name not in ("CircularSpinChain",) else rng.choice([2, 3])
        if name in ("SCQubits", "SCQubitsModel", "DispersiveCavityQED", "CavityQEDModel", "LinearSpinChain", "SpinChainModel") and N < 2:
            N = 2
        M = len(entry_dims(name, N))
        ok1, ok2 = pair(rng, rng.choice(["inside", "boundary", "near"]))
        for _ in range(200):
            tag, t1, t2 = rng.choice(setup_alphabet(M, ok1, ok2))
            if entries_too or property_verdict(M, t1, t2) != "entry":
                break
        return {"kind": "setup", "entry": name, "n": N, "t1": json_T(t1), "t2": json_T(t2),
                "form": rng.choice(["list", "ndarray", "npfloat"]), "how": rng.choice(["pulses", "qobjevo", "qobjevo", "run"])}

    def _build_case(self, ctx, res, w):
        dims = w["dims"]
        inp = {"via": "build", "dims": dims, "containers": w["containers"], "ops": w["ops"]}
        res.case(inp, nontrivial=True, tags=["build-history", f"N={len(dims)}",
                                             "types=" + "/".join(sorted({c["type"][0] for c in w["containers"].values()}))])
        with warnings.catch_warnings():
            warnings.simplefilter("ignore")
            try:
                for k, pid, how, p, e1, e2 in build_history(w):
                    line = (f"process fixed=1 strict={sv()} dims={','.join(map(str, dims))} t1={enc_T(e1)} t2={enc_T(e2)} device=1 noises=-")
                    model = ctx.driver("drv_noise").run([line])[0]
                    mst, mels = parse_model(model)
                    els = [canon_element(e, []) for e in p.get_noisy_pulses(device_noise=True)[-1].lindblad_noise]
                    if mst != "ok":
                        res.disagree(inp, model, "ok", f"op {k}: model rejects the processor's own (valid) times", w)
                        return
                    bad = None
                    if len(els) != len(mels):
                        bad = "number of Lindblad operators"
                    else:
                        l2 = e2 if isinstance(e2, list) else [e2] * len(dims)
                        for (mt, mk, md, mr), (it, ik, idim, ic, probs) in zip(mels, els):
                            band = 2 / float(l2[mt[0]]) if (mk == "num" and l2[mt[0]]) else 0.0
                            if probs or mt != it or mk != ik or md != idim or ic == "nan" or mr == "nan" \
                                    or abs(ic - float(mr)) > 1e-12 * (abs(float(mr)) + band):
                                bad = f"operator {ik} on {it} with squared prefactor {ic!r}; the times processor {pid} was built with give {mk} on {mt}: {mr}"
                                break
                    if bad:
                        res.disagree(inp, model, str([(tg, kd, d, c) for tg, kd, d, c, _ in els]),
                                     f"op {k} (sim of processor {pid}): {bad}", w)
                        return
            except Exception as e:  # canonicalised
                res.disagree(inp, "ok", "err " + classify_exc(e), "a valid construction history raised", w)

    def _build_witness(self, rng):
        dims = [rng.choice([2, 2, 3]) for _ in range(rng.randint(1, 3))]
        N = len(dims)
        mag = magnitude(rng)

        def vals(rel=None):
            ps = [pair(rng, rel or rng.choice(["inside", "inside", "boundary", "near"]), mag) for _ in range(N)]
            return [x[0] for x in ps], [x[1] for x in ps]
        conts = {}
        for cid in ("A", "B")[:rng.randint(1, 2)]:
            l1, l2 = vals()
            ty = rng.choice(["list", "list", "ndarray"])
            shape = rng.choice(["l/l", "l/l", "l/l", "l/none", "s/s"])
            if shape == "l/l":
                conts[cid] = {"type": [ty, rng.choice([ty, "list"])], "t1": json_T(l1), "t2": json_T(l2)}
            elif shape == "l/none":
                conts[cid] = {"type": [ty, "none"], "t1": json_T(l1), "t2": None}
            else:
                conts[cid] = {"type": ["scalar", "scalar"], "t1": json_T(l1[0]), "t2": json_T(l2[0])}
        ops, pids = [], []

        def new(pid):
            ops.append(["new", pid, rng.choice(sorted(conts))])
            pids.append(pid)
        new("p0")
        new("p1")
        for _ in range(rng.randint(2, 5)):
            q = rng.randrange(N)
            a, b = pair(rng, rng.choice(["inside", "boundary", "near"]), mag)
            kind = rng.choice(["edit_caller", "edit_caller", "edit_proc", "edit_proc", "assign", "new", "sim"])
            cid = rng.choice(sorted(conts))
            if kind in ("edit_caller", "edit_proc"):
                c = conts[cid]
                if c["type"][0] == "scalar":
                    continue            # scalars are immutable: nothing to edit in place
                if c["type"][1] == "none":
                    b = None
                if kind == "edit_caller":
                    ops.append(["edit_caller", cid, q, json_T(a), json_T(b)])
                else:
                    # only processors built from this very container have that shape for sure
                    cand = [o[1] for o in ops if o[0] == "new" and o[2] == cid and not any(x[0] == "assign" and x[1] == o[1] for x in ops)]
                    if cand:
                        ops.append(["edit_proc", rng.choice(cand), q, json_T(a), json_T(b)])
            elif kind == "assign":
                l1, l2 = vals("inside")
                ty = rng.choice(["list", "ndarray", "scalar"])
                if ty == "scalar":
                    ops.append(["assign", rng.choice(pids), ["scalar", json_T(a)], ["scalar", json_T(b)]])
                else:
                    ops.append(["assign", rng.choice(pids), [ty, json_T(l1)], [rng.choice([ty, "none"]), json_T(l2)]])
                if ops[-1][3][0] == "none":
                    ops[-1][3][1] = None
            elif kind == "new" and len(pids) < 3:
                new("p2")
            elif kind == "sim":
                ops.append(["sim", rng.choice(pids), rng.choice(["pulses", "qobjevo", "run"])])
        # the FIRST processor is always simulated at the end, then the others
        for pid in pids:
            ops.append(["sim", pid, rng.choice(["qobjevo", "qobjevo", "run", "pulses"])])
        return {"kind": "build", "dims": dims, "containers": conts, "ops": ops}

    def _build(self, ctx, w):
        """the property on a construction history: every simulated processor decays with the relaxation times IT was built
        with / was assigned through its own attribute (exp(-t/t1[q]), exp(-t/t2[q])), whatever happened to the caller's
        containers and to other processors in between"""
        qutip = _impl()[0]
        dims = list(w["dims"])
        N = len(dims)
        n = 0
        try:
            for k, pid, how, p, e1, e2 in build_history(w):
                n += 1
                if valid_times(dims, e1, e2) is not True:
                    return False, "a processor's own times are not valid: outside the property's class"
                rates = spec_rates(dims, e1, e2)
                l1 = e1 if isinstance(e1, list) else [e1] * N
                l2 = e2 if isinstance(e2, list) else [e2] * N
                if how == "pulses":
                    els = [canon_element(e, []) for e in p.get_noisy_pulses(device_noise=True)[-1].lindblad_noise]
                    for q in range(N):
                        dsum = sum(c for tg, kd, _, c, _ in els if kd == "destroy" and tg == [q])
                        nsum = sum(c for tg, kd, _, c, _ in els if kd == "num" and tg == [q])
                        band = 2 / float(l2[q]) if l2[q] is not None else 0.0
                        if abs(dsum - rates[q][0]) > 1e-9 * rates[q][0] or abs(nsum - rates[q][1]) > 1e-9 * (rates[q][1] + band):
                            return True, (f"op {k}: processor {pid} (get_noisy_pulses): subsystem {q} relaxes with rate {dsum:.9g}, "
                                          f"dephasing prefactor^2 {nsum:.9g}; its own times t1[{q}] = {l1[q]}, t2[{q}] = {l2[q]} "
                                          f"specify {rates[q][0]:.9g}, {rates[q][1]:.9g}")
                    continue
                times = time_grid(dims, e1, e2, fracs=(0.25, 1.0))
                rho0 = qutip.ket2dm(qutip.tensor([(qutip.basis(d, 0) + qutip.basis(d, 1)).unit() for d in dims]))
                guard, _ = tidyup_guard([x for pr in rates for x in pr])
                with guard:
                    if how == "qobjevo":
                        H, c_ops = p.get_qobjevo(noisy=True)
                        states = qutip.mesolve(H, rho0, times, c_ops=c_ops, options=solver_options(dims, e1, e2)).states
                    else:
                        states = p.run_state(rho0, tlist=times, options=solver_options(dims, e1, e2)).states
                g1 = [r[0] for r in rates]
                g2 = [(1 / float(l2[q])) if l2[q] is not None else g1[q] / 2 for q in range(N)]
                bad = self._decay_check(dims, times, states, g1, g2)
                if bad:
                    return True, (f"op {k}: processor {pid} ({how}), built/assigned with t1 = {json_T(e1)}, t2 = {json_T(e2)}: " + bad)
        except Exception as e:
            return True, f"a valid construction history raised {type(e).__name__}: {str(e)[:120]}"
        return False, f"{n} simulations: every processor decays with its own relaxation times"

    def _spec_variants(self, rng, N, rel, mag=None):
        """(t1, t2) argument shapes for N subsystems with every present pair in relation `rel`; the magnitudes of the
        subsystems are independent (1e-6 ... 1e12) unless a common `mag` is given"""
        pairs = [pair(rng, rel, mag) for _ in range(N)]
        a, b = pairs[0]
        yield "s/s", a, b
        yield "s/none", a, None
        yield "none/s", None, b
        yield "l/l", [p[0] for p in pairs], [p[1] for p in pairs]
        yield "s/l", max(p[0] for p in pairs) if rel != "outside" else min(p[0] for p in pairs), \
            [min(p[1] for p in pairs) if rel != "outside" else max(p[1] for p in pairs)] * N
        holes1 = [p[0] if rng.random() < 0.6 else None for p in pairs]
        holes2 = [p[1] if rng.random() < 0.6 else None for p in pairs]
        yield "l?/l?", holes1, holes2

    def correspondence(self, ctx, res):
        rng = ctx.rng
        all_dims = [list(d) for N in (1, 2, 3) for d in itertools.product((2, 3), repeat=N)]
        vias = ["noise", "process", "processor"]
        n = 0
        for dims in all_dims:
            for rel in ("inside", "near", "boundary", "outside"):
                for shape, t1, t2 in self._spec_variants(rng, len(dims), rel):
                    for via in vias:
                        n += 1
                        self._compare(ctx, res, via, dims, t1, t2, numpy_float=(n % 7 == 0),
                                      tags=["systematic", f"rel={rel}", f"shape={shape}"])
        res.exhaustive = True
        res.notes.append("systematic over all dims in {2,3}^N (N<=3) x relation {inside, near-boundary, boundary, outside} x argument "
                         "shape {scalar/scalar, t1 only, t2 only, list/list, scalar/list, lists with None entries} with random exact "
                         "dyadic times, through each of the three entry points")
        # the solution: mesolve's rho(t) against the explicit solution with the model's rates
        sol_dims = [d for d in all_dims if int(np.prod(d)) <= (18 if ctx.thorough else 12)]
        k = 0
        for dims in sol_dims:
            for rel in ("inside", "near", "boundary"):
                for shape, t1, t2 in self._spec_variants(rng, len(dims), rel):
                    if shape == "s/l" and not ctx.thorough:
                        continue
                    k += 1
                    kind = ("plus", "product", "entangled", "ghz")[k % 4]
                    self._solution_case(ctx, res, dims, t1, t2, kind, rng.randint(0, 10 ** 6),
                                        tags=["systematic", f"rel={rel}", f"shape={shape}"])
        res.notes.append("solution: for every dims with total dimension <= 12 (thorough: 18) x {inside, near-boundary, boundary} x "
                         "argument shape, mesolve's rho(t) at 4 times from |+..+>, a random mixed product state, a random "
                         "entangled mixed state or a GHZ-like state against the explicit solution proved in Lean, evaluated "
                         f"with the model's squared prefactors (max-entry tolerance {SOL_TOL:g})")
        # explicit targets: every ordered non-empty subset of the subsystems (single target != 0, subsets, reversed order,
        # ...) with per-subsystem lists whose entries differ by decades; the RelaxationNoise is used directly and added to a
        # Processor (add_noise); then mesolve from such processors against the explicit solution
        k = 0
        for dims in [d for d in all_dims if len(d) >= 2]:
            N = len(dims)
            for r in range(1, N + 1):
                for tg in itertools.permutations(range(N), r):
                    k += 1
                    rel = ("inside", "near", "boundary", "inside")[k % 4]
                    ps = [pair(rng, rel) for _ in range(N)]
                    l1, l2 = [x[0] for x in ps], [x[1] for x in ps]
                    if k % 5 == 0:
                        l2 = [None if rng.random() < 0.4 else x for x in l2]
                    if k % 2:
                        self._compare(ctx, res, "noise", dims, l1, l2, targets=list(tg), tags=["systematic", "explicit-targets"])
                    else:
                        self._compare(ctx, res, "processor", dims, None, None, specs=[("R", l1, l2, list(tg))],
                                      tags=["systematic", "explicit-targets", "add_noise"])
        for dims in [d for d in sol_dims if len(d) >= 2]:
            for rel in ("inside", "boundary"):
                k += 1
                ps = [pair(rng, rel) for _ in range(len(dims))]
                self._solution_case(ctx, res, dims, [x[0] for x in ps], [x[1] for x in ps],
                                    ("product", "entangled", "ghz", "plus")[k % 4], rng.randint(0, 10 ** 6),
                                    tags=["systematic", f"rel={rel}"], targets=random_targets(rng, len(dims)))
        res.notes.append("explicit targets: all ordered non-empty subsets of the subsystems (N = 2, 3) with per-subsystem t1/t2 lists "
                         "of independent magnitudes, RelaxationNoise used directly and via Processor.add_noise; mesolve from "
                         "such processors against the explicit solution (untargeted subsystems must not decay)")
        # random: explicit targets, additional noise objects, device_noise off
        for t in range(600 if ctx.thorough else 150):
            dims = rng.choice(all_dims)
            N = len(dims)
            rel = rng.choice(["inside", "inside", "boundary", "near", "outside"])
            shape, t1, t2 = rng.choice(list(self._spec_variants(rng, N, rel)))
            mode = rng.choice(["targets", "noises", "nodevice", "np"])
            if mode == "targets":
                tg = rng.sample(range(N), rng.randint(0, N))
                self._compare(ctx, res, "noise", dims, t1, t2, targets=tg, tags=["random", "targets"])
            elif mode == "noises":
                specs = []
                for _ in range(rng.randint(1, 3)):
                    k = rng.choice("RDC")
                    if k == "R":
                        if rng.random() < 0.5:
                            qs = [pair(rng, rng.choice(["inside", "boundary"])) for _ in range(N)]
                            a, b = [x[0] for x in qs], [x[1] for x in qs]
                        else:
                            a, b = pair(rng, rng.choice(["inside", "boundary"]))
                        specs.append(("R", rng.choice([a, None]), b, rng.choice([None, rng.sample(range(N), rng.randint(1, N))])))
                    elif k == "D":
                        allq = rng.random() < 0.5 and all(d == 2 for d in dims)
                        two = [q for q in range(N) if dims[q] == 2]
                        if two:
                            specs.append(("D", rng.randint(1, 2), [rng.choice(two)], allq))
                    else:
                        specs.append(("C",))
                self._compare(ctx, res, rng.choice(["process", "processor"]), dims, t1, t2, specs=specs, tags=["random", "noises"])
            elif mode == "nodevice":
                self._compare(ctx, res, "process", dims, t1, t2, device=False, tags=["random", "nodevice"])
            else:
                self._compare(ctx, res, rng.choice(vias), dims, t1, t2, numpy_float=True, tags=["random", "numpy-float"])
        # construction histories: processors built from the same container objects, edits of the caller's container and of
        # another processor's attribute, re-assignment; at every simulation the operators of the processor against the
        # model's operators for the times the CONTRACT gives that processor
        for t in range(120 if ctx.thorough else 40):
            w = self._build_witness(rng)
            self._build_case(ctx, res, w)
        res.notes.append("construction histories: 2-3 processors from the same t1/t2 containers (list / ndarray / scalar), in-place "
                         "edits of the caller's container and of another processor's t1/t2, own in-place edits and "
                         "re-assignments; Lindblad operators of each simulated processor against the model for its own times")
        # run_state with its options: whatever is passed (args, c_ops, e_ops, options, tlist form, solver, noisy) - unless
        # noisy=False is said the decay follows the explicit solution with the model's prefactors
        self._run_block(ctx, res)
        # validation at EVERY processor entry point: exhaustive over a small alphabet of (t1, t2) forms and values
        self._setup_block(ctx, res)
        # malformed stream
        for t in range(400 if ctx.thorough else 120):
            dims = rng.choice(all_dims)
            N = len(dims)
            a, b = pair(rng, "inside")
            mode = rng.choice(["nonpos-scalar", "wrong-length", "nonpos-entry", "zero-entry", "target-range"])
            tg = None
            if mode == "nonpos-scalar":
                bad = rng.choice([Fraction(0), -a])
                t1, t2 = (bad, b) if rng.random() < 0.5 else (a, bad)
                if rng.random() < 0.3:
                    t1, t2 = bad, None
            elif mode == "wrong-length":
                L = rng.choice([x for x in range(0, 5) if x != N])
                t1, t2 = ([a] * L, b) if rng.random() < 0.5 else (a, [b] * L)
            elif mode == "nonpos-entry":
                t1, t2 = [a] * N, [b] * N
                (t1 if rng.random() < 0.5 else t2)[rng.randrange(N)] = -a
            elif mode == "zero-entry":
                t1, t2 = [a] * N, rng.choice([[b] * N, None])
                if t2 is not None and rng.random() < 0.5:
                    t2[rng.randrange(N)] = Fraction(0)
                else:
                    t1[rng.randrange(N)] = Fraction(0)
            else:
                t1, t2 = a, b
                tg = [rng.randrange(N), N + rng.randint(0, 1)]
            via = "noise" if tg is not None else rng.choice(vias)
            self._compare(ctx, res, via, dims, t1, t2, targets=tg, tags=["malformed=" + mode])

    # ---------------------------------------------------------------------------------
    def oracle_replay(self, ctx, w):
        qutip, noise, Processor = _impl()
        kind = w["kind"]
        with warnings.catch_warnings():
            warnings.simplefilter("ignore")
            if kind == "physical":
                try:
                    return self._physical(ctx, w)
                except Exception as e:
                    return True, f"noisy simulation crashed: {type(e).__name__}: {str(e)[:120]}"
            if kind == "history":
                return self._history(ctx, w)
            if kind == "solution":
                return self._solution(ctx, w)
            if kind == "targets":
                return self._targets(ctx, w)
            if kind == "build":
                return self._build(ctx, w)
            if kind == "setup":
                return self._setup(ctx, w)
            if kind == "run":
                return self._run(ctx, w)
            dims = w["dims"]
            N = len(dims)
            t1, t2 = unjson_T(w["t1"]), unjson_T(w["t2"])
            tgs = w.get("targets")
            v = valid_times(dims, t1, t2)
            if tgs is not None and not (good_targets(tgs, N) and v is True):
                return False, "explicit targets with invalid times / targets: outside the property's class"
            try:
                p = make_processor(dims, t1, t2, tgs)
                H, c_ops = p.get_qobjevo(noisy=True)
                raised = None
            except Exception as e:
                raised = e
            if kind == "reject" or v is False:
                if raised is None:
                    return True, "invalid relaxation times accepted by the simulation set-up"
                return False, f"rejected ({type(raised).__name__})"
            if v is None:
                return False, "non-positive list entry: outside the property's statement"
            if raised is not None:
                return True, f"valid relaxation times rejected: {type(raised).__name__}: {raised}"
            # with explicit targets every targeted subsystem decays with ITS OWN times, the others not at all
            t1, t2 = restrict(t1, tgs, N), restrict(t2, tgs, N)
            l1 = t1 if isinstance(t1, list) else [t1] * N
            l2 = t2 if isinstance(t2, list) else [t2] * N
            # times scaled to every relaxation time of the register (not only the shortest one)
            times = time_grid(dims, t1, t2, fracs=(0.25, 1.0))
            plus = [(qutip.basis(d, 0) + qutip.basis(d, 1)).unit() for d in dims]
            rho0 = qutip.ket2dm(qutip.tensor(plus))
            guard, off = tidyup_guard([x for pr in spec_rates(dims, t1, t2) for x in pr])
            try:
                with guard:
                    if off:
                        H, c_ops = make_processor(dims, unjson_T(w["t1"]), unjson_T(w["t2"]), tgs).get_qobjevo(noisy=True)
                    r = qutip.mesolve(H, rho0, times, c_ops=c_ops, options=solver_options(dims, t1, t2))
            except Exception as e:
                return True, f"the master equation of the returned (H, c_ops) cannot be integrated: {type(e).__name__}: {str(e)[:80]}"
            g1 = [0.0 if l1[q] is None else 1 / float(l1[q]) for q in range(N)]
            g2 = [(1 / float(l2[q])) if l2[q] is not None else g1[q] / 2 for q in range(N)]
            bad = self._decay_check(dims, times, r.states, g1, g2)
            if bad:
                return True, bad
            return False, (f"decay laws, trace, Hermiticity and positivity hold at {len(times)} times"
                           + (" (QuTiP auto_tidyup off: a rate lies below its absolute 1e-14 cut-off)" if off else ""))

    def _solution(self, ctx, w):
        """the property's decay laws as the full state: mesolve's rho(t) from an arbitrary initial density matrix equals
        the explicit solution written from t1, t2 alone (populations e^{-t/t1}, coherences e^{-t/t2}, each subsystem on
        its own tensor factor), and is a physical state"""
        qutip = _impl()[0]
        dims = list(w["dims"])
        t1, t2 = unjson_T(w["t1"]), unjson_T(w["t2"])
        tgs = w.get("targets")
        if valid_times(dims, t1, t2) is not True or not good_targets(tgs, len(dims)):
            return False, "not valid relaxation times / targets: outside the property's class"
        r1, r2 = restrict(t1, tgs, len(dims)), restrict(t2, tgs, len(dims))
        rho0 = initial_state(w.get("state", "plus"), dims, int(w.get("seed", 0)))
        times = time_grid(dims, r1, r2)
        try:
            states = mesolve_states(dims, t1, t2, rho0, times, tgs)
        except Exception as e:
            return True, f"valid relaxation times: set-up / integration raised {type(e).__name__}: {str(e)[:100]}"
        rates = spec_rates(dims, r1, r2)
        for t, st in zip(times, states):
            bad = self._physical_state(qutip.Qobj(st, dims=[dims, dims]))
            if bad:
                return True, f"state at t={t:.4g}: {bad}"
            exp = explicit_state(rho0, dims, rates, t)
            err = float(np.abs(st - exp).max())
            if not err <= SOL_TOL:
                i, j = np.unravel_index(np.abs(st - exp).argmax(), st.shape)
                return True, (f"rho({t:.4g})[{i},{j}] = {st[i, j]:.9f}, the decay laws exp(-t/t1), exp(-t/t2) give "
                              f"{exp[i, j]:.9f} (initial state: {w.get('state', 'plus')})")
        return False, f"mesolve's rho(t) equals the explicit solution at {len(times)} times (<= {SOL_TOL:g}) and is physical"

    def _targets(self, ctx, w):
        """ONE RelaxationNoise(t1, t2, targets) object, used directly (get_noisy_pulses(dims)) and added to processors
        (Processor.add_noise), possibly of different sizes, one use after the other: at every use exactly the targeted
        subsystems get Lindblad operators, in target order, each with the rates of ITS OWN t1/t2 entry."""
        qutip, noise, Processor = _impl()
        t1, t2 = unjson_T(w["t1"]), unjson_T(w["t2"])
        tgs = list(w["targets"])
        uses = [(u[0], list(u[1])) for u in w["uses"]]
        for _, dims in uses:
            if valid_times(dims, t1, t2) is not True or not good_targets(tgs, len(dims)):
                return False, "invalid times / targets for one of the uses: outside the property's class"
        try:
            nz = noise.RelaxationNoise(py_T(t1), py_T(t2), list(tgs))
        except Exception as e:
            return True, f"valid RelaxationNoise raised {type(e).__name__}: {str(e)[:100]}"
        for k, (how, dims) in enumerate(uses + uses[:1], 1):
            N = len(dims)
            rates = spec_rates(dims, t1, t2)
            l2 = t2 if isinstance(t2, list) else [t2] * N
            l1 = t1 if isinstance(t1, list) else [t1] * N
            expected = []
            for q in tgs:
                if l1[q] is not None:
                    expected.append((q, "destroy", rates[q][0], 0.0))
                if l2[q] is not None and rates[q][1] != 0.0:
                    expected.append((q, "num", rates[q][1], 2 / float(l2[q])))
            try:
                if how == "direct":
                    els = nz.get_noisy_pulses(dims=list(dims), pulses=[])[1].lindblad_noise
                else:
                    p = Processor(N, dims=list(dims))
                    p.add_noise(nz)
                    els = p.get_noisy_pulses(device_noise=True)[-1].lindblad_noise
                    _, c_ops = p.get_qobjevo(noisy=True)
                    if len(c_ops) != len(els):
                        return True, f"use {k} ({how}, dims {dims}): {len(c_ops)} collapse operators for {len(els)} Lindblad elements"
                got = [canon_element(e, []) for e in els]
            except Exception as e:
                return True, f"use {k} ({how}, dims {dims}) of a valid RelaxationNoise raised {type(e).__name__}: {str(e)[:100]}"
            if len(got) != len(expected):
                return True, f"use {k} ({how}, dims {dims}): {len(got)} Lindblad operators, specified {len(expected)}"
            for (tg, kd, d, c, probs), (q, ekd, rate, band) in zip(got, expected):
                if probs:
                    return True, f"use {k} ({how}, dims {dims}): {probs[0]}"
                if tg != [q] or kd != ekd or d != dims[q]:
                    return True, (f"use {k} ({how}, dims {dims}): operator {kd} (dim {d}) on {tg}, specified {ekd} "
                                  f"(dim {dims[q]}) on [{q}]")
                if c == "nan" or abs(c - rate) > 1e-9 * (rate + band):
                    own = f"t1[{q}] = {l1[q]}, t2[{q}] = {l2[q]}"
                    return True, (f"use {k} ({how}, dims {dims}): {kd} on subsystem {q} has squared prefactor {c:.9g}, its own "
                                  f"times ({own}) specify {rate:.9g}")
        return False, f"{len(uses) + 1} uses: the targeted subsystems get their own rates, in target order"

    def _targets_witness(self, rng):
        if rng.random() < 0.7:
            # per-subsystem lists (fixed size), entries of independent magnitudes
            dims = [rng.choice([2, 2, 3]) for _ in range(rng.randint(2, 3))]
            ps = [pair(rng, rng.choice(["inside", "inside", "boundary", "near"])) for _ in dims]
            t1, t2 = [x[0] for x in ps], [x[1] for x in ps]
            if rng.random() < 0.3:
                t2 = [None if rng.random() < 0.4 else x for x in t2]
            tgs = random_targets(rng, len(dims))
            uses = [[rng.choice(["direct", "processor"]), dims] for _ in range(rng.randint(1, 3))]
        else:
            # scalars: the same object serves processors of other sizes
            t1, t2 = pair(rng, rng.choice(["inside", "boundary", "near"]))
            t1, t2 = rng.choice([(t1, t2), (t1, None), (None, t2)])
            tgs = random_targets(rng, 2)
            uses = [[rng.choice(["direct", "processor"]), [rng.choice([2, 3]) for _ in range(rng.randint(2, 4))]]
                    for _ in range(rng.randint(2, 3))]
        return {"kind": "targets", "t1": json_T(t1), "t2": json_T(t2), "targets": tgs, "uses": uses}

    def _with_targets(self, rng, w):
        """turn a decay / solution witness into one with per-subsystem lists and an explicit targets list"""
        dims = w["dims"]
        N = len(dims)
        if N < 2:
            return w
        ps = [pair(rng, rng.choice(["inside", "inside", "boundary", "near"])) for _ in range(N)]
        w["t1"], w["t2"] = json_T([x[0] for x in ps]), json_T([x[1] for x in ps])
        w["targets"] = random_targets(rng, N)
        return w

    def _solution_witness(self, rng):
        w = self._decay_witness(rng)
        while int(np.prod(w["dims"])) > 12:
            w = self._decay_witness(rng)
        w.pop("targets", None)
        w["kind"] = "solution"
        w["state"] = rng.choice(["plus", "product", "entangled", "ghz"])
        w["seed"] = rng.randint(0, 10 ** 6)
        return self._with_targets(rng, w) if rng.random() < 0.35 else w

    def _decay_check(self, dims, times, states, g1, g2, tol=2e-6):
        """every subsystem of the product of (|0>+|1>)/sqrt2: rho11 = exp(-g1 t)/2, |rho01| = exp(-g2 t)/2"""
        qutip = _impl()[0]
        for t, st in zip(times, states):
            st = st if st.isoper else qutip.ket2dm(st)
            bad = self._physical_state(st)
            if bad:
                return f"state at t={t:.4g}: {bad}"
            for q in range(len(dims)):
                m = st.ptrace(q).full()
                e11, e01 = 0.5 * np.exp(-g1[q] * t), 0.5 * np.exp(-g2[q] * t)
                if abs(m[1, 1].real - e11) > tol:
                    return (f"subsystem {q} (dim {dims[q]}): population {m[1, 1].real:.9f} at t={t:.4g}, "
                            f"expected 0.5*exp(-t/t1) = {e11:.9f}")
                if abs(abs(m[0, 1]) - e01) > tol:
                    return (f"subsystem {q} (dim {dims[q]}): coherence {abs(m[0, 1]):.9f} at t={t:.4g}, "
                            f"expected {e01:.9f}")
        return None

    def _history(self, ctx, w):
        """ONE processor with t1/t2 and 0-2 further noise objects, asked 1-3 times for its noisy dynamics
        (get_noisy_pulses / get_qobjevo(noisy=True)+mesolve / run_state): the number and the rates of the collapse
        operators and the decay curves must be the specified ones at EVERY call (and at one more request afterwards)."""
        qutip, noise, Processor = _impl()
        dims = list(w["dims"])
        N = len(dims)
        t1, t2 = unjson_T(w["t1"]), unjson_T(w["t2"])
        specs = [spec_unjson(sp) for sp in w.get("noises", [])]
        calls = list(w.get("calls", ["qobjevo", "qobjevo"]))
        sources = [(t1, t2, None)] + [(sp[1], sp[2], sp[3]) for sp in specs if sp[0] == "R"]
        if any(valid_times(dims, a, b) is not True for a, b, _ in sources):
            return False, "a relaxation source is invalid: not a history of the property's class"
        objs, user, _ = build_noises(specs)
        # specification, written directly: rates add up over the sources
        g1, g2, n_ops = [0.0] * N, [0.0] * N, 0
        d_rate, n_rate = [0.0] * N, [0.0] * N          # expected sum of squared prefactors of destroy / num per subsystem
        each = []                                       # squared prefactor of every single operator (QuTiP tidies each one)
        for a, b, tg in sources:
            la = a if isinstance(a, list) else [a] * N
            lb = b if isinstance(b, list) else [b] * N
            for q in (range(N) if tg is None else tg):
                if la[q] is not None:
                    each.append(1 / float(la[q]))
                    g1[q] += 1 / float(la[q]); g2[q] += 0.5 / float(la[q]); d_rate[q] += 1 / float(la[q]); n_ops += 1
                if lb[q] is not None:
                    deph = 1 / float(lb[q]) - (0.5 / float(la[q]) if la[q] is not None else 0.0)
                    if not (la[q] is not None and lb[q] == 2 * la[q]):
                        n_ops += 1
                        each.append(2 * deph)
                        g2[q] += deph; n_rate[q] += 2 * deph
        ui = 0
        for sp in specs:
            if sp[0] == "D":
                for _ in range(sp[1]):
                    c = float(user[ui].full()[0, 0].real)       # c * sigma_z: extra dephasing 2 c^2
                    ui += 1
                    for q in (range(N) if sp[3] else sp[2]):
                        g2[q] += 2 * c * c
                        n_ops += 1
        l_all = [float(x) for a, b, _ in sources for T in (a, b) if T is not None for x in (T if isinstance(T, list) else [T]) if x is not None]
        scale = min(l_all, default=1.0)
        times = [0.0] + [scale * f for f in (0.25, 1.0, 2.5)]
        rho0 = qutip.ket2dm(qutip.tensor([(qutip.basis(d, 0) + qutip.basis(d, 1)).unit() for d in dims]))
        try:
            p = Processor(N, dims=dims, t1=py_T(t1), t2=py_T(t2))
            if w.get("drive"):
                # a diagonal drive on subsystem 0: changes neither populations nor |rho01|
                tl = np.linspace(0.0, times[-1], 6)
                p.add_control(qutip.num(dims[0]), targets=0, label="z0")
                p.set_coeffs({"z0": np.full(5, 0.7 / scale)})
                p.set_tlist({"z0": tl})
            for o in objs:
                p.add_noise(o)
        except Exception as e:
            return True, f"valid processor set-up raised {type(e).__name__}: {str(e)[:100]}"
        opts = {"atol": 1e-11, "rtol": 1e-9, "nsteps": 100000}
        # one more, cheap, request at the end: what the calls left behind must not change the next answer
        guard, _ = tidyup_guard(each)
        with guard:
            for k, call in enumerate(calls + ["pulses"], 1):
                states = None
                try:
                    if call == "pulses":
                        els = [canon_element(e, user) for e in p.get_noisy_pulses(device_noise=True)[-1].lindblad_noise]
                        if len(els) != n_ops:
                            return True, f"call {k} (get_noisy_pulses): {len(els)} Lindblad operators, specified {n_ops}"
                        for q in range(N):
                            dsum = sum(c for tg, kd, _, c, _ in els if kd == "destroy" and tg == [q])
                            nsum = sum(c for tg, kd, _, c, _ in els if kd == "num" and tg == [q])
                            # relative bands only (no absolute term): a rate of 1e-12 is checked as strictly as one of 1e6
                            if abs(dsum - d_rate[q]) > 1e-9 * d_rate[q] or abs(nsum - n_rate[q]) > 1e-9 * (n_rate[q] + g2[q]):
                                return True, (f"call {k} (get_noisy_pulses): subsystem {q} relaxes with rate {dsum:.9g} (specified "
                                              f"{d_rate[q]:.9g}), dephasing prefactor^2 {nsum:.9g} (specified {n_rate[q]:.9g})")
                    elif call == "qobjevo":
                        H, c_ops = p.get_qobjevo(noisy=True)
                        if len(c_ops) != n_ops:
                            return True, f"call {k} (get_qobjevo): {len(c_ops)} collapse operators, specified {n_ops}"
                        states = qutip.mesolve(H, rho0, times, c_ops=c_ops, options=dict(opts)).states
                    else:
                        states = p.run_state(rho0, tlist=times, options=dict(opts)).states
                except Exception as e:
                    return True, f"call {k} ({call}) raised {type(e).__name__}: {str(e)[:100]}"
                if states is not None:
                    bad = self._decay_check(dims, times, states, g1, g2)
                    if bad:
                        return True, f"call {k} ({call}) of the same processor: " + bad
        return False, f"{len(calls)} calls (+1 final get_noisy_pulses): same {n_ops} collapse operators with the specified rates, same decay laws"

    @staticmethod
    def _physical_state(st):
        m = st.full()
        if abs(np.trace(m) - 1) > 1e-6:
            return f"trace {np.trace(m)}"
        if np.abs(m - m.conj().T).max() > 1e-8:
            return "not Hermitian"
        ev = np.linalg.eigvalsh((m + m.conj().T) / 2).min()
        if ev < -1e-6:
            return f"eigenvalue {ev}"
        return None

    def _physical(self, ctx, w):
        """support only: states of a noisy simulation of a compiled circuit with a combination of the shipped noise models"""
        qutip, noise, Processor = _impl()
        from qutip_qip.device import LinearSpinChain, SCQubits
        from qutip_qip.circuit import QubitCircuit
        rng = np.random.default_rng(int(w["seed"]))
        N = int(w.get("n", 2))
        qc = QubitCircuit(N)
        for _ in range(int(w.get("gates", 3))):
            g = rng.choice(["RX", "RY", "CNOT"] if N > 1 else ["RX", "RY"])
            if g == "CNOT":
                a = int(rng.integers(0, N - 1))
                qc.add_gate("CNOT", controls=a, targets=a + 1)
            else:
                qc.add_gate(str(g), targets=int(rng.integers(0, N)), arg_value=float(rng.uniform(0.2, 2.5)))
        dev = w.get("device", "spinchain")
        big = 40.0 if dev == "spinchain" else 4.0e4
        t1 = big * float(rng.uniform(0.5, 2))
        t2 = t1 * float(rng.uniform(0.3, 2.0)) if "relax" in w["models"] else None
        if "relax" not in w["models"]:
            t1 = None
        p = LinearSpinChain(N, t1=t1, t2=t2) if dev == "spinchain" else SCQubits(N, t1=t1, t2=t2)
        p.load_circuit(qc)
        if "random" in w["models"]:
            p.add_noise(noise.RandomNoise(dt=0.5 if dev == "spinchain" else 20.0, rand_gen=rng.normal, loc=0.0, scale=0.01))
        if "collapse" in w["models"]:
            p.add_noise(noise.DecoherenceNoise(qutip.sigmaz() * (0.05 if dev == "spinchain" else 0.002), all_qubits=True)
                        if dev == "spinchain" else
                        noise.DecoherenceNoise(qutip.num(3) * 0.002, targets=0))
        if "amp" in w["models"]:
            T = p.get_full_tlist()[-1]
            p.add_noise(noise.ControlAmpNoise(coeff=np.array([0.01] * 5), tlist=np.linspace(0, T, 5), indices=[0]))
        if "zz" in w["models"] and dev != "spinchain":
            p.add_noise(noise.ZZCrossTalk(p.params))
        H, c_ops = p.get_qobjevo(noisy=True)
        T = p.get_full_tlist()[-1]
        dims = p.dims
        psi0 = qutip.basis(dims, [0] * N)
        r = qutip.mesolve(H, psi0, np.linspace(0, T, 5), c_ops=c_ops,
                          options={"nsteps": 1000000, "atol": 1e-10, "rtol": 1e-8})
        for i, st in enumerate(r.states):
            st = st if st.isoper else qutip.ket2dm(st)
            bad = self._physical_state(st)
            if bad:
                return True, f"noisy state {i} of {w['models']} on {dev}: {bad}"
        return False, "5 states Hermitian, unit trace, positive semidefinite to solver tolerance"

    def _decay_witness(self, rng):
        dims = [rng.choice([2, 3]) for _ in range(rng.randint(1, 3))]
        if len(dims) == 3 and sum(dims) > 7:
            dims[rng.randrange(3)] = 2
        N = len(dims)
        rel = rng.choice(["inside", "inside", "boundary", "near"])
        shape = rng.choice(["s/s", "s/none", "none/s", "l/l"])
        ps = [pair(rng, rel) for _ in range(N)]
        if shape == "s/s":
            t1, t2 = ps[0]
        elif shape == "s/none":
            t1, t2 = ps[0][0], None
        elif shape == "none/s":
            t1, t2 = None, ps[0][1]
        else:
            t1, t2 = [p[0] for p in ps], [p[1] for p in ps]
        w = {"kind": "decay", "dims": dims, "t1": json_T(t1), "t2": json_T(t2)}
        return self._with_targets(rng, w) if rng.random() < 0.3 else w

    def _reject_witness(self, rng):
        dims = [rng.choice([2, 3]) for _ in range(rng.randint(1, 3))]
        N = len(dims)
        a, b = pair(rng, "inside")
        mode = rng.choice(["outside", "nonpos", "length"])
        if mode == "outside":
            t1, t2 = pair(rng, "outside")
        elif mode == "nonpos":
            t1, t2 = rng.choice([(Fraction(0), b), (-a, None), (a, Fraction(0)), (a, -b)])
        else:
            t1, t2 = [a] * (N + 1), b
        return {"kind": "reject", "dims": dims, "t1": json_T(t1), "t2": json_T(t2)}

    def _history_witness(self, rng):
        dims = [rng.choice([2, 2, 3]) for _ in range(rng.randint(1, 2))]
        N = len(dims)
        two = [q for q in range(N) if dims[q] == 2]
        kinds = [rng.choice("CCDR") for _ in range(rng.randint(0, 2))]
        # one common magnitude (1e-6 ... 1e12) for all relaxation sources of the history; the user operator c*sigma_z of a
        # DecoherenceNoise has a fixed absolute strength, so histories with one stay at magnitude 1
        mag = Fraction(1) if ("D" in kinds and two) else magnitude(rng)
        rel = rng.choice(["inside", "inside", "boundary", "near"])
        ps = [pair(rng, rel, mag) for _ in range(N)]
        shape = rng.choice(["s/s", "s/none", "none/s", "l/l"])
        if shape == "s/s":
            t1, t2 = ps[0]
        elif shape == "s/none":
            t1, t2 = ps[0][0], None
        elif shape == "none/s":
            t1, t2 = None, ps[0][1]
        else:
            t1, t2 = [x[0] for x in ps], [x[1] for x in ps]
        specs = []
        for k in kinds:
            if k == "D" and two:
                specs.append(("D", 1, [rng.choice(two)], False))
            elif k == "R":
                if rng.random() < 0.5:
                    qs = [pair(rng, rng.choice(["inside", "boundary"]), mag) for _ in range(N)]
                    a, b = [x[0] for x in qs], [x[1] for x in qs]
                else:
                    a, b = pair(rng, rng.choice(["inside", "boundary"]), mag)
                specs.append(("R", rng.choice([a, None]), b, rng.sample(range(N), rng.randint(1, N))))
            else:
                specs.append(("C",))
        calls = [rng.choice(["qobjevo", "pulses", "run"]) for _ in range(rng.randint(1, 3))]
        return {"kind": "history", "dims": dims, "t1": json_T(t1), "t2": json_T(t2), "noises": [spec_json(sp) for sp in specs],
                "calls": calls, "drive": rng.random() < 0.5}

    def _physical_witness(self, rng):
        dev = rng.choice(["spinchain", "spinchain", "scqubits"])
        models = [m for m in ["relax", "random", "collapse", "amp", "zz"] if rng.random() < 0.6] or ["relax"]
        return {"kind": "physical", "device": dev, "n": 2, "gates": rng.randint(1, 3), "models": models,
                "seed": rng.randint(0, 10 ** 6)}

    def finding_matches(self, witness, finding):
        return super().finding_matches(witness, finding)

    def oracle_search(self, ctx, budget_s):
        t0 = time.time()
        first = [{"kind": "decay", "dims": [2], "t1": "1", "t2": "2"},
                 {"kind": "decay", "dims": [2], "t1": "1", "t2": "3/2"},
                 {"kind": "decay", "dims": [3], "t1": "2", "t2": "1"},
                 {"kind": "decay", "dims": [2, 3], "t1": ["1", "2"], "t2": ["2", "1"]},
                 {"kind": "decay", "dims": [2], "t1": "2000000000", "t2": "1000000000"},
                 {"kind": "decay", "dims": [2, 2], "t1": ["1", "100000000"], "t2": ["1", "100000000"]},
                 {"kind": "solution", "dims": [2, 3], "t1": ["1/1000000", "2000000000000"], "t2": ["1/1000000", "1000000000000"],
                  "state": "entangled", "seed": 7},
                 {"kind": "history", "dims": [2], "t1": "2000000000", "t2": "1000000000", "noises": [], "calls": ["pulses", "qobjevo"],
                  "drive": False},
                 {"kind": "build", "dims": [2, 2],
                  "containers": {"A": {"type": ["list", "list"], "t1": ["1", "4"], "t2": ["4/5", "2"]}},
                  "ops": [["new", "p0", "A"], ["new", "p1", "A"], ["edit_proc", "p1", 0, "1/4", "1/5"],
                          ["edit_caller", "A", 1, "1/2", "3/10"], ["new", "p2", "A"],
                          ["sim", "p0", "run"], ["sim", "p1", "qobjevo"], ["sim", "p2", "pulses"], ["sim", "p0", "pulses"]]},
                 {"kind": "build", "dims": [2, 3],
                  "containers": {"A": {"type": ["ndarray", "ndarray"], "t1": ["2", "3"], "t2": ["1", "6"]}},
                  "ops": [["new", "p0", "A"], ["new", "p1", "A"], ["edit_caller", "A", 0, "1/2", "1/4"],
                          ["assign", "p1", ["list", ["5", "5"]], ["none", None]], ["edit_proc", "p1", 1, "7", None],
                          ["sim", "p0", "qobjevo"], ["sim", "p1", "qobjevo"]]},
                 {"kind": "targets", "t1": ["1", "3", "7/10"], "t2": ["2/5", "5/2", "11/10"], "targets": [2, 1],
                  "uses": [["direct", [2, 2, 2]], ["processor", [2, 2, 2]]]},
                 {"kind": "targets", "t1": ["1", "3", "7/10"], "t2": None, "targets": [2],
                  "uses": [["processor", [2, 3, 2]], ["direct", [2, 3, 2]]]},
                 {"kind": "targets", "t1": "2", "t2": "3", "targets": [1, 0],
                  "uses": [["processor", [2, 2]], ["direct", [2, 3, 2]], ["processor", [3, 2, 2, 2]]]},
                 {"kind": "decay", "dims": [2, 2, 2], "t1": ["1", "3", "7/10"], "t2": ["2/5", "5/2", "11/10"], "targets": [2, 1]},
                 {"kind": "solution", "dims": [2, 2, 2], "t1": ["1", "3", "7/10"], "t2": ["2/5", "5/2", "11/10"], "targets": [2, 1],
                  "state": "entangled", "seed": 9},
                 {"kind": "history", "dims": [2, 2, 2], "t1": None, "t2": None,
                  "noises": [["R", ["1", "3", "7/10"], ["2/5", "5/2", "11/10"], [2, 1]]], "calls": ["run", "pulses"], "drive": False},
                 {"kind": "solution", "dims": [2], "t1": "1", "t2": "2", "state": "entangled", "seed": 1},
                 {"kind": "solution", "dims": [2], "t1": "1", "t2": "3/2", "state": "entangled", "seed": 2},
                 {"kind": "solution", "dims": [3], "t1": "2", "t2": "1", "state": "entangled", "seed": 3},
                 {"kind": "solution", "dims": [2, 2], "t1": ["1", "2"], "t2": ["2", "1"], "state": "ghz", "seed": 4},
                 {"kind": "solution", "dims": [2, 3], "t1": "2", "t2": None, "state": "entangled", "seed": 5},
                 {"kind": "solution", "dims": [2, 2], "t1": None, "t2": "3", "state": "ghz", "seed": 6},
                 {"kind": "history", "dims": [2], "t1": "1", "t2": "3/2", "noises": [], "calls": ["qobjevo", "qobjevo"], "drive": False},
                 {"kind": "history", "dims": [2], "t1": "1", "t2": "3/2", "noises": [["C"]], "calls": ["qobjevo", "qobjevo"], "drive": False},
                 {"kind": "history", "dims": [2], "t1": "1", "t2": "3/2", "noises": [["C"]], "calls": ["run", "run", "run"], "drive": True},
                 {"kind": "history", "dims": [2, 3], "t1": "2", "t2": None, "noises": [["D", 1, [0], False]],
                  "calls": ["pulses", "qobjevo", "run"], "drive": False},
                 {"kind": "reject", "dims": [2], "t1": "1", "t2": "5/2"},
                 {"kind": "reject", "dims": [2], "t1": "0", "t2": None},
                 {"kind": "reject", "dims": [2, 2], "t1": ["1"], "t2": None}]
        first += [{"kind": "setup", "entry": e, "n": 2, "t1": a, "t2": b, "form": "list", "how": h}
                  for e in ENTRY_POINTS for a, b, h in (("-1", None, "qobjevo"), (None, "0", "pulses"), ("50", "-20", "run"),
                                                        ("50", "20", "run"), ("1", "5/2", "qobjevo"))]
        first += [{"kind": "run", "entry": "Processor", "n": 2, "dims": [2, 2], "t1": ["1", "3"], "t2": ["1/2", "2"],
                   "opts": {"args": "omega", "pulse": True}, "state": "plus", "seed": 0},
                  {"kind": "run", "entry": "LinearSpinChain", "n": 2, "dims": None, "t1": "40", "t2": "25",
                   "opts": {"args": "empty", "init": "ket"}, "state": "plus", "seed": 0},
                  {"kind": "run", "entry": "SCQubits", "n": 2, "dims": None, "t1": "40", "t2": "25",
                   "opts": {"args": "empty", "e_ops": "num", "c_ops": "one"}, "state": "product", "seed": 3},
                  {"kind": "run", "entry": "Processor", "n": 2, "dims": [2, 3], "t1": "2", "t2": "3",
                   "opts": {"args": "omega", "noisy": True, "c_ops": "list", "options": "tight", "solver": "mesolve",
                            "tlist": "ndarray", "init": "states-kw"}, "state": "entangled", "seed": 5},
                  {"kind": "run", "entry": "Processor", "n": 1, "dims": [2], "t1": "1", "t2": "2",
                   "opts": {"args": "empty", "noisy": False}, "state": "plus", "seed": 0}]
        if strict_variant():
            first += [{"kind": "setup", "entry": e, "n": 2, "t1": ["1", "-1"] + ([] if len(entry_dims(e, 2)) == 2 else ["1"]),
                       "t2": None, "form": f, "how": "qobjevo"} for e in ENTRY_POINTS for f in ("list", "ndarray")]
        for w in first:
            f, d = self.oracle_replay(ctx, w)
            if f:
                yield w, d
        while time.time() - t0 < budget_s:
            w = ctx.rng.choice([self._decay_witness, self._solution_witness, self._history_witness, self._history_witness,
                                self._targets_witness, self._build_witness, self._reject_witness,
                                (lambda r: self._setup_witness(r, strict_variant())), self._run_witness,
                                self._physical_witness])(ctx.rng)
            try:
                f, d = self.oracle_replay(ctx, w)
            except Exception as e:
                f, d = True, f"simulation crashed: {type(e).__name__}: {e}"
            if f:
                yield w, d

    def oracle_always(self, ctx):
        ws = [{"kind": "decay", "dims": [2], "t1": "1", "t2": "2"},
              {"kind": "decay", "dims": [2], "t1": "2000000000", "t2": "1000000000"},
              {"kind": "solution", "dims": [2, 2], "t1": ["1", "100000000"], "t2": ["1", "100000000"], "state": "ghz", "seed": 8}]
        ws += [self._decay_witness(ctx.rng) for _ in range(12 if ctx.thorough else 5)]
        ws += [{"kind": "targets", "t1": ["1", "3", "7/10"], "t2": ["2/5", "5/2", "11/10"], "targets": [2, 1],
                "uses": [["direct", [2, 2, 2]], ["processor", [2, 2, 2]]]},
               {"kind": "solution", "dims": [2, 2, 2], "t1": ["1", "3", "7/10"], "t2": ["2/5", "5/2", "11/10"], "targets": [2, 1],
                "state": "entangled", "seed": 9}]
        ws += [self._targets_witness(ctx.rng) for _ in range(12 if ctx.thorough else 5)]
        ws += [{"kind": "build", "dims": [2, 2],
                "containers": {"A": {"type": ["list", "list"], "t1": ["1", "4"], "t2": ["4/5", "2"]}},
                "ops": [["new", "p0", "A"], ["new", "p1", "A"], ["edit_proc", "p1", 0, "1/4", "1/5"],
                        ["edit_caller", "A", 1, "1/2", "3/10"], ["new", "p2", "A"],
                        ["sim", "p0", "run"], ["sim", "p1", "qobjevo"], ["sim", "p2", "pulses"], ["sim", "p0", "pulses"]]},
               {"kind": "build", "dims": [2, 3],
                "containers": {"A": {"type": ["ndarray", "ndarray"], "t1": ["2", "3"], "t2": ["1", "6"]}},
                "ops": [["new", "p0", "A"], ["new", "p1", "A"], ["edit_caller", "A", 0, "1/2", "1/4"],
                        ["assign", "p1", ["list", ["5", "5"]], ["none", None]], ["edit_proc", "p1", 1, "7", None],
                        ["sim", "p0", "qobjevo"], ["sim", "p1", "qobjevo"]]}]
        ws += [self._build_witness(ctx.rng) for _ in range(15 if ctx.thorough else 6)]
        ws += [{"kind": "solution", "dims": [2, 2], "t1": ["1", "2"], "t2": ["2", "1"], "state": "ghz", "seed": 4}]
        ws += [self._solution_witness(ctx.rng) for _ in range(12 if ctx.thorough else 5)]
        ws += [self._reject_witness(ctx.rng) for _ in range(12 if ctx.thorough else 6)]
        ws += [{"kind": "setup", "entry": e, "n": 2, "t1": a, "t2": b, "form": "npfloat", "how": "qobjevo"}
               for e in ENTRY_POINTS for a, b in (("-1", None), ("50", "-20"))]
        ws += [self._setup_witness(ctx.rng, strict_variant()) for _ in range(30 if ctx.thorough else 12)]
        ws += [{"kind": "run", "entry": "Processor", "n": 2, "dims": [2, 2], "t1": ["1", "3"], "t2": ["1/2", "2"],
                "opts": {"args": "omega", "pulse": True}, "state": "plus", "seed": 0},
               {"kind": "run", "entry": "LinearSpinChain", "n": 2, "dims": None, "t1": "40", "t2": "25",
                "opts": {"args": "empty", "init": "ket"}, "state": "plus", "seed": 0},
               {"kind": "run", "entry": "SCQubits", "n": 2, "dims": None, "t1": "40", "t2": "25",
                "opts": {"args": "empty", "e_ops": "num", "c_ops": "one"}, "state": "product", "seed": 3},
               {"kind": "run", "entry": "Processor", "n": 2, "dims": [2, 3], "t1": "2", "t2": "3",
                "opts": {"args": "omega", "noisy": True, "c_ops": "list", "options": "tight", "solver": "mesolve",
                         "tlist": "ndarray", "init": "states-kw"}, "state": "entangled", "seed": 5},
               {"kind": "run", "entry": "Processor", "n": 1, "dims": [2], "t1": "1", "t2": "2",
                "opts": {"args": "empty", "noisy": False}, "state": "plus", "seed": 0}]
        ws += [self._run_witness(ctx.rng) for _ in range(25 if ctx.thorough else 10)]
        ws += [self._physical_witness(ctx.rng) for _ in range(10 if ctx.thorough else 3)]
        ws += [{"kind": "history", "dims": [2], "t1": "1", "t2": "3/2", "noises": [["C"]], "calls": ["qobjevo", "run"], "drive": True}]
        ws += [self._history_witness(ctx.rng) for _ in range(20 if ctx.thorough else 6)]
        for w in ws:
            try:
                f, d = self.oracle_replay(ctx, w)
            except Exception as e:
                f, d = True, f"simulation crashed: {type(e).__name__}: {e}"
            if f:
                yield w, d


CHECK = C15()
