"""C17 — single-qubit decompositions and QFT circuits are exact.

T  regenerate(): lean/QipVerif/Gen/ZyzTables.lean from decompose_single_qubit_gate.py and qft.py (ast only,
   py/props/c17_translate.py); the extracted tables are instantiated numerically on every run and compared with
   what the real functions return (names, order, qubits exactly; angles to 1e-12).
H  the hand-transcribed non-linear part of `_angles_for_ZYZ` (Lemmas/ZyzModel.lean: csqrt, negConj, arctan2, the
   four atoms) is evaluated in Python floats by `model_atoms` below and cross-checked against `_angles_for_ZYZ`;
   the gate matrices of Lemmas/ZyzGates.lean / ZyzCphase.lean are sampled against the library functions;
   the QFT gate and step lists of Model/Qft.lean (driver drv_zyz) are compared exactly with qft_gate_sequence /
   qft_steps for N = 1..10 and both flags.
Oracle (independent of the model, on the real code): product of the returned gates vs the input unitary (1e-9) on
   Haar-random matrices and the degenerate families; QFT circuit vs step list vs DFT matrix for N = 1..7.
"""
import cmath, math, os, time
from fractions import Fraction

import numpy as np

from vlib.core import PropertyCheck, TranslatorError
from vlib import paths
from . import c17_translate as tr

PI = math.pi
METHODS = ["ZYZ", "ZXZ", "ZYZ_PauliX"]
PROMISED = {"ZYZ": {"RZ", "RY", "GLOBALPHASE"}, "ZXZ": {"RZ", "RX", "GLOBALPHASE"},
            "ZYZ_PauliX": {"RZ", "RY", "X", "GLOBALPHASE"}}
GEN_FILE = os.path.join(paths.LEAN, "QipVerif", "Gen", "ZyzTables.lean")


def _impl():
    import qutip
    from qutip_qip.decompose import decompose_one_qubit_gate
    from qutip_qip.decompose import decompose_single_qubit_gate as dsg
    import importlib
    qftmod = importlib.import_module("qutip_qip.algorithms.qft")
    from qutip_qip.circuit import QubitCircuit
    return qutip, decompose_one_qubit_gate, dsg, qftmod, QubitCircuit


# --------------------------------------------------------------------------------------------------
# own numpy semantics (transcription of Lemmas/ZyzGates.lean, ZyzCphase.lean) — independent of the library

def mat1(name, x):
    if name == "RZ":
        return np.array([[cmath.exp(-1j * x / 2), 0], [0, cmath.exp(1j * x / 2)]])
    if name == "RY":
        return np.array([[math.cos(x / 2), -math.sin(x / 2)], [math.sin(x / 2), math.cos(x / 2)]], dtype=complex)
    if name == "RX":
        return np.array([[math.cos(x / 2), -1j * math.sin(x / 2)], [-1j * math.sin(x / 2), math.cos(x / 2)]])
    if name == "X":
        return np.array([[0, 1], [1, 0]], dtype=complex)
    if name == "SNOT":
        return np.array([[1, 1], [1, -1]], dtype=complex) / math.sqrt(2)
    raise KeyError(name)


def mat2(name, x):
    if name == "CNOT":      # (control, target)
        return np.array([[1, 0, 0, 0], [0, 1, 0, 0], [0, 0, 0, 1], [0, 0, 1, 0]], dtype=complex)
    if name == "CPHASE":
        return np.diag([1, 1, 1, cmath.exp(1j * x)])
    if name == "SWAP":
        return np.array([[1, 0, 0, 0], [0, 0, 1, 0], [0, 1, 0, 0], [0, 0, 0, 1]], dtype=complex)
    raise KeyError(name)


def embed(op, qubits, N):
    """operator on `qubits` (listed order = tensor order of `op`) of an N-qubit register, qubit 0 most significant"""
    k = len(qubits)
    dim = 1 << N
    out = np.zeros((dim, dim), dtype=complex)
    for y in range(dim):
        bits = [(y >> (N - 1 - q)) & 1 for q in range(N)]
        sub = 0
        for q in qubits:
            sub = (sub << 1) | bits[q]
        for a in range(1 << k):
            v = op[a, sub]
            if v == 0:
                continue
            nb = list(bits)
            for pos, q in enumerate(qubits):
                nb[q] = (a >> (k - 1 - pos)) & 1
            x = 0
            for b in nb:
                x = (x << 1) | b
            out[x, y] += v
    return out


def gate_rec(g):
    return (g.name, list(g.targets) if g.targets is not None else [], list(g.controls) if g.controls is not None else [],
            None if g.arg_value is None else float(g.arg_value))


def circuit_matrix(recs, N):
    """product of gate records (name, targets, controls, arg) applied in list order, own semantics"""
    M = np.eye(1 << N, dtype=complex)
    for name, ts, cs, x in recs:
        if name == "GLOBALPHASE":
            M = cmath.exp(1j * x) * M
        elif name in ("RZ", "RY", "RX", "X", "SNOT"):
            M = embed(mat1(name, x), ts, N) @ M
        elif name in ("CNOT", "CPHASE"):
            M = embed(mat2(name, x), cs + ts, N) @ M
        elif name == "SWAP":
            M = embed(mat2(name, x), ts, N) @ M
        else:
            raise KeyError(name)
    return M


def dft_matrix(N):
    d = 1 << N
    x = np.arange(d)
    return np.exp(2j * PI * np.outer(x, x) / d) / math.sqrt(d)


def equal_up_to_phase(A, B, tol):
    k = np.unravel_index(np.argmax(np.abs(B)), B.shape)
    if abs(B[k]) < 1e-12 or abs(A[k]) < 1e-12:
        return False, 0.0, float(np.abs(A - B).max())
    ph = A[k] / B[k]
    ph = ph / abs(ph)
    err = float(np.abs(A - ph * B).max())
    return err <= tol, cmath.phase(ph), err


# --------------------------------------------------------------------------------------------------
# H: the angle-extraction model in floats (transcribes Lemmas/ZyzModel.lean)

def m_arg(z):
    """Complex.arg: in (-pi, pi], arg 0 = 0, negative reals -> +pi (signed zeros normalised)"""
    return math.atan2(z.imag + 0.0, z.real + 0.0)


def m_csqrt(z):
    """csqrt z = z ^ (1/2) = exp(log z / 2), 0 at 0"""
    if z == 0:
        return 0j
    return cmath.exp(complex(math.log(abs(z)), m_arg(z)) / 2)


def model_atoms(U, n=None):
    det = U[0][0] * U[1][1] - U[0][1] * U[1][0]
    if n is None:
        n = m_csqrt(det)
    v00 = U[0][0] * (1 / n)
    v01 = U[0][1] * (1 / n)
    an = complex(v00.real, -v00.imag)      # negConj
    bn = complex(v01.real, -v01.imag)
    A = m_arg(an)
    B = m_arg(bn)
    T = m_arg(complex(abs(an), abs(bn)))   # arctan2 |bn| |an|
    Nn = m_arg(1 / n)
    return (A, B, T, Nn), det, n


def near_branch(U, tol=1e-9):
    """is U within `tol` of an input where arg / sqrt are discontinuous (negative real or zero a, b; det = -1)?"""
    _, det, n = model_atoms(U)
    v00 = U[0][0] * (1 / n)
    v01 = U[0][1] * (1 / n)
    for z in (v00, v01):
        if abs(z) < tol or (z.real < 0 and abs(z.imag) < tol):
            return True
    return abs(abs(m_arg(det)) - PI) < tol


def lin_eval(l, xs):
    return sum(float(c) * x for c, x in zip(l, list(xs) + [PI]) if c != 0)


def model_returned(tab, U, n=None):
    atoms, det, n = model_atoms(U, n)
    a = tab["angles"]
    locs = [lin_eval(a["locals"][nm], atoms) for nm in a["local_names"]]
    return [lin_eval(l, locs) for l in a["returns"]], det, n


def instantiate(tab, method, rets):
    return [(g["name"], None if g["arg"] is None else lin_eval(g["arg"], rets)) for g in tab["methods"][method]["gates"]]


def wrap(x):
    return (x + PI) % (2 * PI) - PI


def invariants(r):
    """what the three products depend on: cos(theta/2) e^{i(alpha+beta)/2}, sin(theta/2) e^{i(beta-alpha)/2}, e^{i phase}"""
    pa, pb = (r[0] + r[2]) / 2, (r[2] - r[0]) / 2
    return (math.cos(r[1] / 2) * cmath.exp(1j * pa), math.sin(r[1] / 2) * cmath.exp(1j * pb), cmath.exp(1j * r[3]))


def angles_equiv(r_model, r_impl, tol):
    """equality of two returned tuples modulo what cannot change any of the three products (used ONLY on inputs within
    1e-9 of a branch cut of arg / sqrt, where round-off picks one of several equivalent representations)"""
    return all(abs(x - y) <= tol for x, y in zip(invariants(r_model), invariants(r_impl)))


# --------------------------------------------------------------------------------------------------
# input families

def haar(rng):
    z = np.array([[complex(rng.gauss(0, 1), rng.gauss(0, 1)) for _ in range(2)] for _ in range(2)])
    q, r = np.linalg.qr(z)
    d = np.diag(r)
    return q * (d / np.abs(d))


def su2(a_abs_angle, ta, tb, phase):
    """e^{i phase} [[cos e^{i ta}, sin e^{i tb}], [-sin e^{-i tb}, cos e^{-i ta}]]"""
    c, s = math.cos(a_abs_angle), math.sin(a_abs_angle)
    return cmath.exp(1j * phase) * np.array([[c * cmath.exp(1j * ta), s * cmath.exp(1j * tb)],
                                             [-s * cmath.exp(-1j * tb), c * cmath.exp(-1j * ta)]])


SPECIAL_ANGLES = [0.0, PI, -PI, PI / 2, -PI / 2, PI / 4, 3 * PI / 4, 0.3, -2.5, 2 * PI / 3]


def degenerate_family(rng=None, count=None):
    """(tag, U) over the measure-zero families named by the property"""
    out = []
    E = lambda t: cmath.exp(1j * t)
    for t in SPECIAL_ANGLES:
        for s in SPECIAL_ANGLES[:6]:
            out.append(("diagonal", np.array([[E(t), 0], [0, E(s)]])))
            out.append(("anti-diagonal", np.array([[0, E(t)], [E(s), 0]])))
            out.append(("det=-1", np.array([[E(t), 0], [0, -E(-t)]]) if s == 0.0 else su2(s, t, 0.4, PI / 2)))
        out.append(("scalar", E(t) * np.eye(2, dtype=complex)))
    exact = [("X", [[0, 1], [1, 0]]), ("Y", [[0, -1j], [1j, 0]]), ("Z", [[1, 0], [0, -1]]), ("-Z", [[-1, 0], [0, 1]]),
             ("I", [[1, 0], [0, 1]]), ("-I", [[-1, 0], [0, -1]]), ("iI", [[1j, 0], [0, 1j]]), ("S", [[1, 0], [0, 1j]]),
             ("iY", [[0, 1], [-1, 0]]), ("-iY", [[0, -1], [1, 0]]), ("-X", [[0, -1], [-1, 0]]), ("iX", [[0, 1j], [1j, 0]]),
             ("H", [[1 / math.sqrt(2), 1 / math.sqrt(2)], [1 / math.sqrt(2), -1 / math.sqrt(2)]]),
             ("T", [[1, 0], [0, cmath.exp(1j * PI / 4)]]), ("sqrtX", [[0.5 + 0.5j, 0.5 - 0.5j], [0.5 - 0.5j, 0.5 + 0.5j]])]
    for nm, m in exact:
        out.append(("named:" + nm, np.array(m, dtype=complex)))
    for eps in (1e-12, 1e-13, 1e-15, 1e-100, 1e-300):
        for t in (0.0, 0.7, PI, -2.0):
            for s in (0.0, -1.1, PI):
                out.append(("near-diagonal", su2(eps, t, s, 0.3 * t)))
                out.append(("near-anti-diagonal", su2(PI / 2 - eps, t, s, s)))
                out.append(("near-real-negative", su2(0.6, PI - eps, -PI + eps, 0.0)))
    if rng is not None and count is not None and len(out) > count:
        keep = [o for o in out if o[0].startswith("named")]
        rest = [o for o in out if not o[0].startswith("named")]
        rng.shuffle(rest)
        out = keep + rest[:max(0, count - len(keep))]
    return out


def enc(U):
    return [[float(np.real(U[i][j])), float(np.imag(U[i][j]))] for i in range(2) for j in range(2)]


def dec(w):
    v = [complex(a, b) for a, b in w]
    return np.array([[v[0], v[1]], [v[2], v[3]]])


def classify(e):
    return type(e).__name__


# --------------------------------------------------------------------------------------------------

class C17(PropertyCheck):
    id = "C17"
    lean_modules = ["QipVerif.Props.C17"]
    drivers = ["drv_zyz"]
    theorems = [
        "QipVerif.C17.zyz_exact",
        "QipVerif.C17.zxz_exact",
        "QipVerif.C17.zyz_paulix_exact",
        "QipVerif.C17.decomp_exact_any_root",
        "QipVerif.C17.decomp_axes",
        "QipVerif.C17.u2_parametrisation",
        "QipVerif.C17.zyz_product_entries",
        "QipVerif.C17.cphase_to_cnot_exact",
        "QipVerif.C17.cnot_expansion_identity",
        "QipVerif.C17.qft_cnot_expansion_exact",
        "QipVerif.C17.qft_circuit_eq_steps",
        "QipVerif.C17.qft_gate_count",
        "QipVerif.C17.qft_indices_in_range",
        "QipVerif.C17.qft_eq_dft_le4",      # FINITE INSTANCES (N <= 4), a kernel-evaluated test, not the property
        # general N, operator level (matrices over C on the N-qubit register)
        "QipVerif.C17.qft_eq_dft",
        "QipVerif.C17.qft_eq_dft_cnot",
        "QipVerif.C17.qft_noswap_eq_dft_bitrev",
        "QipVerif.C17.qft_circuit_den_eq_steps",
        "QipVerif.C17.qft_cnot_den_eq_steps",
        "QipVerif.C17.qft_steps_eq_dft",
        "QipVerif.C17.cnot_expansion_on_register",
        "QipVerif.C17.qft_stage_amplitudes",
        "QipVerif.C17.dft_index_big_endian",
    ]
    level = "proof"
    level_text = ("Lean 4 theorems over Mathlib's complex numbers: for EVERY U in U(2) (no genericity hypothesis; diagonal, "
                  "anti-diagonal, scalar, det=-1 inputs are covered by the same proof through |z|*exp(i*arg z) = z at z = 0) "
                  "the gate tuples of methods ZYZ, ZXZ, ZYZ_PauliX, with the angles _angles_for_ZYZ computes, multiply in the "
                  "returned order to U exactly, global phase included, using only the promised gate names; the gate tuples, "
                  "the linear part of the angle extraction and the _cphase_to_cnot template are regenerated from the source "
                  "on every run.  _cphase_to_cnot(lambda) = exp(i*lambda/2)*CPHASE(lambda) for -pi < lambda <= pi (the QFT uses "
                  "pi/2^k), also placed on any two qubits of any register.  For EVERY N >= 1: the gates of "
                  "qft_gate_sequence(N, swapping=True), placed on N qubits with the embedding of C08 and multiplied in circuit "
                  "order, equal the DFT matrix exp(2 pi i x y / 2^N)/sqrt(2^N) (big-endian indices) exactly with native "
                  "controlled phases (qft_eq_dft) and up to the recorded global phase sum(lambda/2) with CNOT expansion "
                  "(qft_eq_dft_cnot); without swaps: DFT with bit-reversed output; for every N and both flags the circuit and the "
                  "product of the qft_steps operators are the same matrix (qft_circuit_den_eq_steps), as gate lists too.")
    level_note = ("Formerly PARTIAL; now proved for every N: QFT circuit = DFT (native: exactly; CNOT expansion: up to the recorded "
                  "global phase), circuit = step list at operator level, stage amplitudes.  qft_eq_dft_le4 remains a separately "
                  "labelled finite-instance test (N <= 4, kernel-evaluated) and is not the property.  What is NOT a theorem: "
                  "floating-point round-off (inputs within 1e-12 of a degenerate family, the branch cut of sqrt at det = -1; "
                  "oracle only, 1e-9); that the Python loops of qft_gate_sequence / qft_steps produce the modelled gate lists "
                  "(hand model Model/Qft.lean, compared exactly with the code for N <= 10 (14 thorough) on every run).  Trusted: "
                  "Lean kernel (propext, Classical.choice, Quot.sound); the translator py/props/c17_translate.py; the hand "
                  "transcription of the non-linear part of _angles_for_ZYZ (csqrt, conj, arg, arctan2) and of the gate matrices, "
                  "validated every run against the real functions; cmath.phase/np.arctan2/np.sqrt taken as Complex.arg / "
                  "arg(x+iy) / principal root; Tg.embed (C08) as the meaning of placing a gate on a register.")
    technique = ("Lean 4 proof (Mathlib: Complex.arg, exp, 2x2/4x4 matrix identities; induction over the loop structure) + "
                 "AST-regenerated tables + model/implementation correspondence")
    trusted_base = [
        "Lean 4.33 kernel; axioms propext, Classical.choice, Quot.sound",
        "py/props/c17_translate.py (AST extraction of gate tuples, angle linear forms, _cphase_to_cnot template), validated "
        "every run by instantiating the tables against the real functions",
        "hand transcription of the non-linear part of _angles_for_ZYZ (Lemmas/ZyzModel.lean) and of rz/ry/rx/x/globalphase/"
        "cnot/cphase matrices (Lemmas/ZyzGates.lean, ZyzCphase.lean), validated every run in floats (1e-9 / 1e-12)",
        "cmath.phase = Complex.arg, np.arctan2(y,x) = arg(x+iy) for x,y >= 0, np.sqrt = principal square root, "
        "np.linalg.det = determinant",
        "meaning of a gate list = ordered product of the gates' matrices (property C01), GLOBALPHASE = scalar",
    ]
    assumptions = ["exact real arithmetic in the theorems; round-off is the oracle's 1e-9 band",
                   "the QFT gate/step lists of Model/Qft.lean are the code's for every N (compared exactly up to N = 10/14)"]
    rule = ("cases: (a) table instantiation vs decompose_one_qubit_gate on Haar-random and degenerate U x 3 methods; "
            "(b) float model of the angle extraction vs _angles_for_ZYZ on the same inputs; (c) gate-matrix samples; "
            "(d) _cphase_to_cnot template on QFT angles and random angles in (-pi,pi]; (e) QFT gate/step lists N=1..10 x flags "
            "(exact); (f) malformed inputs.  Non-trivial = everything except the named identity-like inputs and N=1.")

    def __init__(self):
        self.tab = None

    # ------------------------------------------------------------------------------- T
    def regenerate(self, ctx):
        self.tab = None
        tab = tr.extract(paths.REPO)
        text = tr.render(tab)
        self.tab = tab
        old = open(GEN_FILE).read() if os.path.exists(GEN_FILE) else None
        if old != text:
            os.makedirs(os.path.dirname(GEN_FILE), exist_ok=True)
            with open(GEN_FILE, "w") as f:
                f.write(text)
            return [GEN_FILE]
        return []

    # ------------------------------------------------------------------------------- correspondence
    def _inputs(self, ctx):
        n_haar = 10000 if ctx.thorough else 300
        fam = degenerate_family()
        ins = [("haar", haar(ctx.rng)) for _ in range(n_haar)] + fam
        return ins

    def _corr_decomp(self, ctx, res):
        qutip, decompose, dsg, qftmod, QubitCircuit = _impl()
        tab = self.tab
        for tag, U in self._inputs(ctx):
            U = np.array(U, dtype=complex)
            fam = tag.split(":")[0]
            wbase = {"kind": "decomp", "U": enc(U)}
            inp = {"U": enc(U), "family": tag}
            # (b) H: angle model vs _angles_for_ZYZ
            try:
                r_impl = [float(x) for x in dsg._angles_for_ZYZ(qutip.Qobj(U))]
            except Exception as e:
                res.case(dict(inp, part="angles"), tags=["angles", "family=" + fam])
                res.disagree(inp, "angles", classify(e), "_angles_for_ZYZ raised on a unitary", dict(wbase, method="ZYZ"))
                continue
            if tab is not None:
                r_model, det, n = model_returned(tab, U)
                strict = all(abs(a - b) <= 1e-9 for a, b in zip(r_model, r_impl))
                how = "strict"
                if not strict and near_branch(U):
                    # branch cuts of arg / sqrt: accept only the equivalences that cannot change the products
                    cands = [n]
                    if abs(abs(m_arg(det)) - PI) < 1e-9:
                        cands.append(-n)
                    ok = False
                    for nn in cands:
                        rm, _, _ = model_returned(tab, U, nn)
                        if angles_equiv(rm, r_impl, 1e-9):
                            ok = True
                    how = "branch-cut-equivalent" if ok else "differs"
                elif not strict:
                    how = "differs"
                res.case(dict(inp, part="angles"), nontrivial=True, tags=["angles", "family=" + fam, "angles:" + how])
                if how == "differs":
                    res.disagree(dict(inp, part="angles"), r_model, r_impl,
                                 "float evaluation of the Lean angle model differs from _angles_for_ZYZ", dict(wbase, method="ZYZ"))
            # (a) T: instantiate the extracted tuples on the angles the code computed
            for m in METHODS:
                w = dict(wbase, method=m)
                try:
                    gs = decompose(qutip.Qobj(U), m)
                    got = [gate_rec(g) for g in gs]
                except Exception as e:
                    res.case(dict(inp, method=m), tags=["tuple", "method=" + m])
                    res.disagree(dict(inp, method=m), "tuple", classify(e), "decompose_one_qubit_gate raised on a unitary", w)
                    continue
                res.case(dict(inp, method=m), nontrivial=not tag.startswith("named:I"),
                         tags=["tuple", "method=" + m, "family=" + fam])
                if tab is None:
                    continue
                if m not in tab["methods"]:
                    res.disagree(dict(inp, method=m), None, [g[0] for g in got], "method missing from the extracted table", w)
                    continue
                exp = instantiate(tab, m, r_impl)
                bad = None
                if len(exp) != len(got):
                    bad = "length"
                else:
                    for (en, ea), (gn, gt, gc, ga) in zip(exp, got):
                        if en != gn or gt != [0] or gc != []:
                            bad = "name/qubits"
                        elif (ea is None) != (ga is None):
                            bad = "argument presence"
                        elif ea is not None and abs(ea - ga) > 1e-12 * max(1.0, abs(ga)):
                            bad = "angle"
                        if bad:
                            break
                if bad:
                    res.disagree(dict(inp, method=m), exp, got, f"extracted tuple vs returned tuple: {bad}", w)

    def _corr_gate_matrices(self, ctx, res):
        from qutip_qip.operations import gates as G
        rng = ctx.rng
        for _ in range(12):
            x = rng.uniform(-7, 7)
            samples = [("RZ", mat1("RZ", x), G.rz(x).full()), ("RY", mat1("RY", x), G.ry(x).full()),
                       ("RX", mat1("RX", x), G.rx(x).full()), ("X", mat1("X", None), G.x_gate().full()),
                       ("GLOBALPHASE", cmath.exp(1j * x) * np.eye(2), G.globalphase(x, 1).full()),
                       ("CNOT", mat2("CNOT", None), G.cnot().full()), ("CPHASE", mat2("CPHASE", x), G.cphase(x).full()),
                       ("SWAP", mat2("SWAP", None), G.swap().full()), ("SNOT", mat1("SNOT", None), G.snot().full())]
            for nm, mine, theirs in samples:
                res.case({"gate": nm, "x": x}, nontrivial=True, tags=["gate-matrix", "gate=" + nm])
                if np.abs(mine - theirs).max() > 1e-12:
                    res.disagree({"gate": nm, "x": x}, mine.tolist(), theirs.tolist(), "gate matrix of the model vs library", None)

    def _corr_cphase(self, ctx, res):
        qutip, decompose, dsg, qftmod, QubitCircuit = _impl()
        tab = self.tab
        rng = ctx.rng
        lams = [PI / 2 ** k for k in range(0, 12)] + [rng.uniform(-PI, PI) for _ in range(40 if ctx.thorough else 12)]
        lams += [-PI / 2, -PI + 1e-9, 1e-9]
        for lam in lams:
            t, c = rng.sample(range(6), 2)
            inp = {"cphase_lambda": lam, "t": t, "c": c}
            w = {"kind": "cphase", "lam": lam}
            res.case(inp, nontrivial=True, tags=["cphase-template"])
            try:
                got = [gate_rec(g) for g in qftmod._cphase_to_cnot([t], [c], lam)]
            except Exception as e:
                res.disagree(inp, "list", classify(e), "_cphase_to_cnot raised", w)
                continue
            # closed form proved in Lean (cphaseToCnot_eq) for -pi < lam <= pi
            lean_form = [("RZ", [t], [], lam / 2), ("CNOT", [t], [c], None), ("RZ", [t], [], -lam / 2),
                         ("CNOT", [t], [c], None), ("RZ", [c], [], lam / 2), ("GLOBALPHASE", [0], [], lam / 2 + lam / 4)]
            forms = [("model closed form (Lean cphaseToCnot_eq)", lean_form)]
            if tab is not None:
                # template instantiated on what the real decomposition returns
                rot = qutip.Qobj([[1.0, 0.0], [0.0, np.exp(1.0j * lam)]])
                decg = [gate_rec(g) for g in decompose(rot, tab["cphase"]["method"])]
                exp = []
                for e in tab["cphase"]["entries"]:
                    if e["kind"] == "dec":
                        nm, ts, cs, x = decg[e["index"]]
                        q = {"targets": [t], "controls": [c], None: ts}[e["qubits"]]
                        exp.append((nm, q, cs, x + float(e["extra"]) * lam))
                    else:
                        q = {"targets": [t], "controls": [c]}
                        exp.append((e["name"], q[e["targets"]], [] if e["controls"] is None else q[e["controls"]],
                                    None if e["coef"] is None else float(e["coef"]) * lam))
                forms.append(("extracted template", exp))
            for what, exp in forms:
                ok = len(exp) == len(got) and all(
                    a[0] == b[0] and a[1] == b[1] and a[2] == b[2] and (a[3] is None) == (b[3] is None)
                    and (a[3] is None or abs(a[3] - b[3]) <= 1e-12) for a, b in zip(exp, got))
                if not ok:
                    res.disagree(inp, exp, got, f"_cphase_to_cnot: {what} vs returned list", w)

    def _parse_gates(self, line):
        body = line[3:].strip()
        out = []
        for cell in filter(None, body.split(";")):
            nm, ts, cs, a = cell.split(":")
            L = lambda s: [] if s == "-" else [int(x) for x in s.split(",")]
            ang = None
            if a != "-":
                num, ex = a.split("/")
                ang = (int(num), int(ex))
            out.append((nm, L(ts), L(cs), ang))
        return out

    def _corr_qft(self, ctx, res):
        qutip, decompose, dsg, qftmod, QubitCircuit = _impl()
        maxN = 14 if ctx.thorough else 10
        cases = [(N, sw, cn) for N in list(range(-2, maxN + 1)) for sw in (True, False) for cn in (False, True)]
        outs = ctx.driver("drv_zyz").run([f"qft n={N} swapping={int(sw)} cnot={int(cn)}" for N, sw, cn in cases])
        for (N, sw, cn), o in zip(cases, outs):
            inp = {"qft_gate_sequence": N, "swapping": sw, "to_cnot": cn}
            w = {"kind": "qft", "N": N, "swapping": sw, "cnot": cn}
            res.case(inp, nontrivial=N >= 2, tags=["qft-circuit", f"N={N}", f"cnot={cn}", f"swapping={sw}"]
                     if N >= 1 else ["qft-circuit", "malformed=N<1"])
            try:
                qc = qftmod.qft_gate_sequence(N, swapping=sw, to_cnot=cn)
                impl = [gate_rec(g) for g in qc.gates]
                if qc.N != N:
                    res.disagree(inp, N, qc.N, "circuit width", w)
                    continue
            except ValueError:
                impl = "err value"
            except Exception as e:
                impl = "err other:" + classify(e)
            if not o.startswith("ok"):
                if impl != o:
                    res.disagree(inp, o, impl if isinstance(impl, str) else "ok", "verdict (ValueError for N < 1)", w)
                continue
            if isinstance(impl, str):
                res.disagree(inp, "ok", impl, "implementation rejects a valid N", w)
                continue
            model = self._parse_gates(o)
            bad = None
            if len(model) != len(impl):
                bad = f"number of gates {len(model)} vs {len(impl)}"
            else:
                for k, ((mn, mt, mc, ma), (gn, gt, gc, ga)) in enumerate(zip(model, impl)):
                    if (mn, mt, mc) != (gn, gt, gc):
                        bad = f"gate {k}: {(mn, mt, mc)} vs {(gn, gt, gc)}"
                    elif (ma is None) != (ga is None):
                        bad = f"gate {k}: angle presence"
                    elif ma is not None:
                        val = ma[0] * PI / 2 ** ma[1]
                        if mn == "CPHASE":
                            if ga != val:          # np.pi / 2**k is exact in floats
                                bad = f"gate {k}: CPHASE angle {ga!r} vs {val!r}"
                        elif abs(ga - val) > 1e-12:
                            bad = f"gate {k}: angle {ga!r} vs {val!r}"
                    if bad:
                        break
            if bad:
                res.disagree(inp, o[:300], [list(g) for g in impl][:12], "gate list: " + bad, w)
        # step lists
        maxS = 8 if ctx.thorough else 6
        scases = [(N, sw) for N in range(-1, maxS + 1) for sw in (True, False)]
        outs = ctx.driver("drv_zyz").run([f"steps n={N} swapping={int(sw)}" for N, sw in scases])
        for (N, sw), o in zip(scases, outs):
            inp = {"qft_steps": N, "swapping": sw}
            w = {"kind": "qft", "N": N, "swapping": sw, "cnot": False}
            res.case(inp, nontrivial=N >= 2, tags=["qft-steps", f"N={N}"] if N >= 1 else ["qft-steps", "malformed=N<1"])
            try:
                impl = qftmod.qft_steps(N, swapping=sw)
            except ValueError:
                impl = "err value"
            except Exception as e:
                impl = "err other:" + classify(e)
            if not o.startswith("ok"):
                if impl != o:
                    res.disagree(inp, o, impl if isinstance(impl, str) else "ok", "verdict (ValueError for N < 1)", w)
                continue
            if isinstance(impl, str):
                res.disagree(inp, "ok", impl, "implementation rejects a valid N", w)
                continue
            steps = [c.split(":") for c in o[3:].strip().split(";")]
            if len(steps) != len(impl):
                res.disagree(inp, len(steps), len(impl), "number of steps", w)
                continue
            for k, (st, op) in enumerate(zip(steps, impl)):
                if st[0] == "snot":
                    M = embed(mat1("SNOT", None), [int(st[1])], N)
                elif st[0] == "cphase":
                    M = embed(mat2("CPHASE", PI / 2 ** int(st[3])), [int(st[1]), int(st[2])], N)
                else:
                    M = embed(mat2("SWAP", None), [int(st[1]), int(st[2])], N)
                F = op.full()
                if F.shape != M.shape or np.abs(F - M).max() > 1e-12:
                    res.disagree(inp, ":".join(st), "operator differs", f"step {k}", w)
                    break

    def _corr_malformed(self, ctx, res):
        qutip, decompose, dsg, qftmod, QubitCircuit = _impl()
        rng = ctx.rng
        U = haar(rng)
        cases = [("not-unitary-scaled", qutip.Qobj(2.0 * U), "ZYZ", "ValueError"),
                 ("not-unitary-singular", qutip.Qobj(np.array([[1, 1], [1, 1]], dtype=complex)), "ZXZ", "ValueError"),
                 ("two-qubit-unitary", qutip.Qobj(np.eye(4), dims=[[2, 2], [2, 2]]), "ZYZ", "ValueError"),
                 ("ndarray", U, "ZYZ", "TypeError"),
                 ("bad-method", qutip.Qobj(U), "XYX", "MethodError"),
                 ("bad-method-case", qutip.Qobj(U), "zyz", "MethodError"),
                 ("none-method", qutip.Qobj(U), None, "MethodError")]
        for nm, arg, m, want in cases:
            res.case({"malformed": nm, "method": m}, nontrivial=True, tags=["malformed=" + nm])
            try:
                decompose(arg, m)
                got = "ok"
            except Exception as e:
                got = classify(e)
            if got != want:
                res.disagree({"malformed": nm}, want, got, "rejection of an input outside the theorem's hypotheses", None)

    def correspondence(self, ctx, res):
        if self.tab is None:
            res.notes.append("translator failed: table instantiation and angle-model comparison skipped; "
                             "QFT lists, gate matrices and the Lean closed form of _cphase_to_cnot still compared")
        self._corr_gate_matrices(ctx, res)
        self._corr_decomp(ctx, res)
        self._corr_cphase(ctx, res)
        self._corr_qft(ctx, res)
        self._corr_malformed(ctx, res)
        res.exhaustive = True
        res.notes.append("exhaustive: QFT gate lists for every N in 1..%d, both flags (exact comparison); step lists N <= %d. "
                         "Sampled: unitaries (Haar + degenerate families)." % (14 if ctx.thorough else 10, 8 if ctx.thorough else 6))

    # ------------------------------------------------------------------------------- oracle
    def oracle_replay(self, ctx, w):
        """the property on the real code for one witness; an exception of the implementation on a valid input fails it"""
        if w.get("kind") not in ("decomp", "cphase", "qft"):
            raise ValueError("unknown witness kind")
        try:
            return self._oracle(ctx, w)
        except Exception as e:
            return True, f"the implementation raised {classify(e)}: {str(e)[:200]}"

    def _oracle(self, ctx, w):
        qutip, decompose, dsg, qftmod, QubitCircuit = _impl()
        if w["kind"] == "decomp":
            U = dec(w["U"])
            m = w["method"]
            try:
                gs = decompose(qutip.Qobj(U), m)
            except Exception as e:
                return True, f"decompose_one_qubit_gate raised {classify(e)}: {e}"
            recs = [gate_rec(g) for g in gs]
            names = {r[0] for r in recs}
            if not names <= PROMISED[m]:
                return True, f"gates {sorted(names - PROMISED[m])} outside what method {m} promises"
            if any(r[1] != [0] or r[2] != [] for r in recs):
                return True, "a returned gate is not on qubit 0"
            P = circuit_matrix(recs, 1)
            err = float(np.abs(P - U).max())
            qc = QubitCircuit(1)
            qc.add_gates(list(gs))
            err2 = float(np.abs(qc.compute_unitary().full() - U).max())
            if err > 1e-9 or err2 > 1e-9:
                _, ph, perr = equal_up_to_phase(P, U, 1e-9)
                return True, (f"product of the returned gates differs from the input: max|diff| = {err:.3e} "
                              f"(library product: {err2:.3e}; up to a global phase {ph:.6f}: {perr:.3e})")
            return False, f"product equals the input (max|diff| {max(err, err2):.1e})"
        if w["kind"] == "cphase":
            lam = w["lam"]
            recs = [gate_rec(g) for g in qftmod._cphase_to_cnot([1], [0], lam)]
            ok, ph, err = equal_up_to_phase(circuit_matrix(recs, 2), mat2("CPHASE", lam), 1e-9)
            if not ok and -PI < lam <= PI:
                return True, f"_cphase_to_cnot({lam}) is not a controlled phase up to a global phase (err {err:.3e})"
            return False, f"controlled phase up to global phase {ph:.6f}" if ok else "outside (-pi, pi]: not claimed"
        if w["kind"] == "qft":
            N, sw, cn = w["N"], w["swapping"], w["cnot"]
            if N < 1:
                for f in (lambda: qftmod.qft_gate_sequence(N, sw, cn), lambda: qftmod.qft_steps(N, sw)):
                    try:
                        f()
                        return True, "N < 1 accepted"
                    except ValueError:
                        pass
                    except Exception as e:
                        return True, f"N < 1: {classify(e)} instead of ValueError"
                return False, "N < 1 rejected"
            qc = qftmod.qft_gate_sequence(N, swapping=sw, to_cnot=cn)
            recs = [gate_rec(g) for g in qc.gates]
            C = circuit_matrix(recs, N)
            C2 = qc.compute_unitary().full()
            if np.abs(C - C2).max() > 1e-9:
                return True, "library circuit unitary differs from the ordered product of the gates' matrices"
            S = np.eye(1 << N, dtype=complex)
            for op in qftmod.qft_steps(N, swapping=sw):
                S = op.full() @ S
            if cn:
                ok, ph, err = equal_up_to_phase(C, S, 1e-9)
                if not ok:
                    return True, f"circuit (CNOT expansion) and step list differ beyond a global phase: {err:.3e}"
            else:
                err = float(np.abs(C - S).max())
                if err > 1e-9:
                    return True, f"circuit and step list differ: {err:.3e}"
            if sw:
                F = dft_matrix(N)
                if np.abs(qftmod.qft(N).full() - F).max() > 1e-9:
                    return True, "qft(N) is not the DFT matrix"
                if cn:
                    ok, ph, err = equal_up_to_phase(C, F, 1e-9)
                    if not ok:
                        return True, f"circuit is not the DFT up to a global phase: {err:.3e}"
                else:
                    err = float(np.abs(C - F).max())
                    errs = float(np.abs(S - F).max())
                    if err > 1e-9 or errs > 1e-9:
                        return True, f"circuit / steps do not multiply to the DFT matrix: {err:.3e} / {errs:.3e}"
            return False, "circuit, steps and DFT agree"
        raise ValueError("unknown witness kind")

    def _decomp_witnesses(self, ctx, n_haar, fam_count=None, families=True):
        for tag, U in (degenerate_family(ctx.rng if fam_count else None, fam_count) if families else []):
            for m in METHODS:
                yield {"kind": "decomp", "U": enc(np.array(U, dtype=complex)), "method": m}
        for _ in range(n_haar):
            U = haar(ctx.rng)
            for m in METHODS:
                yield {"kind": "decomp", "U": enc(U), "method": m}

    def _qft_witnesses(self, maxN):
        for N in range(0, maxN + 1):
            for sw in (True, False):
                for cn in (False, True):
                    yield {"kind": "qft", "N": N, "swapping": sw, "cnot": cn}

    def _run(self, ctx, ws, t0=None, budget=None):
        for w in ws:
            if budget is not None and time.time() - t0 > budget:
                return
            try:
                f, d = self.oracle_replay(ctx, w)
            except Exception as e:
                f, d = True, f"oracle crashed on the implementation: {classify(e)}: {e}"
            if f:
                yield w, d

    def oracle_always(self, ctx):
        yield from self._run(ctx, self._qft_witnesses(7))
        yield from self._run(ctx, self._decomp_witnesses(ctx, 3000 if ctx.thorough else 100))

    def oracle_search(self, ctx, budget_s):
        t0 = time.time()
        yield from self._run(ctx, self._qft_witnesses(7), t0, budget_s)
        yield from self._run(ctx, ({"kind": "cphase", "lam": PI / 2 ** k} for k in range(0, 10)), t0, budget_s)
        yield from self._run(ctx, self._decomp_witnesses(ctx, 0), t0, budget_s)
        while time.time() - t0 < budget_s:
            yield from self._run(ctx, self._decomp_witnesses(ctx, 50, families=False), t0, budget_s)


CHECK = C17()
